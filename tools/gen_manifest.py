#!/usr/bin/env python3
"""Generates /verif/MANIFEST.json from the table below (single source of truth)."""
import json, os, subprocess

root = os.path.dirname(os.path.dirname(os.path.abspath(__file__)))

MC = "model_checking"
EX = "exploration"

# id -> (engine, level, technique, level text, level note, design ref)
CHECKS = {
    "C20": (
        "chk-kind", MC,
        "complete enumeration of the finite domain + explicit-state BFS (stateright) of the real KindSetIter against a VecDeque reference",
        "The domain is finite (64 sets, 6 kinds) and is enumerated completely: every set through three construction routes, every operand pair of every operator form, every rendering, and every reachable state of the real KindSetIter under {next, next_back} from all 64 initial sets (until two steps beyond exhaustion), compared in lock-step with a VecDeque reference. Nothing is left outside the bound.",
        "Trusts the reference renderer written from the rustdoc and that Kind has the six documented variants; stateright's BFS and fingerprinting.",
        "4/C20",
    ),
}

CHECKS.update({
    "C06": (
        "chk-object", MC,
        "explicit-state BFS to fixpoint (stateright) with the real Object inside the state, lock-step with a Vec reference model, under three harness-chosen hash functions",
        "Every operation history over a small key universe that stays within the length bound is covered (the search runs to fixpoint, so history length is unbounded): each transition executes the real operation and the ordered-list model, compares the operation's result, then compares all key queries for every key of the universe and an absent key with linear scans and checks the index invariant through hook H1. Pumped non-initial states (objects grown through every growth threshold of the key index up to 4 097 keys, shrunk back by front / back / alternating / middle removals, n duplicates of one key, keys longer than 16 / 32 / 64 bytes) are explored to a depth bound. The index's hash function is owned by the harness (real ahash with fixed seeds, constant, two-class), so collisions are forced rather than left to a random seed.",
        "Trusts hashbrown's RawTable, the reference model R-obj (DESIGN A.4, the documented semantics incl. remove_unique removing all duplicates on error), stateright. Key universe <= 4 keys and length <= 6 in the fixpoint runs.",
        "4/C06",
    ),
    "C14": (
        "chk-object", MC,
        "explicit-state BFS over operation histories (shared with C06) comparing every reachable object with canonically rebuilt ones + exhaustive pairs/triples of a closed value universe",
        "In every reachable state of the C06 search (three hash modes, so different index internals) the history-built object is compared by ==, cmp, partial_cmp and hash with from_vec / from_iter / clone builds of the same entry list; with transitivity this covers all pairs of histories with equal entry lists. The order laws are checked on all ordered pairs and all triples of every value up to a node bound.",
        "Law universe: all 522 values of <= 3 nodes over 7 leaves and 2 keys (all pairs, all 1.4e8 triples), both tiers. Hash equality is probed with std's fixed-key SipHash.",
        "4/C14",
    ),
    "C15": (
        "chk-object", EX,
        "bounded-exhaustive enumeration of all ordered pairs of all values up to a node bound, against recursively sorted normal forms",
        "All ordered pairs of all values with <= 4 (quick, 1 536 values) / <= 5 (thorough, 20 644 values) nodes over leaves {0,1} and keys {a,b}: every multiplicity pattern of duplicate keys with up to 3 (4) entries, nesting, arrays. unordered_eq, the Unordered wrapper and as_unordered are compared with equality of sorted normal forms; reflexivity, symmetry, transitivity (all triples of the <= 3-node universe) and implication by == are checked.",
        "Trusts the normal-form reference (multiset of entries). Values beyond the node bound and other leaf kinds are outside.",
        "4/C15",
    ),
})

TREE = "stateless depth-first exploration of the parser's execution tree (driver owns the character iterator; every input over layered alphabets up to a depth bound executed on the real parser) against an independent pushdown-automaton reference"
CHECKS.update({
    "C01": (
        "chk-parse", MC, TREE + "; complete byte-sequence families",
        "Every input over eight alphabets (structure, mixed, number automaton x 4 follow contexts, literals, string escapes, surrogate macro-symbols, an 19-token alphabet, a 24-byte alphabet) up to a depth that is iterated upward inside the time budget, plus one (quick) / two (thorough) deviations from a ~210-character wide alphabet (all ASCII, every UTF-8 length class and lead-byte class, Unicode spaces, BOM, surrogate neighbours, and 56 characters that alias an ASCII syntax character modulo 2^8 / 2^16), plus every byte sequence of length <= 3 (and the 4-byte families) inside strings and at top level, plus every truncation, single-byte substitution, insertion and deletion at every offset of the 311 corpus documents, plus (all tiers) every Unicode scalar as a raw character and all 65 536 \\u escapes, is executed through every entry point and the verdict compared with R-pda + surrogate well-formedness + core::str::from_utf8. Subtrees below non-viable prefixes are pruned (sound for a deterministic single-pass parser) with a post-mortem horizon of 2 for the entry points whose consumption cannot be observed.",
        "Bounded by depth and deviation count; transfer to longer texts rests on the finiteness of the parser's control state (lexical state x top of stack x lookahead), all of whose (state, input class) pairs occur in the trees. Reference models are cross-checked against each other and serde_json on every node.",
        "4/C01",
    ),
    "C02": (
        "chk-parse", MC, TREE + " on accepted leaves; complete enumeration of the escape / surrogate-pair / scalar domains",
        "Every accepted text of the trees plus the complete families (all 65 536 \\uXXXX in both hex cases, all 1 048 576 surrogate pairs, all 1 112 064 raw scalars, all backslash+ASCII pairs, the inline->heap spill lengths 0..40, every value up to 6/7 nodes over keys {a,b} with every duplicate-key pattern and alternating raw/escaped key spellings) is parsed through parse_str, parse_slice and the observed iterator; the value observed through the public accessors must equal R-dec's abstract value and every key lookup on every object must equal a linear scan.",
        "Large/nested documents beyond the tree depth are outside; R-dec is an independent recursive-descent decoder cross-checked with R-pda and serde_json.",
        "4/C02",
    ),
    "C03": (
        "chk-parse", MC, TREE + " under four option records with a totality guard; exhaustive cover of the container-transition graph pumped to depth 5e4..2e6 in fixed-stack threads of child processes",
        "Totality: every node of the trees, every byte string of length <= 3 over all 256 values, the <=4-byte families and every corpus edit, under all four option records, runs inside catch_unwind with a 10 s watchdog and an input iterator that aborts after 1000 polls past the end. Stack: all 84 words of length <= 3 over the four container-entry forms are pumped to depth N (5e4 quick; 2e5 and 2e6 thorough), closed / unclosed / wrongly closed, with seven endings (closed; unclosed; wrong innermost closer; closed + trailing garbage; wrong outermost closer; deep first item / member followed by a bad sibling - the last four exercise the parser's error path after a deep value has been built), parsed through parse_slice_with and parse_str_with and traversed in a thread with a 64 KiB (256 KiB) stack inside child processes; a killed child is a violation.",
        "Wide containers are pumped together with the depth: every word of length <= 2 with at least one wide form (w items before / around the nested value; w = 33, 257 quick, 5..1025 thorough) at depth 4e3..1e4, all seven endings. Arbitrary bytes only up to length 3 (+ structured families); nesting cycles longer than 3 are outside. Dropping a deep value is recursive (outside the statement) so the pump leaks it.",
        "4/C03",
    ),
    "C05": (
        "chk-parse", MC, TREE + " on accepted leaves against R-dec's expected code map",
        "For every accepted text of the structure, mixed, string and token trees (and the whitespace and spill families) the returned code map must equal R-dec's pre-order list of (start, end, volume) exactly, through the string, byte-slice and iterator entry points; plus root volume = length, volumes >= 1, one entry per traversal fragment.",
        "Documents beyond the depth bounds are outside; R-dec's map construction follows DESIGN A.2.",
        "4/C05",
    ),
    "C07": (
        "chk-parse", MC, TREE + " on every rejected node, compared with the viable-prefix recogniser",
        "Every rejected node (including post-mortem nodes and all byte families / corpus edits): Unexpected must carry exactly the longest-viable-prefix length and the character there (none iff at the end); InvalidUtf8 the offset of the first ill-formed sequence unless a syntax error lies strictly before it; surrogate errors the offending code units and a span inside the escape sequence(s); every offset a character boundary inside the input; checked for every entry point.",
        "Weaker reading for surrogate spans (may extend to the detection point, DESIGN A.7.1); which of several coexisting faults is reported first is only constrained as far as the statement fixes it.",
        "4/C07",
    ),
    "C11": (
        "chk-parse", MC, TREE + " on the token trees: every accepted document's navigation API compared with a traversal table",
        "For every accepted document of two token alphabets (all token sequences up to the bound): get_fragment for every index and three past the end, iter_mapped on every array and object, the eight mapped key lookups for every key and an absent key, volume and count are compared with a table built from traverse(), and the span at each returned offset is cut from the source and re-parsed; every value up to 6/7 nodes with every duplicate-key pattern (compact and pretty); conversions: every nested-array / map shape up to a bound with a wrong-kind value planted at every position must fail at that fragment's index.",
        "Relies on C05 for span exactness. Conversions are covered for Vec<Vec<String>>, a harness leaf type, BTreeMap<String, Vec<_>>, Option/Box/scalars.",
        "4/C11",
    ),
    "C12": (
        "chk-parse", MC, TREE + " under all four option records, surrogate macro-symbol tree",
        "Every sequence of up to 4-6 string elements over {two high, two low surrogate escapes, an ordinary escape, a two-character escape, two raw characters, the quote} in value, key and array-item position, the C01 trees, all 65 536 escapes and all 2^20 pairs, each under the four option records: acceptance must equal (grammar-valid and every fault tolerated by that record), each fault decodes to exactly one U+FFFD, pairs combine, strict-valid documents give identical value and code map under every record, and rejected texts carry the error of the first untolerated fault.",
        "Reference semantics of the lenient options: DESIGN A.3.",
        "4/C12",
    ),
})

ENUM = "bounded-exhaustive enumeration (every value up to a node count over a leaf/key alphabet) x (every option record within two field deviations of a preset, thresholds straddling the actual widths)"
CHECKS.update({
    "C04": (
        "chk-print", EX, ENUM + "; print with the real printer, re-parse with the real parser",
        "Every value with <= 4 (quick) / <= 5 (thorough) nodes over the shape alphabet and <= 3 nodes over the rich alphabet (heap-spilled numbers, a string with every escape class, controls, DEL, U+2028, non-BMP, U+FFFF, the empty key, duplicate keys) is printed under the three presets and under every record that differs from a preset in at most two of the 15 fields (numeric fields 0..3, 8 indent units, all Limit variants with thresholds W-1, W, W+1 around every container's actual one-line width), thorough adds the full {0,1}^12 x 3 indents x 36 limit pairs grid; every Unicode scalar value is round-tripped as key and string; S-all: every string of length <= 4 / <= 5 over one representative of each character class the printer distinguishes; P-all: every ordered pair over U+0000..U+0020 + class representatives and triples over 9 characters; C-all: every character U+0000..U+00FF individually in containers with straddling width thresholds. Each output must parse (strict) to a value equal to the original.",
        "Relies on C01/C02 for the parser. Values beyond the node bound and records more than two fields away from a preset (outside the thorough grid) are not covered.",
        "4/C04",
    ),
    "C08": (
        "chk-print", EX, "complete enumeration of the Unicode scalar domain + bounded-exhaustive structured values against a reference RFC 8785 serializer",
        "All 1 112 064 scalar values as a one-character string, as key and value, and inside an array string, plus S-all (length <= 5 / <= 6) and P-all strings and all structured values of the C04 families: compact_print, to_string, Display, String::from and print_with(compact) must be byte-identical to the reference serializer and contain no whitespace outside strings.",
        "Complete over the character domain; structured values bounded as in C04.",
        "4/C08",
    ),
    "C13": (
        "chk-print", EX, ENUM + "; byte-for-byte against an independent reference layout printer",
        "The same product as C04; the output must equal R-print (written from the option documentation, width = characters actually printed measured on the one-line text itself) byte for byte; the inline and compact presets never emit a line break; pretty_print equals print_with(pretty).",
        "Points the documentation leaves open (which spacing is printed in expanded form, expanded empty containers) are taken from the current behaviour (DESIGN A.5) - the check pins them rather than judging them.",
        "4/C13",
    ),
})

CHECKS.update({
    "C09": (
        "chk-canon", EX, "bounded-exhaustive enumeration: every ordered selection of keys from a 15-key set (all subsets in every permutation) and three exhaustive number families, against an independent RFC 8785 reference",
        "Keys: every ordered selection of up to 5 (quick) / 6 (thorough) distinct keys out of 18 - the set contains U+E000, U+FFFF, U+10000, U+10001 (same high surrogate), U+10FFFF and shared-prefix keys, i.e. the region where UTF-16 and code-point order differ - flat, object-in-object and object-in-array. Numbers: every JSON number spelling of length <= 7 / <= 8 over 0 1 2 5 9 - . e E +; for every double m*2^e with m in 16 (quick) / ~70 (thorough) mantissa patterns and every binary exponent, the exact decimal expansion of the double, of the midpoint to its successor and of the midpoint +-1 unit in the last place (up to ~770 digits); a positional family (short digit strings at every magnitude 1e-15..1e25 written without exponent); the notation thresholds and RFC 8785 Appendix B. canonicalize + compact_print must equal R-canon byte for byte.",
        "R-canon = std's correctly rounded str::parse::<f64> + std's shortest digits + ECMAScript's round-half-even tie rule via an exact big-integer expansion; self-checked against Appendix B and against ryu-js on every structured double. Long decimals outside the structured family are not covered.",
        "4/C09",
    ),
    "C10": (
        "chk-canon", EX, "bounded-exhaustive enumeration of equivalence classes of documents (all member permutations, exact number respellings by a rewriting system, escape spellings, whitespace) with byte-identical canonical output required",
        "Every permutation of every key set of up to 5 / 6 keys against the sorted selection; every exact respelling (exponent shift, trailing zeros, e/E, +, positional forms) of every number spelling of length <= 6 / <= 7; every pair of 12 escapable characters in all their escape spellings under four whitespace variants; on every value: second application is the identity, nothing but order and number spelling changes (numbers compared as doubles), every object stays queryable by key with a well-formed index (hook H1).",
        "The rewriting system is checked to be value-preserving with std's parser on every respelling (a failure is a machinery error).",
        "4/C10",
    ),
})

CHECKS.update({
    "C16": (
        "chk-serde", EX, "bounded-exhaustive enumeration of instances of a recursive serde type family (every shape nested in every other up to a node bound) + complete / structured leaf domains placed in every one-hole context; complete 2^32 sweep of f32 (thorough)",
        "Structure: every instance with <= 4 (quick) / <= 5 (thorough) nodes of a 15-constructor recursive type covering unit, unit struct, newtype/tuple/plain structs, unit/newtype/tuple/struct variants, Option, tuples, Vec, maps keyed by String and i8. Leaves: every i8/u8/i16/u16 (complete), wide integers at their bounds, every Unicode scalar as char value and char key (complete), strings incl. controls/non-BMP/the reserved token, unit-variant and newtype keys, f64 on every binary exponent x 64 (2048) mantissas x 2 signs, f32 on every exponent x 64 mantissas (quick) / every one of the 2^32 bit patterns (thorough) - in every one-hole context. Oracles: from_value(to_value(x)) == x (floats by bits, -0 may become +0), non-finite floats -> null, to_value(x) has serde_json's shape, serde_json's rendering converted and deserialized gives x.",
        "Domain guard: a datum is used only if serde_json itself round-trips it. f64 is a structured subset (2^64 values cannot be swept). Numbers are compared by value with serde_json (f32 data after reading both as f32).",
        "4/C16",
    ),
    "C17": (
        "chk-serde", EX, "bounded-exhaustive enumeration of number spellings (walk of the number DFA up to a length bound) and of all values up to a node bound with duplicate keys in every pattern",
        "Every JSON number spelling of length <= 7 / <= 8 over 0 1 9 - . e E + plus 20 boundary numbers, bare / array item / object member; every value with <= 5 / <= 6 nodes over leaves {null, 0, 1.5, \"a\"} and keys {a, b, the reserved token}. Serialize with the crate's serializer must reproduce the value exactly (-0 may lose its sign), duplicates collapsing to the first position holding the last value; from_value::<Value> and serde_json::from_str::<Value> must give the same structure with every number denoting the same integer or double.",
        "Known-finding classes D9a, D9b, D11 are matched by predicates implemented in the check (known_findings.json); the text path is judged against the double serde_json's own deserializer delivers.",
        "4/C17",
    ),
    "C18": (
        "chk-serde", EX, "bounded-exhaustive enumeration: serde_json numbers in all three representations over structured doubles, every number spelling up to a length bound, every value up to a node bound, both directions",
        "serde_json side: u64/i64 boundary integers, every binary exponent x 64 (1024) mantissas x 2 signs as Float, every duplicate-free value of <= 5 / <= 6 nodes; json-syntax side: every number spelling of length <= 7 / <= 8, boundary numbers, magnitudes outside double range, std's shortest spellings of the structured doubles, every value of <= 5 / <= 6 nodes. serde_json -> json-syntax -> serde_json must be the identity (also through the From impls); json-syntax -> serde_json -> json-syntax equal up to entry order and number spelling; no panic in either direction.",
        "Known finding D10 (panic on magnitudes no f64 can represent) is matched by its predicate. f64 is a structured subset.",
        "4/C18",
    ),
})

CHECKS.update({
    "C19": (
        "chk-macro", EX, "bounded-exhaustive enumeration of json! programs from a grammar with one production per macro arm, compiled by rustc against /repo and executed (program-space exploration; the macro expander is the transition function)",
        "Every document with <= 3 (quick) / <= 4 (thorough) nodes over 3 leaves x 4 key forms (string literal, parenthesised literal, expression munched token by token, a second key) and, one size deeper, over 2 leaves x 2 key forms - nested arrays and objects to depth 3, duplicate keys, trailing comma present or absent in every non-empty container - plus 15 literal kinds (null/true/false, positive and negative integers and floats, strings, expression elements, empty containers) in 19 one-hole contexts: 6 153 programs quick, 114 311 thorough. Each program is compiled (one program per source line, 16-64 crates) and its value compared with Value::parse_str of the same document as JSON text; a compile error in a legal program is a violation.",
        "Number literals are restricted to those whose JSON spelling is the literal itself; expression arms are represented by Value::from(7) and KA.clone(). rustc's macro expander is trusted.",
        "4/C19",
    ),
})

NOT_YET = {}

PUMPED = {"C01", "C02", "C03", "C05", "C07", "C04", "C08", "C13", "C09", "C10", "C11", "C16", "C17", "C18"}
PUMP = " Pumped linear families (refmodel::pump) complement the small-scope search: 13 one-parameter families (long strings of four kinds, a long key, long arrays, many distinct / duplicated keys, long integers and fractions, a nested long array) are executed for every size 0..136, every multiple of 16 +-1 up to 1 025 and 2^k-1, 2^k, 2^k+1 up to 65 537 (four more families put a control / quote / wide character after a run of every such length), and two two-parameter grids (key length 17..257 x 4..57 keys, without and with duplicates)."

# families added after the seed rounds on rarely used routes and on history (DESIGN 10.6, sixth round)
EXTRA = {
    "C01": " Edges of the hex-digit class and of every other character class (neighbour / case / look-alike substitution). Value::parse_in with each of the four root contexts. Re-entrancy: a nested parse started from the character source at every pull of the outer document. Deep documents around every plausible nesting limit (1e3 .. 1e6, closed / unclosed / one closer too many). Alignment sweep (the same bytes 0, 1, 4, 7 past a 16-byte boundary). A 14th entry point: characters announced with their UTF-16 lengths. History: every sequence of calls of length 2 over 65 documents x entry points and of length 3 (4 thorough) over a core alphabet is run on a fresh thread; every step must equal the same call made first on a fresh thread. The named option records (strict, default, flexible) are checked against their documentation.",
    "C02": " Strings and keys of 2^20..2^21 bytes followed by other strings. Values parsed on one fresh thread and queried on another. Every lookup iterator through the whole Iterator protocol (size_hint, count, last, fold, nth fresh and after 1-3 next(), skip, step_by). All 13 entry points on every node of at most 9 (11) bytes and on every structured family; history sequences as in C01.",
    "C03": " Non-fused sources (None once, then an error / more characters). Source failures after the deep first item of an outer container (endings 10-18). Flat documents in the 64 KiB stack: 17 kinds of repetition without nesting at n = 10^6. Pump entry 2: the parse is made from a destructor while the thread is unwinding from a panic. Sources with extreme size hints (6 hints x 60 documents) and endless sources; re-entrant sources. Pump endings 7-9: the closed deep value followed by an ill-formed byte, by whitespace and a truncated sequence, by a failing character source; depths 100 003, 131 073 and 1 000 003 in the quick tier. Every node is also fed from a source that answers an error after the node's last character (an Err must come back, nothing is pulled afterwards); history sequences as in C01.",
    "C05": " Strings and keys of 2^20..2^21 bytes followed by other strings. Code maps of documents accepted only under a lenient record (T-sur). Alignment sweep of parse_slice; a 14th entry point whose characters are announced with their UTF-16 lengths (positions translated back). All 13 entry points on every node of at most 9 (11) bytes and on every structured family; the seven routes to the code map's entries (iter, as_slice, Deref, AsRef, Borrow, both IntoIterator impls) must agree; history sequences as in C01.",
    "C07": " Edges of the hex-digit class and of every other character class. Every comparison also through a source that starts the document at offset 2^32 + 5. Long inputs with two defects (syntax error and ill-formed UTF-8 in both orders). Deep documents; UTF-16-length entry point; alignment sweep. Failing source: every node is also fed from a source that answers an error after the node's last character - an error strictly before it wins, otherwise Stream(bytes consumed) with the source's error value intact (the mechanism behind InvalidUtf8 in parse_slice); history sequences as in C01.",
    "C11": " Maps of maps with a planted mismatch after non-empty objects. Planted mismatches under duplicated keys (four key patterns). The code map obtained from characters announced with their UTF-16 lengths, translated back, must equal the UTF-8 one. sub_fragments() of every fragment forwards, backwards and alternately from both ends against the children computed from the code map; map conversions on non-objects (root, nested, through Box), unparsable map keys reported at the key fragment, TryFromJsonObject.",
    "C12": " Six fixed escapes (three highs, two lows, one ordinary) followed and preceded by every one of the 65 536 escapes. History sequences as in C01 (including the lenient record); named option records.",
    "C04": " Re-entrant destinations. Print history on a thread (working / failing / panicking destinations); deciding-character positions dense to 1 100. Printing at thread exit; eight threads printing at once (sampled). Failing destination: printing into a writer that accepts k bytes, for every k, then a normal print on the same thread. The option-less conversions (Display, to_string, String::from(value)) must round-trip as well.",
    "C13": " Re-entrant destinations. All 81 ordered pairs of limit kinds (array x object) around long scalars. Print history on a thread; indentation runs across 2^15 and 2^16. P2-all: every ordered pair of 101 neighbouring characters at several offsets under straddling width limits. Every numeric option field through the dense size list on four base records. Display under caller format parameters. Depth x indent family: nesting depths 1..40 and around 48/64/86/128 x 25 indent units, pretty and always-expanded. Other print routes: Print::fmt_with at base indentation levels 1 and 2 (the level-0 text with k more indent units after every line break), &Value, Meta<Value, M>, Stripped<Meta<...>>.",
    "C09": " Writes through every &mut Value accessor between canonicalizations. Deciding key pairs among 15..257 filler members. Every assignment of 6 value kinds to the members of every selection of up to 3 keys; decimal-point-shifted spellings. Operation sequences (canonicalize / sort / push / remove / clone / clone_from, up to 3-4 steps) before canonicalization. Medium-precision spellings: every structured double rounded to 14..18 significant digits, last digit -1/0/+1, exponent and positional notation, both signs. Prefixed-keys family: common prefixes of every length 0..17 and around 24/32/64 (1-, 2-, 3-, 4-byte characters) x every ordered pair of 14 deciding tails x 3 suffix patterns. Every value is canonicalized through Value::canonicalize, Value::canonicalize_with with a number buffer reused across all calls of the thread, and (objects) Object::canonicalize / canonicalize_with; the routes must agree.",
    "C10": " Zero-padded and signed exponents of every respelling. Writes through every &mut Value accessor between canonicalizations. Value kinds and shifted spellings as in C09. Operation sequences as in C09. All medium-precision spellings of one double must canonicalize identically. Prefixed-keys family as in C09, also with equal member values. Every document is read through parse_str and parse_slice; both must canonicalize identically.",
    "C15": " Objects reordered in place by canonicalize / sort against themselves and their originals. Permutation twins under a 2- or 3-fold duplicated key, all pairs. Every ordered pair of 32 confusable scalars in five shapes. Objects whose extend was interrupted by a panicking source. Objects built through grow-and-drain routes (peaks through the index thresholds, four removal patterns) against fresh permutations. Pumped objects also with every value wrapped in a two-member object whose members are swapped in every other entry; Meta<Value, M> and Vec<Value> carriers.",
    "C16": " Newtype, transparent and doubly wrapped map keys around every integer width, char and unit variants. Empty payloads (field-less / all-skipped struct variants, empty structs and tuples). Every leaf kind x 11 buffered (flatten / tagged / untagged) placements. Maps with number-like keys inside untagged / internally tagged / flattened types; hand-written impls with every length-hint pattern. Std containers and smart pointers (Box, Cow, arrays, 1-tuples, sets, deques, nested options, NonZero, Duration, Range, Result, paths, addresses) and a collect_str type as value and key.",
    "C06": " Guards dropped while the thread unwinds (disciplines unwind, one-unwind); thread-hopping replay of counterexamples. Start states drained to 0-1 entries and refilled with every 2..4-entry layout over two keys (duplicate layouts x an oversized table). Action canonicalize() and a run over two keys on which code-point and UTF-16 order differ; panicking value constructors. Actions extend_entries_then_panic / extend_pairs_then_panic (source panics after k items, panic caught, object reused); lookup iterators through the whole Iterator protocol in every audit. Hash mode 3 (hook): every key index gets its own seed, as in production; action clone_from(n) into an independently built object; audits are not memoised in that mode.",
    "C14": " Deep pairs (re-bracketing twins under up to 1 000 containers). A law universe over keys on which byte order and UTF-16 order differ. Leaked guards (mem::forget after k steps of remove / insert / insert_front) against an object rebuilt from the leaked object's own entries. Operators < <= > >=, min and max on bare Objects against cmp. clone_from law on every ordered pair of values. Construction routes with real spare capacity (fresh buffers), truncated long keys, clones. Wide-object laws: for every n through the size thresholds, a base object and every combination of two out of eight edits (37 objects): == structural, cmp antisymmetric, Equal iff equal, transitive on all triples, hashes.",
    "C19": " Side-effecting keys must be evaluated once each, in written order. A side-effecting key expression with a call counter checked by every program. 18 token shapes of expression keys x 2 keys x 5 placements. Boundary literals: the limits of every integer and float width (type-suffixed), one step inside each, and the decimal thresholds, in three contexts; every program is built under catch_unwind so that a panic is attributed to its program.",
    "C18": " Sticky spellings with > 1 000 integer digits and a negative exponent. Decimal point moved 1..25 places with the exponent adjusted for 12 extreme doubles. Sticky-digit spellings (midpoint of two doubles, zeros past the 1 100th fraction digit, a final 1). Objects shaped like serde_json's arbitrary-precision number encoding (7 payloads x 4 placements) from both sides.",
    "C20": " Operators the type may grow (!, -, ^) are probed at compile time: whatever they return must be a valid set. Iteration order checked against Kind's own Ord; KindSetIter through the whole (double-ended) Iterator protocol. Every rendering under eight caller format specs: the plain text, or the plain text formatted as a whole.",
    "C08": " Re-entrant destinations. Print history on a thread (working / failing / panicking destinations, then 7 compact and preset routes). Compact printing from a thread-local destructor at thread exit. Display under six caller format specs (width, fill, alignment, precision, alternate, zero): the compact text, or that text formatted as a whole (defect D15, fixed).",
    "C17": " Integral doubles at the edges of the integer types in float spellings (exact integer on return). Duplicate layouts of up to 5 members over three keys longer than 16 bytes. 13 reserved-looking keys x 12 payloads x 6 placements; every serde_json route into Value. deserialize_in_place (provided method) on every ordered pair of small values, bare and through Vec<Value>. Build-configuration dimension: a probe program compiled under every feature set containing serde must give identical digests of to_value / from_value::<Value>. Coherence: Object's own Serialize / Deserialize impls must agree with Value's on every object, duplicates included.",
}

props = [json.loads(l) for l in open(f"{root}/properties.jsonl")]
checks = []
na = []
for p in props:
    pid = p["id"]
    if pid in CHECKS:
        engine, level, technique, text, note, ref = CHECKS[pid]
        c = {
            "property_id": pid,
            "quick_cmd": f"./run {pid} quick",
            "thorough_cmd": f"./run {pid} thorough",
            "evidence_file": f"/verif/evidence/{pid}.json",
            "replay_cmd_template": f"./run {pid} --replay {{path}}",
            "engine": engine,
            "level_claimed": {"category": level, "text": text, "design_ref": f"DESIGN.md section {ref}"},
            "level_note": note,
            "technique": technique,
        }
        if pid in PUMPED:
            c["level_claimed"]["text"] += PUMP
        if pid in EXTRA:
            c["level_claimed"]["text"] += EXTRA[pid]
        checks.append(c)
    else:
        na.append({"property_id": pid, "reason": NOT_YET.get(pid, "check under construction in this session; not claimed until it runs clean (see DESIGN.md section 4 for the planned decision procedure)")})

hooks_commits = subprocess.run(
    ["git", "-C", "/repo", "log", "--format=%H", "--grep=^verif hooks"], capture_output=True, text=True
).stdout.split()

manifest = {
    "version": 1,
    "setup_cmd": "./setup.sh",
    "hooks": {
        "guard": "--cfg json_syntax_verif",
        "enable": "RUSTFLAGS carries `--cfg json_syntax_verif` through /verif/harness/.cargo/config.toml ([build] rustflags); the checks build /repo as a path dependency into /verif/.target",
        "baseline_off_cmd": "cd /repo && cargo test --workspace --no-fail-fast --offline",
        "source_commits": hooks_commits,
        "add_only": True,
    },
    "engines": [
        {"name": "E-TREE", "path": "harness/chk-parse", "serves_properties": ["C01", "C02", "C03", "C05", "C07", "C11", "C12"],
         "kind_free_text": "stateless depth-first exploration of the parser's execution tree: the driver owns the character iterator, every input over an alphabet up to a depth bound is executed on the real parser (all entry points, all option records) and compared with an independent pushdown-automaton reference; subtrees below non-viable prefixes are pruned with a post-mortem horizon"},
        {"name": "E-STATE", "path": "harness/chk-object, harness/chk-kind", "serves_properties": ["C06", "C14", "C20"],
         "kind_free_text": "explicit-state breadth-first search (stateright 0.31) whose states contain the real Object / KindSetIter next to a Vec reference model; runs to fixpoint under a size bound"},
        {"name": "E-ENUM", "path": "harness/chk-print, chk-canon, chk-serde, chk-object", "serves_properties": ["C04", "C08", "C09", "C10", "C13", "C15", "C16", "C17", "C18"],
         "kind_free_text": "bounded-exhaustive enumeration of construction histories of values (all values up to a node count over a leaf/key alphabet) crossed with option records within a deviation bound of the presets; every element executed, none sampled"},
        {"name": "E-PROG", "path": "harness/chk-macro", "serves_properties": ["C19"],
         "kind_free_text": "bounded-exhaustive enumeration of json! programs from a grammar with one production per macro arm, compiled by rustc against /repo and executed"},
    ],
    "checks": checks,
    "not_applicable": na,
    "notes": "Build-profile and thread-state dimensions: ./run first runs the quick tier of the check from a build with debug assertions enabled, every work item executed from a destructor while its thread unwinds from a (caught) panic, so that std::thread::panicking() is true (cargo profile verif-da; quick tier: C04 C05 C06 C08 C09 C10 C14 C15 C16 C17 C18 C20, thorough tier: every check), then the main pass from the release build. Every checker runs under a watchdog: a library call that does not return is reported as a violation. Every check is `./run <id> <tier>`; it rebuilds the check binary (and json-syntax with the hooks on) from /repo's working tree with cargo, offline, into /verif/.target. Known findings are listed in /verif/known_findings.json.",
}
json.dump(manifest, open(f"{root}/MANIFEST.json", "w"), indent=1)
print("claimed:", [c["property_id"] for c in checks])
print("not claimed:", [n["property_id"] for n in na])
