#!/usr/bin/env python3
"""Generates /verif/MANIFEST.json from the table below (single source of truth)."""
import json, os, subprocess

root = os.path.dirname(os.path.dirname(os.path.abspath(__file__)))

MC = "model_checking"
EX = "exploration"

# id -> (engine, level, technique, level text, level note, design ref)
CHECKS = {
    "C20": (
        "chk-kind", MC,
        "complete enumeration of the finite domain + explicit-state BFS (stateright) of the real KindSetIter against a VecDeque reference",
        "The domain is finite (64 sets, 6 kinds) and is enumerated completely: every set through three construction routes, every operand pair of every operator form, every rendering, and every reachable state of the real KindSetIter under {next, next_back} from all 64 initial sets (until two steps beyond exhaustion), compared in lock-step with a VecDeque reference. Nothing is left outside the bound.",
        "Trusts the reference renderer written from the rustdoc and that Kind has the six documented variants; stateright's BFS and fingerprinting.",
        "4/C20",
    ),
}

NOT_YET = {}

props = [json.loads(l) for l in open(f"{root}/properties.jsonl")]
checks = []
na = []
for p in props:
    pid = p["id"]
    if pid in CHECKS:
        engine, level, technique, text, note, ref = CHECKS[pid]
        c = {
            "property_id": pid,
            "quick_cmd": f"./run {pid} quick",
            "thorough_cmd": f"./run {pid} thorough",
            "evidence_file": f"/verif/evidence/{pid}.json",
            "replay_cmd_template": f"./run {pid} --replay {{path}}",
            "engine": engine,
            "level_claimed": {"category": level, "text": text, "design_ref": f"DESIGN.md section {ref}"},
            "level_note": note,
            "technique": technique,
        }
        checks.append(c)
    else:
        na.append({"property_id": pid, "reason": NOT_YET.get(pid, "check under construction in this session; not claimed until it runs clean (see DESIGN.md section 4 for the planned decision procedure)")})

hooks_commits = subprocess.run(
    ["git", "-C", "/repo", "log", "--format=%H", "--grep=^verif hooks"], capture_output=True, text=True
).stdout.split()

manifest = {
    "version": 1,
    "setup_cmd": "./setup.sh",
    "hooks": {
        "guard": "--cfg json_syntax_verif",
        "enable": "RUSTFLAGS carries `--cfg json_syntax_verif` through /verif/harness/.cargo/config.toml ([build] rustflags); the checks build /repo as a path dependency into /verif/.target",
        "baseline_off_cmd": "cd /repo && cargo test --workspace --no-fail-fast --offline",
        "source_commits": hooks_commits,
        "add_only": True,
    },
    "engines": [
        {"name": "E-TREE", "path": "harness/chk-parse", "serves_properties": ["C01", "C02", "C03", "C05", "C07", "C11", "C12"],
         "kind_free_text": "stateless depth-first exploration of the parser's execution tree: the driver owns the character iterator, every input over an alphabet up to a depth bound is executed on the real parser (all entry points, all option records) and compared with an independent pushdown-automaton reference; subtrees below non-viable prefixes are pruned with a post-mortem horizon"},
        {"name": "E-STATE", "path": "harness/chk-object, harness/chk-kind", "serves_properties": ["C06", "C14", "C20"],
         "kind_free_text": "explicit-state breadth-first search (stateright 0.31) whose states contain the real Object / KindSetIter next to a Vec reference model; runs to fixpoint under a size bound"},
        {"name": "E-ENUM", "path": "harness/chk-print, chk-canon, chk-serde, chk-object", "serves_properties": ["C04", "C08", "C09", "C10", "C13", "C15", "C16", "C17", "C18"],
         "kind_free_text": "bounded-exhaustive enumeration of construction histories of values (all values up to a node count over a leaf/key alphabet) crossed with option records within a deviation bound of the presets; every element executed, none sampled"},
        {"name": "E-PROG", "path": "harness/chk-macro", "serves_properties": ["C19"],
         "kind_free_text": "bounded-exhaustive enumeration of json! programs from a grammar with one production per macro arm, compiled by rustc against /repo and executed"},
    ],
    "checks": checks,
    "not_applicable": na,
    "notes": "Every check is `./run <id> <tier>`; it rebuilds the check binary (and json-syntax with the hooks on) from /repo's working tree with cargo, offline, into /verif/.target. Known findings are listed in /verif/known_findings.json.",
}
json.dump(manifest, open(f"{root}/MANIFEST.json", "w"), indent=1)
print("claimed:", [c["property_id"] for c in checks])
print("not claimed:", [n["property_id"] for n in na])
