#!/usr/bin/env python3
"""Generates /verif/MANIFEST.json from the table below (single source of truth)."""
import json, os, subprocess

root = os.path.dirname(os.path.dirname(os.path.abspath(__file__)))

MC = "model_checking"
EX = "exploration"

# id -> (engine, level, technique, level text, level note, design ref)
CHECKS = {
    "C20": (
        "chk-kind", MC,
        "complete enumeration of the finite domain + explicit-state BFS (stateright) of the real KindSetIter against a VecDeque reference",
        "The domain is finite (64 sets, 6 kinds) and is enumerated completely: every set through three construction routes, every operand pair of every operator form, every rendering, and every reachable state of the real KindSetIter under {next, next_back} from all 64 initial sets (until two steps beyond exhaustion), compared in lock-step with a VecDeque reference. Nothing is left outside the bound.",
        "Trusts the reference renderer written from the rustdoc and that Kind has the six documented variants; stateright's BFS and fingerprinting.",
        "4/C20",
    ),
}

CHECKS.update({
    "C06": (
        "chk-object", MC,
        "explicit-state BFS to fixpoint (stateright) with the real Object inside the state, lock-step with a Vec reference model, under three harness-chosen hash functions",
        "Every operation history over a small key universe that stays within the length bound is covered (the search runs to fixpoint, so history length is unbounded): each transition executes the real operation and the ordered-list model, compares the operation's result, then compares all key queries for every key of the universe and an absent key with linear scans and checks the index invariant through hook H1. Pumped non-initial states (24-48 distinct keys, rehash cycles, tombstones) are explored to a depth bound. The index's hash function is owned by the harness (real ahash with fixed seeds, constant, two-class), so collisions are forced rather than left to a random seed.",
        "Trusts hashbrown's RawTable, the reference model R-obj (DESIGN A.4, the documented semantics incl. remove_unique removing all duplicates on error), stateright. Key universe <= 4 keys and length <= 6 in the fixpoint runs.",
        "4/C06",
    ),
    "C14": (
        "chk-object", MC,
        "explicit-state BFS over operation histories (shared with C06) comparing every reachable object with canonically rebuilt ones + exhaustive pairs/triples of a closed value universe",
        "In every reachable state of the C06 search (three hash modes, so different index internals) the history-built object is compared by ==, cmp, partial_cmp and hash with from_vec / from_iter / clone builds of the same entry list; with transitivity this covers all pairs of histories with equal entry lists. The order laws are checked on all ordered pairs and all triples of every value up to a node bound.",
        "Law universe: all values of <= 2 (quick) / <= 3 (thorough) nodes over 7 leaves and 2 keys. Hash equality is probed with std's fixed-key SipHash.",
        "4/C14",
    ),
    "C15": (
        "chk-object", EX,
        "bounded-exhaustive enumeration of all ordered pairs of all values up to a node bound, against recursively sorted normal forms",
        "All ordered pairs of all values with <= 4 (quick, 1 536 values) / <= 5 (thorough, 20 644 values) nodes over leaves {0,1} and keys {a,b}: every multiplicity pattern of duplicate keys with up to 3 (4) entries, nesting, arrays. unordered_eq, the Unordered wrapper and as_unordered are compared with equality of sorted normal forms; reflexivity, symmetry, transitivity (all triples of the <= 3-node universe) and implication by == are checked.",
        "Trusts the normal-form reference (multiset of entries). Values beyond the node bound and other leaf kinds are outside.",
        "4/C15",
    ),
})

NOT_YET = {}

props = [json.loads(l) for l in open(f"{root}/properties.jsonl")]
checks = []
na = []
for p in props:
    pid = p["id"]
    if pid in CHECKS:
        engine, level, technique, text, note, ref = CHECKS[pid]
        c = {
            "property_id": pid,
            "quick_cmd": f"./run {pid} quick",
            "thorough_cmd": f"./run {pid} thorough",
            "evidence_file": f"/verif/evidence/{pid}.json",
            "replay_cmd_template": f"./run {pid} --replay {{path}}",
            "engine": engine,
            "level_claimed": {"category": level, "text": text, "design_ref": f"DESIGN.md section {ref}"},
            "level_note": note,
            "technique": technique,
        }
        checks.append(c)
    else:
        na.append({"property_id": pid, "reason": NOT_YET.get(pid, "check under construction in this session; not claimed until it runs clean (see DESIGN.md section 4 for the planned decision procedure)")})

hooks_commits = subprocess.run(
    ["git", "-C", "/repo", "log", "--format=%H", "--grep=^verif hooks"], capture_output=True, text=True
).stdout.split()

manifest = {
    "version": 1,
    "setup_cmd": "./setup.sh",
    "hooks": {
        "guard": "--cfg json_syntax_verif",
        "enable": "RUSTFLAGS carries `--cfg json_syntax_verif` through /verif/harness/.cargo/config.toml ([build] rustflags); the checks build /repo as a path dependency into /verif/.target",
        "baseline_off_cmd": "cd /repo && cargo test --workspace --no-fail-fast --offline",
        "source_commits": hooks_commits,
        "add_only": True,
    },
    "engines": [
        {"name": "E-TREE", "path": "harness/chk-parse", "serves_properties": ["C01", "C02", "C03", "C05", "C07", "C11", "C12"],
         "kind_free_text": "stateless depth-first exploration of the parser's execution tree: the driver owns the character iterator, every input over an alphabet up to a depth bound is executed on the real parser (all entry points, all option records) and compared with an independent pushdown-automaton reference; subtrees below non-viable prefixes are pruned with a post-mortem horizon"},
        {"name": "E-STATE", "path": "harness/chk-object, harness/chk-kind", "serves_properties": ["C06", "C14", "C20"],
         "kind_free_text": "explicit-state breadth-first search (stateright 0.31) whose states contain the real Object / KindSetIter next to a Vec reference model; runs to fixpoint under a size bound"},
        {"name": "E-ENUM", "path": "harness/chk-print, chk-canon, chk-serde, chk-object", "serves_properties": ["C04", "C08", "C09", "C10", "C13", "C15", "C16", "C17", "C18"],
         "kind_free_text": "bounded-exhaustive enumeration of construction histories of values (all values up to a node count over a leaf/key alphabet) crossed with option records within a deviation bound of the presets; every element executed, none sampled"},
        {"name": "E-PROG", "path": "harness/chk-macro", "serves_properties": ["C19"],
         "kind_free_text": "bounded-exhaustive enumeration of json! programs from a grammar with one production per macro arm, compiled by rustc against /repo and executed"},
    ],
    "checks": checks,
    "not_applicable": na,
    "notes": "Every check is `./run <id> <tier>`; it rebuilds the check binary (and json-syntax with the hooks on) from /repo's working tree with cargo, offline, into /verif/.target. Known findings are listed in /verif/known_findings.json.",
}
json.dump(manifest, open(f"{root}/MANIFEST.json", "w"), indent=1)
print("claimed:", [c["property_id"] for c in checks])
print("not claimed:", [n["property_id"] for n in na])
