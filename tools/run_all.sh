#!/bin/bash
# tools/run_all.sh <quick|thorough> [ids...] : run the checks in sequence, one summary line each.
tier="${1:-quick}"; shift
ids=("$@"); [ ${#ids[@]} -eq 0 ] && ids=(C01 C02 C03 C04 C05 C06 C07 C08 C09 C10 C11 C12 C13 C14 C15 C16 C17 C18 C19 C20)
cd "$(dirname "$0")/.."
rc=0
for p in "${ids[@]}"; do
  s=$(date +%s.%N)
  out=$(./run "$p" "$tier" 2>&1); code=$?
  e=$(date +%s.%N)
  printf "%s %s exit=%d %.1fs %s\n" "$p" "$tier" "$code" "$(echo "$e - $s" | bc)" "$(echo "$out" | grep -E "^\[$p\]" | sed 's/.*: evals/evals/' | head -1)"
  echo "$out" | grep -E "^(VIOLATION|KNOWN-FINDING|MACHINERY)" | cut -c1-200
  [ $code -ne 0 ] && rc=1
done
exit $rc
