#!/bin/bash
# tools/try_seed.sh <seed-dir> <property> [check-property ...]
#
# Confirms a seeded defect produced by a sub-agent and runs the checks against it.
#   <seed-dir>   directory with patch.diff and demo.rs (e.g. /tmp/seed/C06/out or seeded/C06-a)
#   <property>   the property the change is meant to break
#   [check ...]  properties whose quick checks are run against the change (default: <property>)
#
# 1. in a scratch worktree (never in /repo): the patch applies, the unmodified test-suite still
#    passes with it, the demonstration fails with it and passes without it;
# 2. the patch is applied to /repo's working tree, the named quick checks are run, and the patch
#    is removed again (git checkout) whatever happens.
# Prints one line per step; exit 0 iff the change was confirmed (detection is reported, not required).
set -u
SEED="$(cd "$1" && pwd)"; PROP="$2"; shift 2
CHECKS=("$@"); [ ${#CHECKS[@]} -eq 0 ] && CHECKS=("$PROP")
FEATURES="${SEED_FEATURES:---all-features}"
WT=/tmp/seedcheck-$$
trap 'git -C /repo checkout -q -- . 2>/dev/null; git -C /repo worktree remove --force "$WT" 2>/dev/null; rm -rf "$WT"' EXIT
export CARGO_NET_OFFLINE=true
git -C /repo worktree add -q --detach "$WT" HEAD || exit 2
cp /repo/Cargo.lock "$WT"/
export CARGO_TARGET_DIR=/tmp/seedcheck-target
cd "$WT"
if ! git apply --check "$SEED/patch.diff" 2>/dev/null; then echo "CONFIRM patch does not apply: NO"; exit 1; fi
# demonstration on the unchanged code
cp "$SEED/demo.rs" tests/seed_demo.rs
if cargo test --offline $FEATURES --test seed_demo >/tmp/seedcheck-$$.log 2>&1; then echo "CONFIRM demo passes without the change: yes"; else echo "CONFIRM demo passes without the change: NO"; tail -15 /tmp/seedcheck-$$.log; exit 1; fi
git apply "$SEED/patch.diff"
if cargo test --offline $FEATURES --test seed_demo >/tmp/seedcheck-$$.log 2>&1; then echo "CONFIRM demo fails with the change: NO (it passes)"; exit 1; else echo "CONFIRM demo fails with the change: yes"; fi
rm tests/seed_demo.rs
if cargo test --workspace --no-fail-fast --offline >/tmp/seedcheck-$$.log 2>&1; then
  n=$(grep -E "^test result: ok" /tmp/seedcheck-$$.log | awk '{s+=$4} END {print s}')
  echo "CONFIRM existing suite passes with the change: yes ($n tests incl. doc-tests)"
else echo "CONFIRM existing suite passes with the change: NO"; grep -E "FAILED|failed|^error" /tmp/seedcheck-$$.log | head; exit 1; fi
if cargo test --offline --all-features >/tmp/seedcheck-$$.log 2>&1; then echo "CONFIRM all-features suite passes with the change: yes"; else echo "CONFIRM all-features suite passes with the change: NO"; grep -E "FAILED|failed|^error" /tmp/seedcheck-$$.log | head; exit 1; fi
rm -f /tmp/seedcheck-$$.log
# run the checks against /repo with the patch applied
cd /verif
if [ -n "$(git -C /repo status --porcelain)" ]; then echo "/repo working tree is not clean; refusing"; exit 2; fi
git -C /repo apply "$SEED/patch.diff" || exit 2
for c in "${CHECKS[@]}"; do
  out=$(./run "$c" quick 2>&1); code=$?
  first=$(echo "$out" | grep -m1 -E "violation\[0\]" | cut -c1-260)
  echo "CHECK $c quick: exit=$code $(echo "$out" | grep -c '^VIOLATION') violation line(s) $first"
done
git -C /repo checkout -q -- .
exit 0
