#!/usr/bin/env python3
"""Validate MANIFEST.json and every evidence file against the schemas in /root/.vp."""
import json, sys, glob, os
try:
    import jsonschema
except ImportError:
    sys.path.insert(0, glob.glob('/opt/veriftools/pyvenv/lib/python3*/site-packages')[0])
    import jsonschema
root = os.path.dirname(os.path.dirname(os.path.abspath(__file__)))
ok = True
m = json.load(open(f'{root}/MANIFEST.json'))
jsonschema.validate(m, json.load(open('/root/.vp/MANIFEST.schema.json')))
props = [json.loads(l)['id'] for l in open(f'{root}/properties.jsonl')]
claimed = [c['property_id'] for c in m['checks']]
na = [c['property_id'] for c in m.get('not_applicable', [])]
for p in props:
    if (p in claimed) == (p in na):
        print('property', p, 'must be exactly one of claimed / not_applicable'); ok = False
es = json.load(open('/root/.vp/EVIDENCE.schema.json'))
for c in m['checks']:
    f = c['evidence_file']
    if not os.path.exists(f):
        print('missing evidence', f); ok = False; continue
    e = json.load(open(f))
    try:
        jsonschema.validate(e, es)
    except jsonschema.ValidationError as ex:
        print('INVALID', f, ex.message); ok = False
    if e['level'] != c['level_claimed']['category']:
        print('level mismatch', f); ok = False
print('valid' if ok else 'PROBLEMS')
sys.exit(0 if ok else 1)
