#!/usr/bin/env python3
"""tools/mutants.py [--list] [--stride K] [--offset N] [--only REGEX]   (audit aid, not a check)

Mechanical mutation of /repo/src (one small operator-level change at a time: comparison and
boolean operators, +-1, integer literals, true/false, is_some/is_none, one call statement
removed), complementing the seeded changes written by sub-agents: for every mutant that still
compiles, the quick checks of the properties anchored in the mutated file are run (without the
debug-assertions pass) until one reports a violation. Mutants no check notices are listed in
coverage/mutants_survivors.txt for triage (equivalent mutant / outside every property / a gap).

The library under test is $VP_RUN_REPO when set (background snapshot), else /repo, whose working
tree must be clean; it is restored after every mutant."""
import os, re, subprocess, sys, json, time

REPO = os.environ.get("VP_RUN_REPO", "/repo")
ROOT = os.path.dirname(os.path.dirname(os.path.abspath(__file__)))

CHECKS = [
    (r"^src/parse/", ["C01", "C02", "C07", "C05", "C12", "C03"]),
    (r"^src/print/", ["C08", "C04", "C13"]),
    (r"^src/object/", ["C06", "C11", "C14", "C15", "C09", "C02"]),
    (r"^src/code_map", ["C05", "C11"]),
    (r"^src/try_from", ["C11"]),
    (r"^src/kind", ["C20", "C11"]),
    (r"^src/macros", ["C19"]),
    (r"^src/serde/", ["C16", "C17"]),
    (r"^src/convert/", ["C18"]),
    (r"^src/unordered", ["C15"]),
    (r"^src/lib.rs", ["C08", "C20", "C11", "C14", "C09", "C10", "C02", "C15"]),
    (r"^src/array", ["C11", "C14"]),
    (r"", ["C01", "C04", "C06"]),
]

OPS = [
    (r" <= ", " < "), (r" >= ", " > "), (r" < ", " <= "), (r" > ", " >= "),
    (r" == ", " != "), (r" != ", " == "), (r" && ", " || "), (r" \|\| ", " && "),
    (r" \+ 1\b", " + 2"), (r" - 1\b", " - 0"), (r" \+ 1\b", ""), (r" \+= 1\b", " += 2"), (r" -= 1\b", " -= 2"),
    (r"\btrue\b", "false"), (r"\bfalse\b", "true"),
    (r"\.is_some\(\)", ".is_none()"), (r"\.is_none\(\)", ".is_some()"),
    (r"\.is_empty\(\)", ".is_empty() == false"),
    (r"\b0x([0-9a-fA-F]+)\b", None),  # hex literal + 1
    (r"(?<![\w.])(\d+)(?![\w.])", None),  # decimal literal + 1
]


def sites():
    out = []
    for dirpath, _, files in os.walk(os.path.join(REPO, "src")):
        for f in sorted(files):
            if not f.endswith(".rs"):
                continue
            path = os.path.join(dirpath, f)
            rel = os.path.relpath(path, REPO)
            lines = open(path).read().split("\n")
            in_tests = False
            for i, line in enumerate(lines):
                st = line.strip()
                if re.match(r"(pub )?mod tests?\b", st) or st.startswith("#[cfg(test)]"):
                    in_tests = True
                if in_tests:
                    continue
                if not st or st.startswith(("//", "#[", "#![", "use ", "pub use ", "///", "//!", "*", "/*")):
                    continue
                if "json_syntax_verif" in line:
                    continue
                code = line.split("//")[0]
                # string literals are left alone (messages are not behaviour any property sees)
                masked = re.sub(r'"(\\.|[^"\\])*"', lambda m: '"' + "_" * (len(m.group(0)) - 2) + '"', code)
                for k, (pat, rep) in enumerate(OPS):
                    for m in re.finditer(pat, masked):
                        a, b = m.span()
                        if rep is None:
                            tok = m.group(1)
                            try:
                                new = ("0x%x" % (int(tok, 16) + 1)) if pat.startswith(r"\b0x") else str(int(tok) + 1)
                            except ValueError:
                                continue
                            if pat.startswith(r"\b0x"):
                                new_line = line[:a] + new + line[b:]
                            else:
                                new_line = line[: m.start(1)] + new + line[m.end(1) :]
                        else:
                            new_line = line[:a] + rep.replace("\\", "") + line[b:]
                        out.append((rel, i, line, new_line, f"op{k}"))
                # a call statement removed
                if re.match(r"^\s+(self\.|[a-z_]+\.)[\w\.]*\w\(.*\);\s*$", code) and "let " not in code and "return" not in code:
                    out.append((rel, i, line, re.sub(r"\S.*$", "();", line, count=1), "drop-call"))
    return out


def checks_for(rel):
    for pat, cs in CHECKS:
        if re.search(pat, rel):
            return cs
    return []


def sh(cmd, cwd=None, env=None, timeout=1800):
    e = dict(os.environ)
    e.update(env or {})
    try:
        p = subprocess.run(cmd, shell=True, cwd=cwd, env=e, stdout=subprocess.PIPE, stderr=subprocess.STDOUT, timeout=timeout)
        return p.returncode, p.stdout.decode(errors="replace")
    except subprocess.TimeoutExpired:
        return 124, "timeout"


def main():
    args = sys.argv[1:]
    stride = 1
    only = None
    if "--stride" in args:
        stride = int(args[args.index("--stride") + 1])
    if "--only" in args:
        only = re.compile(args[args.index("--only") + 1])
    all_sites = sites()
    if only:
        all_sites = [s for s in all_sites if only.search(s[0])]
    offset = int(args[args.index("--offset") + 1]) if "--offset" in args else 0
    chosen = all_sites[offset::stride]
    if "--list" in args:
        import collections
        c = collections.Counter(s[0] for s in all_sites)
        for k, v in sorted(c.items()):
            print(f"{v:5d} {k}")
        print(f"{len(all_sites)} sites, {len(chosen)} chosen with stride {stride}")
        return
    if sh("git status --porcelain", cwd=REPO)[1].strip():
        print(f"{REPO} working tree is not clean")
        sys.exit(2)
    os.makedirs(os.path.join(ROOT, "coverage"), exist_ok=True)
    log = open(os.path.join(ROOT, "coverage", "mutants_log.txt"), "w")
    surv = open(os.path.join(ROOT, "coverage", "mutants_survivors.txt"), "w")
    stats = {"mutants": 0, "do_not_compile": 0, "detected": 0, "survived": 0}
    t0 = time.time()
    env = {"CARGO_NET_OFFLINE": "true", "CARGO_TARGET_DIR": os.environ.get("MUTANTS_TARGET", "/tmp/mutants-target"), "VERIF_NO_DA_PASS": "1", "VERIF_SECONDARY": "mutants"}
    for n, (rel, i, old, new, op) in enumerate(chosen):
        path = os.path.join(REPO, rel)
        lines = open(path).read().split("\n")
        assert lines[i] == old
        lines[i] = new
        open(path, "w").write("\n".join(lines))
        try:
            stats["mutants"] += 1
            code, out = sh("cargo check --offline --all-features --lib -q", cwd=REPO, env=env, timeout=600)
            if code != 0:
                stats["do_not_compile"] += 1
                log.write(f"{rel}:{i+1} {op} does-not-compile\n")
                continue
            hit = None
            for c in checks_for(rel):
                code, out = sh(f"./run {c} quick", cwd=ROOT, env={"VERIF_NO_DA_PASS": "1", "VERIF_SECONDARY": "mutants", "VERIF_WALL_CAP": "240"}, timeout=600)
                if code == 1:
                    hit = c
                    break
                if code not in (0, 1):
                    # a check that cannot run (e.g. the harness no longer compiles, or dies) has noticed too
                    hit = f"{c}(exit {code})"
                    break
            if hit:
                stats["detected"] += 1
                log.write(f"{rel}:{i+1} {op} detected-by {hit}\n")
            else:
                stats["survived"] += 1
                log.write(f"{rel}:{i+1} {op} SURVIVED\n")
                surv.write(f"{rel}:{i+1} {op}\n  - {old.strip()}\n  + {new.strip()}\n")
                surv.flush()
                print(f"SURVIVED {rel}:{i+1} {op}\n  - {old.strip()}\n  + {new.strip()}", flush=True)
        finally:
            sh("git checkout -q -- .", cwd=REPO)
            log.flush()
        if n % 10 == 9:
            print(f"[{n+1}/{len(chosen)}] {stats} {time.time()-t0:.0f}s", flush=True)
    print(json.dumps(stats))
    surv.write(f"# {json.dumps(stats)}\n")


if __name__ == "__main__":
    main()
