#!/bin/bash
# tools/try_all_seeds.sh : applies every archived seeded change to /repo in turn, runs the quick
# check of the property it breaks, reverts, and prints one line per seed (regression of detection).
# /repo's working tree must be clean. Takes 15-25 minutes.
cd "$(dirname "$0")/.."
# in a background snapshot (vp run --with-repo) the library under test is the snapshot of /repo
REPO="${VP_RUN_REPO:-/repo}"
[ -n "$(git -C "$REPO" status --porcelain)" ] && { echo "$REPO working tree is not clean"; exit 2; }
trap 'git -C "$REPO" checkout -q -- .' EXIT
missed=0
# optional argument: a regular expression selecting seed ids (e.g. '-[jkl]$')
for d in "$PWD"/seeded/*/; do
  id=$(basename "$d"); [ -n "${1:-}" ] && ! [[ "$id" =~ $1 ]] && continue; prop=$(python3 -c "import json;print(json.load(open('$d/meta.json'))['breaks_property'])")
  if python3 -c "import json,sys;sys.exit(0 if json.load(open('$d/meta.json')).get('outside_the_property') else 1)"; then echo "$id $prop kept for the record, outside the property as stated (see meta.json)"; continue; fi
  if ! git -C "$REPO" apply --check "$d/patch.diff" 2>/dev/null; then echo "$id $prop patch no longer applies (the code it changes has moved)"; continue; fi
  git -C "$REPO" apply "$d/patch.diff"
  # the checks recorded as detecting this seed (usually the property it breaks)
  checks=$(python3 -c "import json;print(' '.join(json.load(open('$d/meta.json')).get('detected_by_quick_checks') or ['$prop']))")
  hit=0
  for c in $checks; do
    out=$(./run "$c" quick 2>&1); code=$?
    n=$(echo "$out" | grep -c '^VIOLATION')
    first=$(echo "$out" | grep -m1 -E "violation\[0\]" | cut -c1-160)
    echo "$id $prop check=$c exit=$code violation_lines=$n $first"
    [ $code -eq 1 ] && { hit=1; break; }
  done
  git -C "$REPO" checkout -q -- .
  [ $hit -ne 1 ] && { missed=$((missed+1)); echo "$id NOT DETECTED"; }
done
echo "not detected: $missed"
# evidence files were rewritten from mutated trees: regenerate them
tools/run_all.sh quick >/dev/null 2>&1
exit 0
