#!/bin/bash
# tools/coverage.sh [tier]   (audit aid, not a check)
# Builds the check binaries with source-based coverage instrumentation (nightly toolchain, whose
# llvm-tools are installed), runs every check once and reports which lines of /repo/src none of
# the checks ever executed. Used to find entry points and branches missing from the alphabets
# (DESIGN 10.6, lesson 8). Everything lives under /tmp/cov and is removed at the end except
# the report, which is written to /verif/coverage/.
set -u
TIER="${1:-quick}"
W=/tmp/cov
rm -rf $W; mkdir -p $W/root/evidence $W/root/replays $W/prof
cp /verif/known_findings.json $W/root/
BIN=$(dirname $(find ~/.rustup/toolchains/nightly-x86_64-unknown-linux-gnu -name llvm-cov | head -1))
export CARGO_NET_OFFLINE=true CARGO_TARGET_DIR=$W/target
export RUSTFLAGS="--cfg json_syntax_verif -Aunexpected_cfgs -Amismatched_lifetime_syntaxes -Awarnings -C instrument-coverage"
(cd /verif/harness && LLVM_PROFILE_FILE=$W/prof/build-%p-%m.profraw cargo +nightly build --release --offline -p chk-parse -p chk-object -p chk-print -p chk-canon -p chk-serde -p chk-kind 2>&1 | tail -3) || exit 2
export VERIF_ROOT=$W/root VERIF_TARGET=$W/target VERIF_REPO=/repo VERIF_BUDGET_SCALE=${VERIF_BUDGET_SCALE:-0.5}
run() { LLVM_PROFILE_FILE="$W/prof/$1-%p-%m.profraw" timeout 1500 $W/target/release/$2 $1 $TIER >/dev/null 2>&1; echo "$1 exit=$?"; }
for p in ${ONLY_PARSE:-C01 C02 C03 C05 C07 C11 C12}; do run $p chk-parse; done
for p in C06 C14 C15; do run $p chk-object; done
for p in C04 C08 C13; do run $p chk-print; done
for p in C09 C10; do run $p chk-canon; done
for p in C16 C17 C18; do run $p chk-serde; done
run C20 chk-kind
mkdir -p /verif/coverage
: > $W/lines.txt
for b in chk-parse chk-object chk-print chk-canon chk-serde chk-kind; do
  case $b in chk-parse) ids="C01 C02 C03 C05 C07 C11 C12";; chk-object) ids="C06 C14 C15";; chk-print) ids="C04 C08 C13";; chk-canon) ids="C09 C10";; chk-serde) ids="C16 C17 C18";; chk-kind) ids="C20";; esac
  files=""; for i in $ids; do files="$files $(ls $W/prof/$i-*.profraw 2>/dev/null)"; done
  $BIN/llvm-profdata merge -sparse $files -o $W/$b.profdata || exit 2
  $BIN/llvm-cov show $W/target/release/$b -instr-profile=$W/$b.profdata /repo/src 2>/dev/null \
    | awk '/^\/repo\/src/ {file=$0; sub(/:$/,"",file)} /^ +[0-9]+\| +[0-9.kMG]+\|/ {split($0,a,"|"); gsub(/ /,"",a[1]); gsub(/ /,"",a[2]); print file ":" a[1] " " (a[2]=="0"?0:1) " " $0}' >> $W/lines.txt
done
# a line is uncovered if some binary instruments it and no binary ever executed it
python3 - $W/lines.txt > /verif/coverage/uncovered_lines.txt <<'PY'
import sys, collections
cov = collections.defaultdict(int); text = {}
for l in open(sys.argv[1], errors="replace"):
    key, hit, rest = l.rstrip("\n").split(" ", 2)
    cov[key] |= int(hit); text[key] = rest.split("|", 2)[-1]
def k(x):
    f, n = x.rsplit(":", 1); return (f, int(n))
tot = len(cov); un = [x for x in cov if not cov[x]]
print(f"# {len(un)} of {tot} instrumented lines of /repo/src are executed by no check ({100 - 100 * len(un) // max(tot, 1)}% executed)")
for x in sorted(un, key=k):
    print(f"{x}\t{text[x]}")
PY
head -1 /verif/coverage/uncovered_lines.txt
wc -l /verif/coverage/uncovered_lines.txt
[ -n "${KEEP:-}" ] || rm -rf $W
