#!/usr/bin/env python3
"""Prints the prompt given to a fresh sub-agent that seeds a property-breaking change (nothing from /verif but the property text)."""
import json, sys
pid = sys.argv[1]
variant = sys.argv[2] if len(sys.argv) > 2 else ""
props = {json.loads(l)['id']: json.loads(l) for l in open('/verif/properties.jsonl')}
p = props[pid]
d = f"/tmp/seed/{pid}{variant}"
print(f"""You are working on a Rust library, json-syntax: a strict RFC 8259 JSON parser, printer and value model (code-map spans, duplicate-preserving objects, RFC 8785 canonicalization behind the `canonicalize` feature, serde support behind the `serde` / `serde_json` features). A git worktree of the repository is at {d}/wt. Work ONLY under {d} (the worktree and {d}/out). Do NOT read, list or touch /verif or /repo, and do not look for any verification tooling: your work must be independent of it. There is no network: always pass --offline to cargo.

This is a robustness exercise for a verification harness: I need a realistic *seeded defect*.

Property that your change must break:
  Title: {p['title']}
  Statement: {p['statement']}
  Scope: {p['quantifier']['text']}

Task: make ONE small, realistic source change under src/ (the kind of mistake a maintainer could plausibly make: an off-by-one, a wrong variable, a missing call on one path, a swapped branch, an over-eager optimisation, a stale cache, two cooperating sites that each look fine alone...) that BREAKS the property above, while
  (1) everything still compiles: `cargo build --offline --all-features`, and
  (2) the complete existing test-suite, unmodified, still passes: `cargo test --workspace --no-fail-fast --offline` (372 tests plus doc-tests) AND `cargo test --offline --all-features`.
The break must need something specific to manifest - a particular multi-step sequence of operations, an unusual input, a particular option combination, a boundary value - not something that ordinary use would expose at once. Prefer subtle over blatant; do not just make a whole feature fail. {variant and 'Choose a DIFFERENT mechanism / code location than the most obvious one for this property.' or ''}

Deliver in {d}/out/:
  - patch.diff : `git diff` of your change (only files under src/), which applies cleanly with `git apply` to a clean checkout of the worktree's HEAD;
  - demo.rs : a standalone integration test file (it will be copied to tests/seed_demo.rs) containing #[test] function(s) that FAIL with your change applied and PASS on the unchanged code. Verify both yourself (run it with and without the change; use `--all-features` or `--features ...` if the demo needs a feature and say so);
  - notes.md : what you changed, why the existing tests do not notice, exactly what is needed to trigger it, and the exact cargo command to run the demo.
Do not modify or delete existing tests. Do not commit anything. When finished, leave the worktree with your change applied and reply with a short summary (what the change is, what triggers it, how you verified).""")
