#!/usr/bin/env python3
"""Prints the prompt given to a fresh sub-agent that seeds a property-breaking change (nothing from /verif but the property text)."""
import json, sys
pid = sys.argv[1]
variant = sys.argv[2] if len(sys.argv) > 2 else ""
theme = sys.argv[3] if len(sys.argv) > 3 else ""
THEMES = {
    "": "",
    "threshold": " ADDITIONAL CONSTRAINT: the defect must NOT be observable on small inputs (strings of at most 16 bytes, containers of at most 6 elements, nesting depth at most 4, numbers of at most 8 characters): it must only manifest beyond some internal size threshold (inline-to-heap spill, hash-table growth, long arrays, wide documents, narrow counters, block-wise processing).",
    "path": " ADDITIONAL CONSTRAINT: the defect must NOT be on the main, most-travelled code path. Put it in a rarely-used entry point, constructor, conversion, trait implementation or branch through which the property is still observable (for example an alternative way of building or obtaining the same value, a conversion impl, a borrowed-vs-owned variant, an iterator adaptor or its reverse / size_hint / nth side, a mutable accessor, an uncommon serde data-model method, an alternate formatting flag, an uncommon but legal input form) so that a harness exercising only the obvious functions would not see it.",
    "errorpath": " ADDITIONAL CONSTRAINT: the defect must manifest only on a FAILURE PATH: when an operation fails, is rejected, finds nothing, or returns an error / None / a duplicate report - the error's content or position is wrong, or the state left behind after the failure is wrong, or a later call after a failure misbehaves. Successful operations on valid data must behave exactly as before.",
    "combo": " ADDITIONAL CONSTRAINT: the defect must need a COMBINATION of two independent conditions, each of which alone is harmless (two option fields set together, an option together with a feature of the input, two features of the input in the same document or value, two different operations applied to the same object): with either condition alone everything must behave exactly as before.",
    "boundary": " ADDITIONAL CONSTRAINT: the defect must manifest only AT A BOUNDARY VALUE and be correct one step on either side of it: a Unicode boundary (U+007F/U+0080, U+07FF/U+0800, U+D7FF/U+E000, U+FFFF/U+10000, U+10FFFF), an integer limit (i64/u64/i32/u16/u8 minimum or maximum, 2^53), a decimal threshold (1e21, 1e-7, a tie between two doubles, the largest/smallest finite or subnormal double) or a counter limit (255/256, 65535/65536).",
    "adversarial": " ADDITIONAL CONSTRAINT: assume the verification harness is strong: it executes the library exhaustively on all small inputs (all strings of up to about 6 characters over a rich alphabet, all values of up to about 5 nodes, all operation sequences of up to about 4 steps over 2-3 keys), on one-parameter families grown through every power-of-two size up to 65 537, on every boundary value of the numeric and Unicode types, through every public entry point, and compares with an independent reference. Design your defect so that such a harness would most likely still MISS it (for instance: it needs two size or value parameters to be large or special at the same time, a rare relation between two parts of the input, three or more cooperating features, a specific non-boundary magic value that comes from the code rather than from the data types, or a long specific history), while it stays a realistic maintainer mistake and your demo still shows it deterministically.",
    "history": " ADDITIONAL CONSTRAINT: the defect must be HISTORY-DEPENDENT: it must not be observable by a single call on fresh data in a fresh process. It needs earlier calls or operations in the same thread, or on the same object, to have happened first (state left behind by an earlier call or an earlier error, a reused buffer or cache, a clone sharing structure, an iterator that was advanced from the other end first, an operation that is wrong only when it follows a particular other operation, and so on).",
}
extra = THEMES[theme]
props = {json.loads(l)['id']: json.loads(l) for l in open('/verif/properties.jsonl')}
p = props[pid]
d = f"/tmp/seed/{pid}{variant}"
print(f"""You are working on a Rust library, json-syntax: a strict RFC 8259 JSON parser, printer and value model (code-map spans, duplicate-preserving objects, RFC 8785 canonicalization behind the `canonicalize` feature, serde support behind the `serde` / `serde_json` features). A git worktree of the repository is at {d}/wt. Work ONLY under {d} (the worktree and {d}/out). Do NOT read, list or touch /verif or /repo, and do not look for any verification tooling: your work must be independent of it. There is no network: always pass --offline to cargo.

This is a robustness exercise for a verification harness: I need a realistic *seeded defect*.

Property that your change must break:
  Title: {p['title']}
  Statement: {p['statement']}
  Scope: {p['quantifier']['text']}

Task: make ONE small, realistic source change under src/ (the kind of mistake a maintainer could plausibly make: an off-by-one, a wrong variable, a missing call on one path, a swapped branch, an over-eager optimisation, a stale cache, two cooperating sites that each look fine alone...) that BREAKS the property above, while
  (1) everything still compiles: `cargo build --offline --all-features`, and
  (2) the complete existing test-suite, unmodified, still passes: `cargo test --workspace --no-fail-fast --offline` (372 tests plus doc-tests) AND `cargo test --offline --all-features`.
The break must need something specific to manifest - a particular multi-step sequence of operations, an unusual input, a particular option combination, a boundary value - not something that ordinary use would expose at once. Prefer subtle over blatant; do not just make a whole feature fail. {variant and 'Choose a DIFFERENT mechanism / code location than the most obvious one for this property.' or ''}{extra}

Deliver in {d}/out/:
  - patch.diff : `git diff` of your change (only files under src/), which applies cleanly with `git apply` to a clean checkout of the worktree's HEAD;
  - demo.rs : a standalone integration test file (it will be copied to tests/seed_demo.rs) containing #[test] function(s) that FAIL with your change applied and PASS on the unchanged code. Verify both yourself (run it with and without the change; use `--all-features` or `--features ...` if the demo needs a feature and say so);
  - notes.md : what you changed, why the existing tests do not notice, exactly what is needed to trigger it, and the exact cargo command to run the demo.
Do not modify or delete existing tests. Do not commit anything. When finished, leave the worktree with your change applied and reply with a short summary (what the change is, what triggers it, how you verified).""")
