#!/usr/bin/env python3
"""keep_seed.py <src-dir> <seed-id> <property> <needs> <detected_by(comma list)> [missed_before] [features]
Archives a confirmed seeded change under /verif/seeded/<seed-id>/ (patch.diff, demo.rs, notes.md, meta.json)."""
import json, os, shutil, sys
src, sid, prop, needs, detected = sys.argv[1:6]
missed = sys.argv[6] if len(sys.argv) > 6 else ""
features = sys.argv[7] if len(sys.argv) > 7 else ""
dst = f"/verif/seeded/{sid}"
os.makedirs(dst, exist_ok=True)
for f in ("patch.diff", "demo.rs", "notes.md"):
    if os.path.exists(f"{src}/{f}"):
        shutil.copy(f"{src}/{f}", f"{dst}/{f}")
meta = {
    "id": sid,
    "breaks_property": prop,
    "origin": "fresh sub-agent given only the property text and a scratch worktree (tools/seed_prompt.py)",
    "needs_to_manifest": needs,
    "confirmed_by": f"tools/try_seed.sh {dst} {prop}: patch applies to HEAD; demo.rs passes without and fails with the change; `cargo test --workspace --no-fail-fast --offline` (372 + doc-tests) and `cargo test --offline --all-features` pass with the change",
    "demo_command": f"cp {dst}/demo.rs tests/seed_demo.rs && cargo test --offline {features or ''} --test seed_demo".replace("  ", " "),
    "detected_by_quick_checks": [d for d in detected.split(",") if d],
    "missed_before_strengthening": missed,
}
json.dump(meta, open(f"{dst}/meta.json", "w"), indent=1)
print("kept", dst)
