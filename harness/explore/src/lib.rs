//! Shared machinery of the checks: tiers and budgets, tallies, the report/evidence
//! writer, known-finding matching, the totality guard and a parallel driver.
//!
//! This crate does not depend on json-syntax.

use serde_json::{json, Value as J};
use std::collections::{BTreeMap, HashSet};
use std::hash::{Hash, Hasher};
use std::panic::{catch_unwind, AssertUnwindSafe};
use std::path::PathBuf;
use std::sync::atomic::{AtomicPtr, AtomicU64, AtomicUsize, Ordering};
use std::sync::{Arc, Mutex, OnceLock};
use std::time::{Duration, Instant};

pub use rayon;
pub use serde_json;

#[derive(Clone, Copy, Debug, PartialEq, Eq)]
pub enum Tier {
    Quick,
    Thorough,
}

impl Tier {
    pub fn name(self) -> &'static str {
        match self {
            Tier::Quick => "quick",
            Tier::Thorough => "thorough",
        }
    }
    pub fn pick<T>(self, quick: T, thorough: T) -> T {
        match self {
            Tier::Quick => quick,
            Tier::Thorough => thorough,
        }
    }
}

pub fn verif_root() -> PathBuf {
    std::env::var_os("VERIF_ROOT").map(PathBuf::from).unwrap_or_else(|| PathBuf::from("/verif"))
}

/// Command line of every check binary:
/// `<bin> <property> <quick|thorough>` or `<bin> <property> --replay <file>`.
pub struct Args {
    pub property: String,
    pub tier: Tier,
    pub replay: Option<PathBuf>,
    pub seed: i64,
}

impl Args {
    pub fn parse() -> Args {
        let a: Vec<String> = std::env::args().collect();
        if a.len() < 3 {
            eprintln!("usage: {} <property> <quick|thorough> | <property> --replay <file>", a[0]);
            std::process::exit(2);
        }
        let seed = std::env::var("VERIF_SEED").ok().and_then(|s| s.parse().ok()).unwrap_or(0);
        let (tier, replay) = match a[2].as_str() {
            "quick" => (Tier::Quick, None),
            "thorough" => (Tier::Thorough, None),
            "--replay" => (Tier::Quick, Some(PathBuf::from(a.get(3).cloned().unwrap_or_default()))),
            other => {
                eprintln!("unknown tier {other}");
                std::process::exit(2);
            }
        };
        Args {
            property: a[1].clone(),
            tier,
            replay,
            seed,
        }
    }
}

/// Wall-clock budget for the search part of a check; bounds are iterated and the
/// largest bound completed inside the budget is reported.
#[derive(Clone, Copy)]
pub struct Budget {
    pub start: Instant,
    pub deadline: Instant,
}

impl Budget {
    pub fn new(secs: u64) -> Self {
        let start = Instant::now();
        Budget {
            start,
            deadline: start + Duration::from_secs(secs),
        }
    }
    pub fn for_tier(tier: Tier, quick_s: u64, thorough_s: u64) -> Self {
        let scale: f64 = std::env::var("VERIF_BUDGET_SCALE").ok().and_then(|s| s.parse().ok()).unwrap_or(1.0);
        Self::new((tier.pick(quick_s, thorough_s) as f64 * scale) as u64)
    }
    pub fn expired(&self) -> bool {
        Instant::now() >= self.deadline
    }
    pub fn elapsed(&self) -> f64 {
        self.start.elapsed().as_secs_f64()
    }
    pub fn remaining(&self) -> f64 {
        self.deadline.saturating_duration_since(Instant::now()).as_secs_f64()
    }
}

#[derive(Clone, Debug)]
pub struct Violation {
    /// finding class the check assigns by its own predicate ("" = none)
    pub class: String,
    pub what: String,
    /// replayable description of the case
    pub case: J,
}

pub const MAX_KEPT: usize = 12;

/// Per-worker accumulator; merged with `absorb`.
#[derive(Default)]
pub struct Tally {
    /// executions of library code compared against the reference
    pub evals: u64,
    /// nodes of the explored tree / unique states
    pub states: u64,
    /// edges / transitions
    pub transitions: u64,
    /// outcome histogram (a single outcome over many executions means a vacuous harness)
    pub hist: BTreeMap<String, u64>,
    pub violations: Vec<Violation>,
    pub violation_count: u64,
    pub samples: Vec<J>,
    /// hashes of the distinct non-trivial cases (capped; see `Report`)
    pub distinct: HashSet<u64>,
    pub distinct_overflow: u64,
}

pub const DISTINCT_CAP: usize = 4_000_000;

impl Tally {
    pub fn new() -> Self {
        Self::default()
    }

    #[inline]
    pub fn outcome(&mut self, name: &str) {
        match self.hist.get_mut(name) {
            Some(c) => *c += 1,
            None => {
                self.hist.insert(name.to_string(), 1);
            }
        }
    }

    pub fn outcome_n(&mut self, name: &str, n: u64) {
        *self.hist.entry(name.to_string()).or_insert(0) += n;
    }

    pub fn violation(&mut self, class: &str, what: impl Into<String>, case: J) {
        self.violation_count += 1;
        // keep the first few per class so that a flood of one class cannot hide another
        let same = self.violations.iter().filter(|v| v.class == class).count();
        if same < MAX_KEPT {
            // (a message that quotes a megabyte-long value is cut: the case holds the input)
            let mut what: String = what.into();
            if what.len() > 3000 {
                let total = what.len();
                let mut cut = 3000;
                while !what.is_char_boundary(cut) {
                    cut -= 1;
                }
                what.truncate(cut);
                what.push_str(&format!(" ... ({total} bytes in all)"));
            }
            self.violations.push(Violation { class: class.to_string(), what, case });
        }
    }

    pub fn sample(&mut self, s: J) {
        if self.samples.len() < 6 {
            self.samples.push(s);
        }
    }

    /// Records a non-trivial case by a hash of its canonical description.
    #[inline]
    pub fn nontrivial<H: Hash>(&mut self, h: &H) {
        if self.distinct.len() < DISTINCT_CAP {
            let mut s = std::collections::hash_map::DefaultHasher::new();
            h.hash(&mut s);
            self.distinct.insert(s.finish());
        } else {
            self.distinct_overflow += 1;
        }
    }

    pub fn absorb(&mut self, o: Tally) {
        self.evals += o.evals;
        self.states += o.states;
        self.transitions += o.transitions;
        for (k, v) in o.hist {
            *self.hist.entry(k).or_insert(0) += v;
        }
        self.violation_count += o.violation_count;
        for v in o.violations {
            let same = self.violations.iter().filter(|x| x.class == v.class).count();
            if same < MAX_KEPT {
                self.violations.push(v);
            }
        }
        for s in o.samples {
            self.sample(s);
        }
        self.distinct_overflow += o.distinct_overflow;
        for d in o.distinct {
            if self.distinct.len() < DISTINCT_CAP {
                self.distinct.insert(d);
            } else {
                self.distinct_overflow += 1;
            }
        }
    }
}

#[derive(Clone, Debug)]
pub struct KnownFinding {
    pub property: String,
    pub id: String,
    pub status: String,
    pub what: String,
}

pub fn load_known_findings() -> Vec<KnownFinding> {
    let p = verif_root().join("known_findings.json");
    let text = match std::fs::read_to_string(&p) {
        Ok(t) => t,
        Err(_) => return Vec::new(),
    };
    let j: J = match serde_json::from_str(&text) {
        Ok(j) => j,
        Err(e) => {
            eprintln!("MACHINERY: cannot parse {}: {e}", p.display());
            std::process::exit(2);
        }
    };
    let mut out = Vec::new();
    for r in j["findings"].as_array().cloned().unwrap_or_default() {
        out.push(KnownFinding {
            property: r["property"].as_str().unwrap_or("").to_string(),
            id: r["id"].as_str().unwrap_or("").to_string(),
            status: r["status"].as_str().unwrap_or("").to_string(),
            what: r["what"].as_str().unwrap_or("").to_string(),
        });
    }
    out
}

/// The final report of one check run: writes the evidence file, the replay files and the
/// VIOLATION / KNOWN-FINDING lines, and yields the exit code.
pub struct Report {
    pub property: String,
    pub tier: Tier,
    pub seed: i64,
    /// "model_checking" or "exploration"
    pub level: &'static str,
    pub engine: String,
    pub rule: String,
    pub exhaustive: bool,
    pub bounds: J,
    pub assumptions: Vec<String>,
    pub notes: Vec<String>,
    pub tally: Tally,
    pub start: Instant,
    /// machinery problems (reference models disagreeing, caps hit before the first bound)
    pub machinery: Vec<String>,
}

impl Report {
    pub fn new(args: &Args, level: &'static str, engine: &str) -> Self {
        // every checker runs under the watchdog: a work item (or a transition of a search) in
        // which the library never returns is reported as a violation instead of hanging the
        // check until the wall-clock cap (the limits are far above what a work item takes)
        ITEM_LIMIT.store(if args.tier == Tier::Thorough { 3600 } else { 180 }, Ordering::Relaxed);
        if WATCH_PROPERTY.get().is_none() {
            start_watchdog(&args.property, 120);
        }
        Report {
            property: args.property.clone(),
            tier: args.tier,
            seed: args.seed,
            level,
            engine: engine.to_string(),
            rule: String::new(),
            exhaustive: true,
            bounds: json!({}),
            assumptions: Vec::new(),
            notes: std::env::var("VERIF_DA_PASS").map(|v| vec![format!("build-profile dimension: {v}")]).unwrap_or_default(),
            tally: Tally::new(),
            start: Instant::now(),
            machinery: Vec::new(),
        }
    }

    pub fn absorb(&mut self, t: Tally) {
        self.tally.absorb(t);
    }

    pub fn note(&mut self, s: impl Into<String>) {
        let s = s.into();
        eprintln!("[{}] {}", self.property, s);
        self.notes.push(s);
    }

    /// Writes everything and returns the process exit code.
    pub fn finish(self) -> i32 {
        let root = verif_root();
        let known = load_known_findings();
        let wall = self.start.elapsed().as_secs_f64();

        // split violations into known findings and real ones
        let mut known_hits: BTreeMap<String, (String, u64, String)> = BTreeMap::new();
        let mut real: Vec<&Violation> = Vec::new();
        let mut machinery = self.machinery.clone();
        for v in &self.tally.violations {
            // disagreements between reference models are machinery errors, never verdicts
            if v.class.starts_with("MACHINERY") {
                machinery.push(format!("{}: {} / case {}", v.class, v.what, v.case));
                continue;
            }
            let rec = known
                .iter()
                .find(|k| k.status == "known" && k.property == self.property && !v.class.is_empty() && k.id == v.class);
            match rec {
                Some(k) => {
                    let e = known_hits.entry(k.id.clone()).or_insert((k.what.clone(), 0, v.what.clone()));
                    e.1 += 1;
                }
                None => real.push(v),
            }
        }

        // a secondary pass (the same check on a build with debug assertions enabled, see ./run)
        // keeps its replays apart and does not write the evidence file
        let secondary = std::env::var("VERIF_SECONDARY").is_ok();
        let suffix = std::env::var("VERIF_SECONDARY").ok().filter(|v| v != "1").unwrap_or_else(|| "debug-assertions".to_string());
        let replay_dir = root.join("replays").join(if secondary { format!("{}-{suffix}", self.property) } else { self.property.clone() });
        let _ = std::fs::remove_dir_all(&replay_dir);
        let mut lines = Vec::new();
        if !real.is_empty() {
            let _ = std::fs::create_dir_all(&replay_dir);
        }
        for (i, v) in real.iter().enumerate() {
            let path = replay_dir.join(format!("{:03}.json", i));
            let body = json!({
                "property": self.property,
                "tier": self.tier.name(),
                "class": v.class,
                "what": v.what,
                "case": v.case,
            });
            let _ = std::fs::write(&path, serde_json::to_string_pretty(&body).unwrap());
            lines.push(format!("VIOLATION property={} replay={}", self.property, path.display()));
            eprintln!("  violation[{}] {}: {}", i, v.class, v.what);
        }

        for (id, (what, n, first)) in &known_hits {
            println!("KNOWN-FINDING: property={} {} [{}] ({} kept witnesses; first: {})", self.property, what, id, n, first);
        }

        let distinct = self.tally.distinct.len() as u64;
        let mut rule = self.rule.clone();
        if self.tally.distinct_overflow > 0 {
            rule.push_str(&format!(
                " [distinct cases are counted with a hash set capped at {} entries; {} further non-trivial cases were enumerated beyond the cap (the enumerators are repetition-free by construction) and are NOT included in distinct_nontrivial]",
                DISTINCT_CAP, self.tally.distinct_overflow
            ));
        }
        let hist: serde_json::Map<String, J> =
            self.tally.hist.iter().map(|(k, v)| (k.clone(), json!(v))).collect();
        let mut coverage = json!({
            "evaluations": self.tally.evals,
            "distinct_nontrivial": distinct,
            "rule": rule,
            "samples": self.tally.samples,
            "exhaustive": self.exhaustive,
            "outcomes": hist,
            "distinct_outcomes": self.tally.hist.len(),
            "bounds": self.bounds,
            "engine": self.engine,
            "notes": self.notes,
            "known_findings_matched": known_hits.keys().collect::<Vec<_>>(),
        });
        if self.level == "model_checking" {
            coverage["states"] = json!(self.tally.states);
            coverage["transitions"] = json!(self.tally.transitions);
            coverage["traces_validated_against_impl"] = json!(self.tally.evals);
        }
        let real_count = if real.is_empty() { 0 } else { self.tally.violation_count.max(real.len() as u64) };
        let real_count = real_count.min(self.tally.violation_count);
        let evidence = json!({
            "property_id": self.property,
            "tier": self.tier.name(),
            "seed": self.seed,
            "level": self.level,
            "coverage": coverage,
            "assumptions": self.assumptions,
            "wall_s": (wall * 1000.0).round() / 1000.0,
            "violations": real_count,
            "machinery_errors": machinery,
        });
        let ev_dir = root.join("evidence");
        let _ = std::fs::create_dir_all(&ev_dir);
        let ev_path = ev_dir.join(format!("{}.json", self.property));
        if !secondary {
            if let Err(e) = std::fs::write(&ev_path, serde_json::to_string_pretty(&evidence).unwrap() + "\n") {
                eprintln!("MACHINERY: cannot write {}: {e}", ev_path.display());
                return 2;
            }
        }

        eprintln!(
            "[{}] {} {}: evals={} states={} transitions={} distinct={} outcomes={} violations={} wall={:.1}s",
            self.property,
            self.tier.name(),
            self.engine,
            self.tally.evals,
            self.tally.states,
            self.tally.transitions,
            distinct,
            self.tally.hist.len(),
            real.len(),
            wall
        );
        for l in &lines {
            println!("{l}");
        }
        if !machinery.is_empty() {
            for m in &machinery {
                eprintln!("MACHINERY: {m}");
            }
            if lines.is_empty() {
                return 2;
            }
        }
        if !lines.is_empty() {
            1
        } else {
            println!("OK property={} tier={} evaluations={}", self.property, self.tier.name(), self.tally.evals);
            0
        }
    }
}

thread_local! {
    static IN_GUARD: std::cell::Cell<u32> = const { std::cell::Cell::new(0) };
}

/// Runs `f` under `catch_unwind`; a panic becomes `Err(message)`.
pub fn guard<T>(f: impl FnOnce() -> T) -> Result<T, String> {
    IN_GUARD.with(|g| g.set(g.get() + 1));
    let r = catch_unwind(AssertUnwindSafe(f));
    IN_GUARD.with(|g| g.set(g.get() - 1));
    match r {
        Ok(v) => Ok(v),
        Err(e) => {
            let msg = if let Some(s) = e.downcast_ref::<&str>() {
                s.to_string()
            } else if let Some(s) = e.downcast_ref::<String>() {
                s.clone()
            } else {
                "panic".to_string()
            };
            Err(msg)
        }
    }
}

/// Silences the panic message of panics that are caught by `guard` (they are reported as
/// violations); panics of the harness itself keep the default message.
pub fn quiet_panics() {
    let default = std::panic::take_hook();
    std::panic::set_hook(Box::new(move |info| {
        if IN_GUARD.with(|g| g.get()) == 0 {
            default(info);
        }
    }));
}

// ---------------------------------------------------------------------------------------------
// Watchdog: every worker publishes the input it is executing; a case that has been running
// for more than `LIMIT` is reported as a non-termination violation.

pub struct Slot {
    counter: AtomicU64,
    ptr: AtomicPtr<u8>,
    len: AtomicUsize,
    limit: AtomicU64,
}

static SLOTS: OnceLock<Mutex<Vec<Arc<Slot>>>> = OnceLock::new();
static WATCH_PROPERTY: OnceLock<String> = OnceLock::new();
static WATCH_DEFAULT_LIMIT: AtomicU64 = AtomicU64::new(10);
/// Limit for one work item of `par_tally` / one transition of an explicit-state search (far
/// above anything a work item takes; only a call into the library that never returns gets there).
pub static ITEM_LIMIT: AtomicU64 = AtomicU64::new(180);

thread_local! {
    static MY_SLOT: Arc<Slot> = {
        let s = Arc::new(Slot { counter: AtomicU64::new(0), ptr: AtomicPtr::new(std::ptr::null_mut()), len: AtomicUsize::new(0), limit: AtomicU64::new(0) });
        SLOTS.get_or_init(|| Mutex::new(Vec::new())).lock().unwrap().push(s.clone());
        s
    };
}

/// Runs `f` with `input` published as the case being executed (default limit of the process).
#[inline]
pub fn watched<T>(input: &[u8], f: impl FnOnce() -> T) -> T {
    watched_for(0, input, f)
}

/// Runs `f` with `input` (the case, or a label for it) published as what this thread is doing; if
/// it is still doing it after `limit_s` seconds (0: the default limit of the process) the
/// watchdog reports a non-termination violation and ends the process. Calls nest: the outer
/// publication is restored - and its clock restarted - when the inner one ends.
#[inline]
pub fn watched_for<T>(limit_s: u64, input: &[u8], f: impl FnOnce() -> T) -> T {
    MY_SLOT.with(|s| {
        let outer = (s.ptr.load(Ordering::Relaxed), s.len.load(Ordering::Relaxed), s.limit.load(Ordering::Relaxed));
        s.ptr.store(std::ptr::null_mut(), Ordering::Release);
        s.len.store(input.len(), Ordering::Relaxed);
        s.limit.store(limit_s, Ordering::Relaxed);
        s.counter.fetch_add(1, Ordering::Relaxed);
        s.ptr.store(input.as_ptr() as *mut u8, Ordering::Release);
        let r = f();
        s.ptr.store(std::ptr::null_mut(), Ordering::Release);
        s.len.store(outer.1, Ordering::Relaxed);
        s.limit.store(outer.2, Ordering::Relaxed);
        s.counter.fetch_add(1, Ordering::Relaxed);
        s.ptr.store(outer.0, Ordering::Release);
        r
    })
}

/// Starts the watchdog thread (default limit in seconds); later calls only change the default.
pub fn start_watchdog(property: &str, limit_s: u64) {
    WATCH_DEFAULT_LIMIT.store(limit_s, Ordering::Relaxed);
    if WATCH_PROPERTY.set(property.to_string()).is_err() {
        return;
    }
    SLOTS.get_or_init(|| Mutex::new(Vec::new()));
    std::thread::spawn(move || {
        let mut last: Vec<(u64, u64)> = Vec::new(); // (counter, seconds unchanged)
        loop {
            std::thread::sleep(Duration::from_secs(1));
            let slots = SLOTS.get().unwrap().lock().unwrap().clone();
            last.resize(slots.len(), (0, 0));
            for (i, s) in slots.iter().enumerate() {
                let c = s.counter.load(Ordering::Relaxed);
                let p = s.ptr.load(Ordering::Acquire);
                if !p.is_null() && c == last[i].0 {
                    last[i].1 += 1;
                    let limit = match s.limit.load(Ordering::Relaxed) {
                        0 => WATCH_DEFAULT_LIMIT.load(Ordering::Relaxed),
                        l => l,
                    };
                    if last[i].1 >= limit {
                        let len = s.len.load(Ordering::Relaxed);
                        // the worker is stuck inside the call, so the buffer is stable
                        let bytes = unsafe { std::slice::from_raw_parts(p, len) }.to_vec();
                        let property = WATCH_PROPERTY.get().unwrap();
                        let suffix = match std::env::var("VERIF_SECONDARY") {
                            Ok(v) if v == "1" => "-debug-assertions".to_string(),
                            Ok(v) if !v.is_empty() => format!("-{v}"),
                            _ => String::new(),
                        };
                        let dir = verif_root().join("replays").join(format!("{property}{suffix}"));
                        let _ = std::fs::create_dir_all(&dir);
                        let path = dir.join("nontermination.json");
                        let body = json!({
                            "property": property,
                            "what": format!("a case has been running for more than {limit} s: the library does not return"),
                            "case": {"kind": "bytes", "bytes": bytes, "lossy": String::from_utf8_lossy(&bytes)},
                        });
                        let _ = std::fs::write(&path, serde_json::to_string_pretty(&body).unwrap());
                        println!("  violation[0] : {} has been running for more than {limit} s: the library does not return", String::from_utf8_lossy(&bytes));
                        println!("VIOLATION property={} replay={}", property, path.display());
                        std::process::exit(1);
                    }
                } else {
                    last[i] = (c, 0);
                }
            }
        }
    });
}

/// The environment of the *second pass* (`VERIF_SECONDARY=1`, the build with debug assertions):
/// every work item - and every transition of an explicit-state search - is executed from a
/// destructor while its thread is unwinding from a panic raised (and caught) by the harness, so
/// that `std::thread::panicking()` is true throughout. Library code that takes another path
/// there (clean-up that is skipped, guards that do not finish, a "do not panic twice" shortcut)
/// is exercised by every family of every check without a family of its own. A panic of the
/// library inside a work item is caught by the item's own `guard`, as everywhere else.
pub fn unwinding_env() -> bool {
    static ON: OnceLock<bool> = OnceLock::new();
    *ON.get_or_init(|| std::env::var("VERIF_SECONDARY").as_deref() == Ok("1") || std::env::var("VERIF_ENV_UNWINDING").is_ok())
}

pub fn in_env<T>(f: impl FnOnce() -> T) -> T {
    if !unwinding_env() {
        return f();
    }
    struct G<F: FnOnce()>(Option<F>);
    impl<F: FnOnce()> Drop for G<F> {
        fn drop(&mut self) {
            if let Some(f) = self.0.take() {
                f()
            }
        }
    }
    let mut slot: Option<T> = None;
    let _ = catch_unwind(AssertUnwindSafe(|| {
        let _g = G(Some(|| slot = Some(f())));
        std::panic::resume_unwind(Box::new("the harness unwinds on purpose"));
    }));
    slot.expect("the work item did not run")
}

/// Parallel map-reduce over work items with per-item tallies.
pub fn par_tally<I, F>(items: Vec<I>, f: F) -> Tally
where
    I: Send,
    F: Fn(I, &mut Tally) + Sync + Send,
{
    use rayon::prelude::*;
    items
        .into_par_iter()
        .fold(Tally::new, |mut t, item| {
            let label = std::any::type_name::<I>();
            watched_for(ITEM_LIMIT.load(Ordering::Relaxed), label.as_bytes(), || in_env(|| f(item, &mut t)));
            t
        })
        .reduce(Tally::new, |mut a, b| {
            a.absorb(b);
            a
        })
}

pub fn init_threads() {
    let n = std::env::var("VERIF_THREADS").ok().and_then(|s| s.parse().ok()).unwrap_or(16usize);
    let _ = rayon::ThreadPoolBuilder::new().num_threads(n).stack_size(16 << 20).build_global();
}

/// Renders bytes for evidence samples and replays.
pub fn show_bytes(b: &[u8]) -> J {
    match std::str::from_utf8(b) {
        Ok(s) => json!({"text": s}),
        Err(_) => json!({"bytes": b, "lossy": String::from_utf8_lossy(b)}),
    }
}

// ---------------------------------------------------------------------------------------------
// A thread-caching allocator for the check binaries.
//
// The checks execute 10^7..10^9 tiny library calls on 16 threads, each allocating a handful
// of small blocks. On this sandbox the threads were observed (gdb) to serialise on glibc's
// `main_arena` lock (40 s of system time for 6 s of wall clock); small blocks are therefore
// served from per-thread size-class free lists carved out of chunks obtained from the system
// allocator. Large blocks go to the system allocator unchanged. This only affects the speed
// of the harness, never what the library under test computes.

use std::alloc::{GlobalAlloc, Layout, System};
use std::cell::UnsafeCell;

const AC_MAX: usize = 2048;
const AC_CLASSES: usize = AC_MAX / 16;
const AC_CHUNK: usize = 1 << 20;

struct AcLocal {
    bins: [*mut u8; AC_CLASSES],
    bump: *mut u8,
    end: *mut u8,
}

thread_local! {
    static AC_LOCAL: UnsafeCell<AcLocal> = const {
        UnsafeCell::new(AcLocal { bins: [std::ptr::null_mut(); AC_CLASSES], bump: std::ptr::null_mut(), end: std::ptr::null_mut() })
    };
}

pub struct ThreadCache;

// 0 = undecided, 1 = thread caches, 2 = plain system allocator. Decided once, at the very first
// allocation of the process, from the environment (`VERIF_SYSTEM_ALLOC`), so that every block of
// a process is served by one policy. Processes that run each case in a fresh thread (the C03
// pump children) use the system allocator: the caches of a finished thread are not reclaimed.
static AC_MODE: std::sync::atomic::AtomicU8 = std::sync::atomic::AtomicU8::new(0);

extern "C" {
    fn getenv(name: *const std::os::raw::c_char) -> *mut std::os::raw::c_char;
}

#[inline]
fn ac_system() -> bool {
    match AC_MODE.load(std::sync::atomic::Ordering::Relaxed) {
        1 => false,
        2 => true,
        _ => {
            // getenv does not allocate
            let set = unsafe { !getenv(b"VERIF_SYSTEM_ALLOC\0".as_ptr() as *const _).is_null() };
            AC_MODE.store(if set { 2 } else { 1 }, std::sync::atomic::Ordering::Relaxed);
            set
        }
    }
}

#[inline]
fn ac_class(l: &Layout) -> Option<usize> {
    if ac_system() {
        return None;
    }
    if l.size() <= AC_MAX && l.align() <= 16 {
        Some((l.size().max(1) + 15) / 16 - 1)
    } else {
        None
    }
}

unsafe impl GlobalAlloc for ThreadCache {
    #[inline]
    unsafe fn alloc(&self, l: Layout) -> *mut u8 {
        match ac_class(&l) {
            None => System.alloc(l),
            Some(c) => {
                let size = (c + 1) * 16;
                let r = AC_LOCAL.try_with(|loc| {
                    let loc = &mut *loc.get();
                    let head = loc.bins[c];
                    if !head.is_null() {
                        loc.bins[c] = *(head as *mut *mut u8);
                        return head;
                    }
                    if (loc.end as usize) - (loc.bump as usize) < size {
                        let chunk = System.alloc(Layout::from_size_align_unchecked(AC_CHUNK, 16));
                        if chunk.is_null() {
                            return chunk;
                        }
                        loc.bump = chunk;
                        loc.end = chunk.add(AC_CHUNK);
                    }
                    let p = loc.bump;
                    loc.bump = p.add(size);
                    p
                });
                match r {
                    Ok(p) => p,
                    // thread-local storage is gone (thread teardown): a block of the full class size
                    Err(_) => System.alloc(Layout::from_size_align_unchecked(size, 16)),
                }
            }
        }
    }

    #[inline]
    unsafe fn dealloc(&self, p: *mut u8, l: Layout) {
        match ac_class(&l) {
            None => System.dealloc(p, l),
            Some(c) => {
                // during thread teardown the block is leaked
                let _ = AC_LOCAL.try_with(|loc| {
                    let loc = &mut *loc.get();
                    *(p as *mut *mut u8) = loc.bins[c];
                    loc.bins[c] = p;
                });
            }
        }
    }

    #[inline]
    unsafe fn realloc(&self, p: *mut u8, l: Layout, new_size: usize) -> *mut u8 {
        let nl = Layout::from_size_align_unchecked(new_size, l.align());
        match (ac_class(&l), ac_class(&nl)) {
            (None, None) => System.realloc(p, l, new_size),
            (Some(a), Some(b)) if a == b => p,
            _ => {
                let q = self.alloc(nl);
                if !q.is_null() {
                    std::ptr::copy_nonoverlapping(p, q, l.size().min(new_size));
                    self.dealloc(p, l);
                }
                q
            }
        }
    }
}

/// Free-running concurrency pass (sampled schedules, labelled so in the evidence): `f(i)` is
/// evaluated for every item on one thread first (the baseline), then by `threads` threads at the
/// same time, each going through the items in a different rotation for `rounds` rounds; every
/// result must equal the baseline. The library under test has no shared state, so there is
/// nothing for a controlled scheduler to interleave; this pass exists to notice if that changes
/// (a scratch buffer hoisted to a `static`, a global cache).
pub fn concurrent_agreement<T, F>(threads: usize, rounds: usize, items: usize, f: F) -> Result<u64, String>
where
    T: PartialEq + std::fmt::Debug + Send + Sync,
    F: Fn(usize) -> T + Sync,
{
    let baseline: Vec<T> = std::thread::scope(|s| s.spawn(|| (0..items).map(&f).collect::<Vec<T>>()).join()).map_err(|_| "the baseline thread panicked".to_string())?;
    let barrier = std::sync::Barrier::new(threads);
    let failures = std::sync::Mutex::new(Vec::<String>::new());
    let done = std::sync::atomic::AtomicU64::new(0);
    std::thread::scope(|s| {
        for t in 0..threads {
            let (baseline, barrier, failures, done, f) = (&baseline, &barrier, &failures, &done, &f);
            s.spawn(move || {
                barrier.wait();
                for r in 0..rounds {
                    for k in 0..items {
                        let i = (k * (t + 1) + r + t) % items;
                        let got = match guard(|| f(i)) {
                            Ok(g) => g,
                            Err(p) => {
                                failures.lock().unwrap().push(format!("item {i} panicked on thread {t}: {p}"));
                                return;
                            }
                        };
                        done.fetch_add(1, std::sync::atomic::Ordering::Relaxed);
                        if got != baseline[i] {
                            let mut fl = failures.lock().unwrap();
                            if fl.len() < 4 {
                                fl.push(format!("item {i}: {:?} while {threads} threads run, {:?} alone", got, baseline[i]).chars().take(400).collect());
                            }
                            return;
                        }
                    }
                }
            });
        }
    });
    let fl = failures.into_inner().unwrap();
    match fl.first() {
        None => Ok(done.load(std::sync::atomic::Ordering::Relaxed)),
        Some(e) => Err(e.clone()),
    }
}

struct ExitHook(std::cell::RefCell<Option<Box<dyn FnOnce()>>>);

impl Drop for ExitHook {
    fn drop(&mut self) {
        if let Some(f) = self.0.borrow_mut().take() {
            f()
        }
    }
}

thread_local! {
    static EXIT_HOOK: ExitHook = ExitHook(std::cell::RefCell::new(None));
}

/// The thread's life cycle is part of the environment of a call: runs `at_exit` from the
/// destructor of a thread-local while the thread is exiting. With `hook_first` the harness's
/// thread-local is registered before `before()` touches the library (so it is destroyed after
/// whatever thread-locals the library created), otherwise after. A panic in `at_exit` is caught
/// and reported as `Err`.
pub fn run_at_thread_exit<T, B, F>(hook_first: bool, before: B, at_exit: F) -> Result<T, String>
where
    T: Send + 'static,
    B: FnOnce() + Send + 'static,
    F: FnOnce() -> T + Send + 'static,
{
    let (tx, rx) = std::sync::mpsc::channel::<Result<T, String>>();
    let h = std::thread::spawn(move || {
        let install = move || {
            EXIT_HOOK.with(|h| {
                *h.0.borrow_mut() = Some(Box::new(move || {
                    let r = match std::panic::catch_unwind(std::panic::AssertUnwindSafe(at_exit)) {
                        Ok(v) => Ok(v),
                        Err(p) => Err(p.downcast_ref::<String>().cloned().or_else(|| p.downcast_ref::<&str>().map(|s| s.to_string())).unwrap_or_else(|| "panic".to_string())),
                    };
                    let _ = tx.send(r);
                }))
            })
        };
        IN_GUARD.with(|g| g.set(1));
        if hook_first {
            install();
            before();
        } else {
            before();
            install();
        }
    });
    let _ = h.join();
    rx.recv().unwrap_or_else(|_| Err("the exit hook did not report (the thread died before or inside it)".to_string()))
}
