//! chk-print: C04 (print -> parse round trip), C08 (compact output), C13 (layout) —
//! bounded-exhaustive enumeration of values x option records (E-ENUM).

#[global_allocator]
static ALLOC: explore::ThreadCache = explore::ThreadCache;

use explore::serde_json::{json, Value as J};
use explore::{Args, Budget, Report, Tally, Tier};
use json_syntax::{Parse, Print, Value};
use refmodel::print::{self as rp, Indent, Limit, Opts};
use refmodel::value::Gen;
use refmodel::RV;

#[derive(Clone, Copy, PartialEq, Eq, Debug)]
enum Mode {
    C04,
    C08,
    C13,
}

const NASTY: &str = "\"\\/\u{8}\u{c}\n\r\t\u{1}\u{1f}\u{7f}\u{e9}\u{2028}\u{1f600}\u{ffff}";

fn f_shape(n: usize) -> Vec<RV> {
    let leaves = [RV::num("0"), RV::str("ab"), RV::Null];
    let keys = ["a", "bb"];
    let g = Gen::new(&leaves, &keys, n);
    let v = g.up_to(n);
    let want: u128 = (1..=n).map(|i| Gen::expected_count(3, 2, i)).sum();
    assert_eq!(v.len() as u128, want, "generator count differs from the recurrence");
    v
}

fn f_leaf(n: usize) -> Vec<RV> {
    let leaves = [
        RV::Null,
        RV::Bool(true),
        RV::num("0"),
        RV::num("-1.5E+2"),
        RV::num("12345678901234567890.5"),
        RV::str(""),
        RV::str("a"),
        RV::str(NASTY),
    ];
    // the key "a" twice would generate each object twice; duplicates arise anyway because a key
    // may be used by several children
    let keys = ["", "a", NASTY];
    let g = Gen::new(&leaves, &keys, n);
    let v = g.up_to(n);
    let want: u128 = (1..=n).map(|i| Gen::expected_count(8, 3, i)).sum();
    assert_eq!(v.len() as u128, want);
    v
}

/// S-all: every string of length <= n over one representative of every character class the
/// printer distinguishes (plain ASCII, the two mandatory escapes, a short escape, a \u00xx
/// escape, 2-/3-/4-byte characters, DEL, U+2028) - escapes and multi-byte characters in every
/// combination, so that byte length, character count and printed width all differ.
const CLASSES: [&str; 10] = ["a", "\"", "\\", "\n", "\u{1}", "\u{e9}", "\u{20ac}", "\u{1f600}", "\u{7f}", "\u{2028}"];

fn s_all(n: usize) -> Vec<String> {
    let mut out = vec![String::new()];
    let mut level = vec![String::new()];
    for _ in 0..n {
        let mut next = Vec::new();
        for s in &level {
            for c in CLASSES {
                next.push(format!("{s}{c}"));
            }
        }
        out.extend(next.iter().cloned());
        level = next;
    }
    out
}

/// P-all: every ordered pair of characters U+0000..U+0020 and six other class representatives
/// (state carried from one escape to the next inside one string), and every triple over a
/// reduced set of controls.
fn p_all() -> Vec<String> {
    let mut cs: Vec<char> = (0u32..=0x20).filter_map(char::from_u32).collect();
    cs.extend(['"', '\\', '\u{7f}', '\u{e9}', '\u{2028}', '\u{1f600}']);
    let mut out = Vec::new();
    for &a in &cs {
        for &b in &cs {
            out.push(format!("{a}{b}"));
        }
    }
    let small = ['\u{0}', '\u{7}', '\u{8}', '\u{b}', '\u{f}', '\u{10}', '\u{1f}', 'a', '\u{e9}'];
    for a in small {
        for b in small {
            for c in small {
                out.push(format!("{a}{b}{c}"));
            }
        }
    }
    out
}

fn string_values(s: &str) -> [RV; 2] {
    [RV::Str(s.to_string()), RV::Obj(vec![(s.to_string(), RV::Arr(vec![RV::Str(s.to_string()), RV::Null]))])]
}

fn opts_json(o: &Opts) -> J {
    json!({
        "indent": format!("{:?}", o.indent),
        "array": [o.array_begin, o.array_end, o.array_empty, o.array_before_comma, o.array_after_comma],
        "array_limit": format!("{:?}", o.array_limit),
        "object": [o.object_begin, o.object_end, o.object_empty, o.object_before_comma, o.object_after_comma, o.object_before_colon, o.object_after_colon],
        "object_limit": format!("{:?}", o.object_limit),
    })
}

fn parse_limit(s: &str) -> Option<Limit> {
    let s = s.strip_prefix("Some(")?.strip_suffix(')')?;
    if s == "Always" {
        return Some(Limit::Always);
    }
    let (name, rest) = s.split_once('(')?;
    let nums: Vec<usize> = rest.trim_end_matches(')').split(',').map(|x| x.trim().parse().ok()).collect::<Option<_>>()?;
    match name {
        "Item" => Some(Limit::Item(nums[0])),
        "Width" => Some(Limit::Width(nums[0])),
        "ItemOrWidth" => Some(Limit::ItemOrWidth(nums[0], nums[1])),
        _ => None,
    }
}

fn opts_from_json(j: &J) -> Option<Opts> {
    let ind = j["indent"].as_str()?;
    let (name, n) = ind.split_once('(')?;
    let n: u8 = n.trim_end_matches(')').parse().ok()?;
    let a: Vec<usize> = j["array"].as_array()?.iter().map(|x| x.as_u64().unwrap_or(0) as usize).collect();
    let o: Vec<usize> = j["object"].as_array()?.iter().map(|x| x.as_u64().unwrap_or(0) as usize).collect();
    Some(Opts {
        indent: if name == "Tabs" { Indent::Tabs(n) } else { Indent::Spaces(n) },
        array_begin: a[0],
        array_end: a[1],
        array_empty: a[2],
        array_before_comma: a[3],
        array_after_comma: a[4],
        array_limit: parse_limit(j["array_limit"].as_str()?),
        object_begin: o[0],
        object_end: o[1],
        object_empty: o[2],
        object_before_comma: o[3],
        object_after_comma: o[4],
        object_before_colon: o[5],
        object_after_colon: o[6],
        object_limit: parse_limit(j["object_limit"].as_str()?),
    })
}

fn case(v: &RV, o: &Opts) -> J {
    json!({"kind": "print", "value": v.show(), "options": opts_json(o)})
}

/// One (value, record) case: the oracle of the selected property.
fn check_case(mode: Mode, rv: &RV, real: &Value, o: &Opts, t: &mut Tally) {
    t.evals += 1;
    let ro = bridge::to_options(o);
    let printed = match explore::guard(|| real.print_with(ro.clone()).to_string()) {
        Ok(s) => s,
        Err(p) => {
            t.violation("", format!("printing panicked: {p}"), case(rv, o));
            return;
        }
    };
    match mode {
        Mode::C13 => {
            let (want, exp) = rp::print_planned(rv, o);
            t.outcome(if exp { "root expanded" } else if rv.is_container() { "root on one line" } else { "scalar" });
            if printed != want {
                t.violation("", format!("layout differs from the documented one: printed {printed:?}, reference {want:?}"), case(rv, o));
            }
            other_print_routes(rv, real, o, &ro, &printed, t);
        }
        Mode::C04 => {
            match Value::parse_str(&printed) {
                Ok((back, _)) => {
                    if back != *real {
                        t.violation("", format!("printed text {printed:?} parses back to a different value {back}"), case(rv, o));
                    }
                    t.outcome(if printed.contains('\n') { "round trip (multi-line)" } else { "round trip (single line)" });
                }
                Err(e) => t.violation("", format!("printed text {printed:?} is not valid JSON: {e}"), case(rv, o)),
            }
            // the conversions that print without an option record (compact): Display, to_string,
            // String::from(value) - once per value, when the record is the compact preset
            if *o == Opts::compact() {
                for (name, text) in [
                    ("to_string()", explore::guard(|| real.to_string())),
                    ("String::from(value)", explore::guard(|| String::from(real.clone()))),
                    ("format!(\"{}\")", explore::guard(|| format!("{real}"))),
                    // (formatter flags are not print options: whatever they do to the text, it
                    // still has to be the value)
                    ("format!(\"{:#}\")", explore::guard(|| format!("{real:#}"))),
                    ("format!(\"{:+.3}\")", explore::guard(|| format!("{real:+.3}"))),
                    ("format!(\"{:#}\") of print_with", explore::guard(|| format!("{:#}", real.print_with(ro.clone())))),
                ] {
                    t.evals += 1;
                    match text {
                        Ok(text) => match Value::parse_str(&text) {
                            Ok((back, _)) if back == *real => {}
                            Ok((back, _)) => t.violation("", format!("{name} gives {text:?}, which parses back to a different value {back}"), case(rv, o)),
                            Err(e) => t.violation("", format!("{name} gives {text:?}, which is not valid JSON: {e}"), case(rv, o)),
                        },
                        Err(p) => t.violation("", format!("{name} panicked: {p}"), case(rv, o)),
                    }
                }
            }
        }
        Mode::C08 => unreachable!(),
    }
}

/// `Print::fmt_with` called directly with a base indentation level.
struct At<'a>(&'a Value, &'a json_syntax::print::Options, usize);
impl std::fmt::Display for At<'_> {
    fn fmt(&self, f: &mut std::fmt::Formatter) -> std::fmt::Result {
        self.0.fmt_with(f, self.1, self.2)
    }
}

/// The other public routes to the printer must lay the value out in the same way: through a
/// reference, through locspan's `Meta` / `Stripped` wrappers, and through `Print::fmt_with`
/// with a base indentation level k (every child line is then indented by (k + depth) units:
/// the text printed at level 0 with k more units after every line break; strings cannot contain
/// a raw line break).
fn other_print_routes(rv: &RV, real: &Value, o: &Opts, ro: &json_syntax::print::Options, printed: &str, t: &mut Tally) {
    let r = explore::guard(|| {
        let mut bad: Vec<String> = Vec::new();
        let by_ref = (&real).print_with(ro.clone()).to_string();
        if by_ref != printed {
            bad.push(format!("<&Value as Print>::print_with gives {by_ref:?}, Value gives {printed:?}"));
        }
        let meta = locspan::Meta(real, 7u8);
        let by_meta = meta.print_with(ro.clone()).to_string();
        if by_meta != printed {
            bad.push(format!("<Meta<Value, _> as Print>::print_with gives {by_meta:?}, Value gives {printed:?}"));
        }
        let by_stripped = locspan::Stripped(meta).print_with(ro.clone()).to_string();
        if by_stripped != printed {
            bad.push(format!("<Stripped<Meta<Value, _>> as Print>::print_with gives {by_stripped:?}, Value gives {printed:?}"));
        }
        // formatting parameters of the caller are ignored or applied to the whole text
        let with_params = format!("{:>7.3}", real.print_with(ro.clone()));
        if with_params != printed && with_params != format!("{:>7.3}", printed) {
            bad.push(format!("Display under {{:>7.3}} gives {with_params:?}, the plain text is {printed:?}"));
        }
        let unit = rp::indent_unit(o);
        for k in 1..=2usize {
            let got = At(real, ro, k).to_string();
            let want = printed.replace('\n', &format!("\n{}", unit.repeat(k)));
            if got != want {
                bad.push(format!("fmt_with at base level {k} gives {got:?}, expected {want:?}"));
            }
        }
        bad
    });
    match r {
        Ok(bad) => {
            for b in bad {
                t.violation("", b, case(rv, o));
            }
        }
        Err(p) => t.violation("", format!("printing through another route panicked: {p}"), case(rv, o)),
    }
}

/// Candidate limits for a record and a value: thresholds straddle the actual widths.
fn limit_candidates(rv: &RV, o: &Opts) -> Vec<Option<Limit>> {
    let mut widths = Vec::new();
    rp::container_widths(rv, o, &mut widths);
    let mut ws: Vec<usize> = vec![0, 1];
    for w in widths {
        ws.push(w.saturating_sub(1));
        ws.push(w);
        ws.push(w + 1);
    }
    ws.sort();
    ws.dedup();
    let mut out = vec![None, Some(Limit::Always)];
    for i in 0..=3 {
        out.push(Some(Limit::Item(i)));
    }
    for &w in &ws {
        out.push(Some(Limit::Width(w)));
    }
    for i in 0..=2 {
        for &w in &ws {
            out.push(Some(Limit::ItemOrWidth(i, w)));
        }
    }
    out
}

fn indents() -> Vec<Indent> {
    let mut v: Vec<Indent> = (0..=4).map(Indent::Spaces).collect();
    v.extend((0..=2).map(Indent::Tabs));
    v
}

/// All records that differ from `base` in at most two of the 15 fields (family ii).
fn for_each_deviation(rv: &RV, base: &Opts, max_fields: usize, f: &mut dyn FnMut(&Opts)) {
    f(base);
    if max_fields == 0 {
        return;
    }
    // field ids: 0..12 numeric, 12 indent, 13 array_limit, 14 object_limit
    let set_numeric = |o: &mut Opts, i: usize, v: usize| {
        *o.numeric_fields()[i] = v;
    };
    let base_numeric: Vec<usize> = {
        let mut b = base.clone();
        b.numeric_fields().iter().map(|x| **x).collect()
    };
    // single deviations and pairs; limits are applied last so their thresholds see the spacing
    let mut first_level: Vec<Opts> = Vec::new();
    for i in 0..12 {
        for v in 0..=3 {
            if v != base_numeric[i] {
                let mut o = base.clone();
                set_numeric(&mut o, i, v);
                first_level.push(o);
            }
        }
    }
    for ind in indents() {
        if ind != base.indent {
            let mut o = base.clone();
            o.indent = ind;
            first_level.push(o);
        }
    }
    // one non-limit field changed
    for o in &first_level {
        f(o);
    }
    // one limit field changed (+ optionally the other limit)
    let lim_variants = |o: &Opts, f: &mut dyn FnMut(&Opts), both: bool| {
        let cands = limit_candidates(rv, o);
        for l in &cands {
            if *l != o.array_limit {
                let mut o2 = o.clone();
                o2.array_limit = *l;
                f(&o2);
                if both {
                    for l2 in &cands {
                        if *l2 != o.object_limit {
                            let mut o3 = o2.clone();
                            o3.object_limit = *l2;
                            f(&o3);
                        }
                    }
                }
            }
            if *l != o.object_limit {
                let mut o2 = o.clone();
                o2.object_limit = *l;
                f(&o2);
            }
        }
    };
    lim_variants(base, f, max_fields >= 2);
    if max_fields < 2 {
        return;
    }
    // pairs: (non-limit, limit)
    for o in &first_level {
        lim_variants(o, f, false);
    }
    // pairs: (non-limit, non-limit) with distinct fields
    for i in 0..12 {
        for vi in 0..=3 {
            if vi == base_numeric[i] {
                continue;
            }
            for j in i + 1..12 {
                for vj in 0..=3 {
                    if vj == base_numeric[j] {
                        continue;
                    }
                    let mut o = base.clone();
                    set_numeric(&mut o, i, vi);
                    set_numeric(&mut o, j, vj);
                    f(&o);
                }
            }
            for ind in indents() {
                if ind != base.indent {
                    let mut o = base.clone();
                    set_numeric(&mut o, i, vi);
                    o.indent = ind;
                    f(&o);
                }
            }
        }
    }
}

fn presets() -> [(&'static str, Opts); 3] {
    [("pretty", Opts::pretty()), ("compact", Opts::compact()), ("inline", Opts::inline())]
}

fn check_presets(rep: &mut Report) {
    // the reference's idea of the presets must be the documented one, i.e. what the real
    // constructors return (they are the documentation of the presets)
    let real = [
        bridge::from_options(&json_syntax::print::Options::pretty()),
        bridge::from_options(&json_syntax::print::Options::compact()),
        bridge::from_options(&json_syntax::print::Options::inline()),
    ];
    for ((name, p), r) in presets().iter().zip(real.iter()) {
        if p != r {
            rep.machinery.push(format!("the reference's {name} preset differs from the crate's: {p:?} vs {r:?}"));
        }
    }
}

fn run_product(rep: &mut Report, mode: Mode, tier: Tier) {
    check_presets(rep);
    print_history(rep, mode);
    let budget = Budget::for_tier(tier, 45, 840);
    let families: Vec<(&str, Vec<RV>, usize)> = vec![
        ("F-shape", f_shape(tier.pick(4, 5)), 2),
        ("F-leaf", f_leaf(2), 2),
        ("F-leaf-3", f_leaf(3).into_iter().filter(|v| v.size() == 3).collect(), tier.pick(1, 2)),
    ];
    for (fname, values, max_fields) in families {
        let n = values.len();
        let items: Vec<(usize, RV)> = values.into_iter().enumerate().collect();
        let t = explore::par_tally(items, |(i, rv), t| {
            if budget.expired() {
                t.outcome("value-skipped:time-cap");
                return;
            }
            let real = bridge::to_value(&rv);
            let mut records = 0u64;
            for (_, base) in presets() {
                for_each_deviation(&rv, &base, max_fields, &mut |o| {
                    check_case(mode, &rv, &real, o, t);
                    records += 1;
                });
            }
            t.nontrivial(&(fname, i));
            t.states += 1;
            if i == n / 2 {
                t.sample(json!({"family": fname, "value": rv.show(), "records_for_this_value": records, "pretty": rp::print(&rv, &Opts::pretty())}));
            }
        });
        if let Some(sk) = t.hist.get("value-skipped:time-cap") {
            rep.exhaustive = false;
            rep.note(format!("{fname}: time cap reached, {sk} of {n} values not covered"));
        }
        rep.bounds[fname] = json!({"values": n, "max_fields_changed_per_record": max_fields, "records": "3 presets + every record differing from a preset in <= max_fields of the 15 fields (numeric 0..3, 8 indent units, limits None/Always/Item(0..3)/Width(w)/ItemOrWidth(0..2,w) with w straddling the actual one-line widths)"});
        rep.absorb(t);
    }
    // S-all: strings mixing every character class, as value and as key, under the presets and
    // every single-field deviation (incl. width thresholds straddling the printed widths)
    {
        let mut strings = s_all(tier.pick(4, 5));
        strings.extend(p_all());
        let n = strings.len();
        let t = explore::par_tally(strings.chunks(64).map(|c| c.to_vec()).collect(), |chunk, t| {
            if budget.expired() {
                t.outcome("value-skipped:time-cap");
                return;
            }
            for s in chunk {
                for rv in string_values(&s) {
                    let real = bridge::to_value(&rv);
                    for (_, base) in presets() {
                        for_each_deviation(&rv, &base, 1, &mut |o| check_case(mode, &rv, &real, o, t));
                    }
                }
                t.nontrivial(&("S-all", s));
                t.states += 1;
            }
        });
        if let Some(sk) = t.hist.get("value-skipped:time-cap") {
            rep.exhaustive = false;
            rep.note(format!("S-all: time cap reached, {sk} chunks of 64 strings not covered"));
        }
        rep.bounds["S-all"] = json!({"strings": n, "max_length": tier.pick(4, 5), "classes": CLASSES.iter().map(|c| RV::Str(c.to_string()).show()).collect::<Vec<_>>(), "as": ["string value", "object key with the string in an array"]});
        rep.absorb(t);
    }
    // C-all: every character of U+0000..U+00FF (all 32 controls individually) and one
    // representative of each wider class, inside containers whose width thresholds straddle
    // the printed width - the width accounting of every escape is exercised on its own
    {
        let mut chars: Vec<char> = (0u32..0x100).filter_map(char::from_u32).collect();
        chars.extend(['\u{7ff}', '\u{800}', '\u{2028}', '\u{2029}', '\u{d7ff}', '\u{e000}', '\u{ffff}', '\u{10000}', '\u{1f600}', '\u{10ffff}']);
        let n = chars.len();
        let t = explore::par_tally(chars, |c, t| {
            let s1 = c.to_string();
            let s2 = format!("a{c}{c}");
            let vals = [
                RV::Arr(vec![RV::Str(s1.clone())]),
                RV::Obj(vec![(s1.clone(), RV::num("0"))]),
                RV::Arr(vec![RV::Str(s2.clone()), RV::Obj(vec![(s2.clone(), RV::Str(s1.clone()))])]),
            ];
            for rv in vals {
                let real = bridge::to_value(&rv);
                for (_, base) in presets() {
                    for_each_deviation(&rv, &base, 1, &mut |o| check_case(mode, &rv, &real, o, t));
                }
            }
            t.nontrivial(&("C-all", c));
            t.states += 1;
        });
        rep.bounds["C-all"] = json!({"characters": n, "rule": "every character U+0000..U+00FF + 10 wider representatives, as array item, object key and nested, under the presets and every single-field deviation with width thresholds straddling the printed widths"});
        rep.absorb(t);
    }
    // pumped linear families: long strings / keys / numbers, long arrays, many (distinct or
    // duplicated) keys, with width thresholds around the (large) actual widths
    {
        let all = refmodel::pump::all(tier == Tier::Thorough);
        let n = all.len();
        let t = explore::par_tally(all, |(fam, k, rv), t| {
            if budget.expired() {
                t.outcome("value-skipped:time-cap");
                return;
            }
            let real = bridge::to_value(&rv);
            let wrapped = RV::Arr(vec![RV::Obj(vec![("w".to_string(), rv.clone())]), RV::Null]);
            let real_wrapped = bridge::to_value(&wrapped);
            for (_, base) in presets() {
                if k <= 300 {
                    for_each_deviation(&rv, &base, 1, &mut |o| check_case(mode, &rv, &real, o, t));
                } else {
                    // big instances: the preset and its limit variants only
                    check_case(mode, &rv, &real, &base, t);
                    for l in limit_candidates(&rv, &base) {
                        let mut o = base.clone();
                        o.array_limit = l;
                        o.object_limit = l;
                        check_case(mode, &rv, &real, &o, t);
                    }
                }
                check_case(mode, &wrapped, &real_wrapped, &base, t);
                // array and object limits of different *nature* (none / always / item count on
                // one side, a width on the other, thresholds far from and near the actual width)
                // around a long scalar sitting directly in an object, in an array, and in both
                if base == Opts::pretty() && !rv.is_container() && (k <= 136 || matches!(k % 16, 0 | 1 | 15)) && k <= 1100 {
                    let kinds = [None, Some(Limit::Always), Some(Limit::Item(1)), Some(Limit::Item(100)), Some(Limit::Width(8)), Some(Limit::Width(k + 40)), Some(Limit::Width(100_000)), Some(Limit::ItemOrWidth(1, 8)), Some(Limit::ItemOrWidth(100, 100_000))];
                    let in_obj = RV::Obj(vec![("k".to_string(), rv.clone())]);
                    let in_arr = RV::Arr(vec![rv.clone()]);
                    let shapes = [(in_obj.clone(), bridge::to_value(&in_obj)), (in_arr.clone(), bridge::to_value(&in_arr)), (wrapped.clone(), real_wrapped.clone())];
                    for a in &kinds {
                        for b in &kinds {
                            let mut o = base.clone();
                            o.array_limit = a.clone();
                            o.object_limit = b.clone();
                            for (srv, sreal) in &shapes {
                                check_case(mode, srv, sreal, &o, t);
                            }
                        }
                    }
                }
                for w in [254usize, 255, 256, 257, 65534, 65535, 65536, 65537] {
                    let mut o = base.clone();
                    o.array_limit = Some(Limit::Width(w));
                    o.object_limit = Some(Limit::ItemOrWidth(w, w));
                    check_case(mode, &wrapped, &real_wrapped, &o, t);
                }
            }
            t.nontrivial(&(format!("{fam:?}"), k));
            t.states += 1;
            t.outcome(&format!("pumped:{fam:?}"));
        });
        if let Some(sk) = t.hist.get("value-skipped:time-cap") {
            rep.exhaustive = false;
            rep.note(format!("pumped families: time cap reached, {sk} of {n} values not covered"));
        }
        rep.bounds["pumped-families"] = json!({"values": n, "thresholds": "0..=40 and 2^k +- 1 up to 4 097 (quick) / 65 537 (thorough)", "extra_width_limits": [254, 255, 256, 257, 65534, 65535, 65536, 65537]});
        rep.absorb(t);
    }
    // P2-all: every ordered pair of neighbouring characters (all printable ASCII, two controls,
    // 2-, 3- and 4-byte characters) at every offset 0..=8 of a filler string, so that the pair
    // falls in every position of an 8- or 16-byte block and straddles its boundaries; as an array
    // item and as a key, under width limits that straddle the printed width (a width miscounted
    // by one changes the layout)
    {
        let mut alpha: Vec<char> = (0x20u8..0x7f).map(|b| b as char).collect();
        alpha.extend(['\u{1}', '\n', '\u{7f}', '\u{e9}', '\u{20ac}', '\u{1f600}']);
        let n = alpha.len();
        let offsets: Vec<usize> = if tier == Tier::Quick { vec![0, 3, 6, 7, 8] } else { (0..=9).collect() };
        let items: Vec<(usize, usize)> = (0..n).flat_map(|a| offsets.iter().map(move |&o| (a, o))).collect();
        let alpha2 = alpha.clone();
        let t = explore::par_tally(items, |(a, off), t| {
            for &y in &alpha2 {
                let x = alpha2[a];
                let s: String = format!("{}{x}{y}{}", "m".repeat(off), "w".repeat(7));
                let rv = RV::Arr(vec![RV::Str(s.clone()), RV::Obj(vec![(s.clone(), RV::Null)])]);
                let real = bridge::to_value(&rv);
                let base = Opts::pretty();
                check_case(mode, &rv, &real, &base, t);
                for l in limit_candidates(&rv, &base) {
                    if matches!(l, Some(Limit::Width(_))) {
                        let mut o = base.clone();
                        o.array_limit = l;
                        o.object_limit = l;
                        check_case(mode, &rv, &real, &o, t);
                    }
                }
            }
            t.nontrivial(&("P2-all", a, off));
            t.states += 1;
            t.outcome("pairs of neighbouring characters");
        });
        rep.bounds["P2-all"] = json!({"alphabet": n, "ordered_pairs": n * n, "offsets": offsets, "records": "pretty + every straddling width limit"});
        rep.absorb(t);
    }
    // free-running concurrency pass (sampled schedules): eight threads print at the same time
    {
        let vals: Vec<RV> = f_shape(3).into_iter().chain([RV::Str("a string longer than sixteen bytes \u{1}\u{e9}\"".into()), RV::Obj(vec![("k\n".into(), RV::Arr(vec![RV::num("1.5e3"), RV::Str("\u{1f600}".into())]))])]).collect();
        let reals: Vec<Value> = vals.iter().map(bridge::to_value).collect();
        let recs: Vec<json_syntax::print::Options> = presets().iter().map(|(_, o)| bridge::to_options(o)).collect();
        let n = reals.len() * recs.len();
        let mut t = Tally::new();
        match explore::concurrent_agreement(8, 4, n, |i| reals[i / recs.len()].print_with(recs[i % recs.len()].clone()).to_string()) {
            Ok(k) => {
                t.evals += k;
                t.outcome("concurrent prints agree with sequential ones (sampled schedules)");
            }
            Err(e) => t.violation("", format!("output differs when 8 threads print at the same time: {e}"), json!({"kind": "concurrent"})),
        }
        rep.bounds["concurrent"] = json!({"threads": 8, "rounds": 4, "cases": n, "schedules": "free-running (sampled, not enumerated)"});
        rep.absorb(t);
    }
    // thread life cycle: printing from the destructor of a thread-local while the thread exits,
    // with the harness's thread-local registered before / after the thread's first print
    {
        let vals: Vec<RV> = vec![RV::Str("x\n".into()), RV::Arr(vec![RV::num("1"), RV::Obj(vec![("k".into(), RV::Arr(vec![]))])]), RV::Obj(vec![("a-key-longer-than-sixteen-bytes".into(), RV::Null)])];
        let mut t = Tally::new();
        for rv in &vals {
            for hook_first in [true, false] {
                for warm in [true, false] {
                    t.evals += 1;
                    let real = bridge::to_value(rv);
                    let warm_real = real.clone();
                    let want = (rp::compact(rv), real.pretty_print().to_string());
                    let got = explore::run_at_thread_exit(
                        hook_first,
                        move || {
                            if warm {
                                let _ = warm_real.to_string();
                                let _ = warm_real.pretty_print().to_string();
                            }
                        },
                        move || (real.to_string(), real.pretty_print().to_string()),
                    );
                    if got.as_ref() != Ok(&want) {
                        t.violation("", format!("printing {} from a thread-local destructor at thread exit (hook registered {} the first print, thread {}) gives {got:?}", rv.show(), if hook_first { "before" } else { "after" }, if warm { "had printed before" } else { "had not printed before" }), case(rv, &Opts::pretty()));
                    }
                }
            }
        }
        t.outcome("printing at thread exit");
        rep.bounds["thread-exit"] = json!({"values": vals.len(), "hook_order": 2, "thread_had_printed": 2});
        rep.absorb(t);
    }
    // a destination that fails: printing into a writer that accepts only k bytes (every k below
    // the length of the output) must report the error, and the next print on the same thread
    // must be unaffected by whatever the failed one left behind
    {
        struct Limited(usize, String);
        impl std::fmt::Write for Limited {
            fn write_str(&mut self, s: &str) -> std::fmt::Result {
                if self.1.len() + s.len() > self.0 {
                    return Err(std::fmt::Error);
                }
                self.1.push_str(s);
                Ok(())
            }
        }
        let vals: Vec<RV> = vec![
            RV::Str("json-syntax".into()),
            RV::Obj(vec![("key \"k\"".into(), RV::Arr(vec![RV::Str("v\n".into()), RV::num("12.5e3"), RV::Null]))]),
            RV::Arr(vec![RV::Str("\u{1}\u{e9}".repeat(20)), RV::Obj(vec![])]),
        ];
        let probe = RV::Arr(vec![RV::Str("x".into()), RV::Obj(vec![("y".into(), RV::num("1"))])]);
        let probe_real = bridge::to_value(&probe);
        let mut t = Tally::new();
        for rv in &vals {
            let real = bridge::to_value(rv);
            for (oname, o) in presets() {
                let ro = bridge::to_options(&o);
                let full = real.print_with(ro.clone()).to_string();
                let probe_want = probe_real.print_with(ro.clone()).to_string();
                for k in 0..full.len() {
                    t.evals += 1;
                    let r = explore::guard(|| {
                        use std::fmt::Write;
                        let mut w = Limited(k, String::new());
                        let res = write!(w, "{}", real.print_with(ro.clone()));
                        let after = probe_real.print_with(ro.clone()).to_string();
                        let after2 = probe_real.to_string();
                        (res.is_err(), w.1, after, after2)
                    });
                    match r {
                        Ok((failed, partial, after, after2)) => {
                            if !failed {
                                t.violation("", format!("printing {} bytes into a writer that accepts {k} did not report an error", full.len()), case(rv, &o));
                            }
                            if !full.starts_with(&partial) {
                                t.violation("", format!("the bytes written before the failure {partial:?} are not a prefix of the output {full:?}"), case(rv, &o));
                            }
                            if after != probe_want || after2 != rp::compact(&probe) {
                                t.violation("", format!("after a print into a failing writer (limit {k}, preset {oname}) the next print on the thread gives {after:?} / {after2:?}"), case(rv, &o));
                            }
                        }
                        Err(p) => t.violation("", format!("printing into a failing writer panicked: {p}"), case(rv, &o)),
                    }
                }
            }
            t.nontrivial(&("failing-writer", rv.show()));
        }
        t.outcome("failing writer, then a normal print");
        rep.bounds["failing-writer"] = json!({"values": vals.len(), "records": 3, "limits": "every k below the output length"});
        rep.absorb(t);
    }
    // every numeric option field through a dense range: 0..=136, every multiple of 16 with its
    // neighbours up to 1 025 (a padding of n blanks is one more size parameter, and buffers and
    // chunk sizes in a printer need not be powers of two), on records with and without
    // expansion, on values that print every kind of padding
    {
        let sizes = refmodel::pump::thresholds(1025);
        let vals: Vec<RV> = vec![
            RV::Arr(vec![]),
            RV::Obj(vec![]),
            RV::Arr(vec![RV::num("1"), RV::num("2")]),
            RV::Obj(vec![("a".to_string(), RV::num("1")), ("b".to_string(), RV::Arr(vec![]))]),
            RV::Arr(vec![RV::Arr(vec![RV::Null]), RV::Obj(vec![("k".to_string(), RV::Obj(vec![]))])]),
        ];
        let reals: Vec<Value> = vals.iter().map(bridge::to_value).collect();
        let mut always = Opts::pretty();
        always.array_limit = Some(Limit::Always);
        always.object_limit = Some(Limit::Always);
        let mut wide = Opts::pretty();
        wide.array_limit = Some(Limit::Width(100_000));
        wide.object_limit = Some(Limit::Item(10));
        let bases = [Opts::compact(), Opts::pretty(), always, wide];
        let items: Vec<(usize, usize)> = (0..12).flat_map(|f| sizes.iter().map(move |&n| (f, n))).collect();
        let count = items.len();
        let t = explore::par_tally(items, |(field, n), t| {
            for base in &bases {
                let mut o = base.clone();
                *o.numeric_fields()[field] = n;
                for (rv, real) in vals.iter().zip(&reals) {
                    check_case(mode, rv, real, &o, t);
                }
            }
            t.nontrivial(&("field", field, n));
            t.states += 1;
            t.outcome("pumped:option field");
        });
        rep.bounds["option-fields"] = json!({"fields": 12, "values_per_field": sizes.len(), "base_records": 4, "values": vals.len(), "cases": count * 4 * vals.len()});
        rep.absorb(t);
    }
    // depth x indentation: values nested d deep (alternating arrays and objects, a sibling leaf
    // at every level) under every indent unit, with containers expanded at every level and
    // with the pretty limits - the indentation of a line is depth x unit, two parameters at once
    {
        use refmodel::print::Indent;
        let mut depths: Vec<usize> = (1..=40).collect();
        depths.extend([47, 48, 49, 63, 64, 65, 85, 86, 127, 128, 129]);
        // (257, 258, 259 with the unit 255: the longest indentation run crosses 65 535 characters,
        // the limit of a run-time width in a format string; 128, 129 with 254 / 255: 32 767)
        depths.extend([257, 258, 259]);
        if tier == Tier::Thorough {
            depths.extend([255, 256, 511, 512, 513, 1023, 1024, 1025]);
        }
        let mut units: Vec<Indent> = (0..=9).map(Indent::Spaces).collect();
        units.extend([Indent::Spaces(15), Indent::Spaces(16), Indent::Spaces(17), Indent::Spaces(63), Indent::Spaces(64), Indent::Spaces(65), Indent::Spaces(254), Indent::Spaces(255)]);
        units.extend((0..=5).map(Indent::Tabs));
        units.extend([Indent::Tabs(8), Indent::Tabs(254), Indent::Tabs(255)]);
        let nd = depths.len();
        let nu = units.len();
        let t = explore::par_tally(depths, |d, t| {
            let mut rv = RV::num("0");
            for level in (0..d).rev() {
                rv = if level % 2 == 0 { RV::Arr(vec![RV::Bool(true), rv]) } else { RV::Obj(vec![("k".to_string(), rv), ("l".to_string(), RV::Null)]) };
            }
            let real = bridge::to_value(&rv);
            for &u in &units {
                // a large unit at a large depth is quadratic in the output: bound the product
                let n = match u {
                    Indent::Spaces(n) | Indent::Tabs(n) => n as usize,
                };
                // (... except where the product straddles 2^15 or 2^16)
                let straddles = (n >= 254 && (128..=129).contains(&d)) || (n == 255 && (257..=259).contains(&d)) || (n == 64 && (1023..=1025).contains(&d));
                if n * d > 40_000 && !straddles {
                    continue;
                }
                let mut o = Opts::pretty();
                o.indent = u;
                check_case(mode, &rv, &real, &o, t);
                o.array_limit = Some(Limit::Always);
                o.object_limit = Some(Limit::Always);
                check_case(mode, &rv, &real, &o, t);
            }
            t.nontrivial(&("depth", d));
            t.states += 1;
            t.outcome("pumped:depth x indent");
        });
        rep.bounds["depth-x-indent"] = json!({"depths": nd, "indent_units": nu, "records": ["pretty", "pretty with Limit::Always"]});
        rep.absorb(t);
    }
    // thorough: the full {0,1}^12 grid x 3 indents x limits on F-shape size <= 4
    if tier == Tier::Thorough && !budget.expired() {
        let values = f_shape(4);
        let n = values.len();
        let items: Vec<(usize, RV)> = values.into_iter().enumerate().collect();
        let lims = |rv: &RV, o: &Opts| -> Vec<Option<Limit>> {
            let mut widths = Vec::new();
            rp::container_widths(rv, o, &mut widths);
            let w = widths.first().copied().unwrap_or(2);
            vec![None, Some(Limit::Always), Some(Limit::Item(1)), Some(Limit::Width(w.saturating_sub(1))), Some(Limit::Width(w)), Some(Limit::ItemOrWidth(2, w))]
        };
        let t = explore::par_tally(items, |(i, rv), t| {
            if budget.expired() {
                t.outcome("value-skipped:time-cap");
                return;
            }
            if !rv.is_container() {
                return;
            }
            let real = bridge::to_value(&rv);
            for bits in 0u32..4096 {
                let mut o = Opts::compact();
                for (k, f) in o.numeric_fields().into_iter().enumerate() {
                    *f = ((bits >> k) & 1) as usize;
                }
                for ind in [Indent::Spaces(0), Indent::Spaces(1), Indent::Tabs(1)] {
                    o.indent = ind;
                    let ls = lims(&rv, &o);
                    for la in &ls {
                        for lo in &ls {
                            o.array_limit = *la;
                            o.object_limit = *lo;
                            check_case(mode, &rv, &real, &o, t);
                        }
                    }
                }
            }
            t.nontrivial(&("grid", i));
        });
        if let Some(sk) = t.hist.get("value-skipped:time-cap") {
            rep.exhaustive = false;
            rep.note(format!("grid: time cap reached, {sk} of {n} values not covered"));
        }
        rep.bounds["grid"] = json!({"values": n, "numeric_fields": "all 12 in {0,1}", "indents": 3, "limit_pairs": 36});
        rep.absorb(t);
    }
    // the inline and compact presets never emit a line break (C13), on every value incl. F-leaf
    if mode == Mode::C13 {
        let mut t = Tally::new();
        for rv in f_shape(4).iter().chain(f_leaf(2).iter()) {
            let real = bridge::to_value(rv);
            for (name, s) in [("inline_print", real.inline_print().to_string()), ("compact_print", real.compact_print().to_string())] {
                t.evals += 1;
                if s.contains('\n') {
                    t.violation("", format!("{name} emitted a line break: {s:?}"), case(rv, &Opts::inline()));
                }
            }
            let p = real.pretty_print().to_string();
            if p != rp::print(rv, &Opts::pretty()) {
                t.violation("", format!("pretty_print differs from print_with(pretty): {p:?}"), case(rv, &Opts::pretty()));
            }
        }
        rep.absorb(t);
    }
}

/// No byte outside string literals is whitespace; separators are only `,` and `:`.
/// Print history on one thread (C04, C08, C13): a first print - of any of four values under any
/// of four records - into a destination that works, that answers an error after k bytes, or that
/// *panics* after k bytes (caught), followed on the same, otherwise fresh thread by prints of two
/// probe values through every compact route and under every record. What the probes print must
/// not depend on what happened before: compact routes give the reference compact text (C08),
/// every record gives the reference layout (C13), and everything parses back to the probe (C04).
fn print_history(rep: &mut Report, mode: Mode) {
    struct Dest {
        limit: usize,
        panics: bool,
        out: String,
        /// a destination that *re-enters* the printer: on every chunk it prints this value
        /// (compact and pretty) on the same thread, as a tee or logging writer would
        reenter: Option<Value>,
        inner: Vec<(String, String)>,
    }
    impl std::fmt::Write for Dest {
        fn write_str(&mut self, s: &str) -> std::fmt::Result {
            if let Some(v) = &self.reenter {
                self.inner.push((v.to_string(), v.pretty_print().to_string()));
            }
            if self.out.len() + s.len() > self.limit {
                if self.panics {
                    panic!("the destination panics");
                }
                return Err(std::fmt::Error);
            }
            self.out.push_str(s);
            Ok(())
        }
    }
    let n = |s: &str| RV::num(s);
    let firsts: Vec<RV> = vec![
        RV::Arr(vec![RV::Arr(vec![n("1"), n("2")]), RV::Arr(vec![n("3"), n("4")])]),
        RV::Obj(vec![("key \"k\"".into(), RV::Arr(vec![RV::Str("v\n".into()), n("12.5e3"), RV::Null])), ("o".into(), RV::Obj(vec![("p".into(), RV::Arr(vec![]))]))]),
        RV::Arr(vec![RV::Str("\u{1}\u{e9}".repeat(30)), RV::Obj(vec![]), RV::Arr(vec![RV::Arr(vec![RV::Arr(vec![n("0")])])])]),
        RV::Str("a string".into()),
    ];
    let probes: Vec<RV> = vec![RV::Arr(vec![RV::Str("x".into()), RV::Obj(vec![("y".into(), n("1"))])]), RV::Obj(vec![("a".into(), RV::Arr(vec![n("1"), n("2")])), ("b".into(), RV::Arr(vec![RV::Arr(vec![])]))])];
    let mut always = Opts::pretty();
    always.array_limit = Some(Limit::Always);
    always.object_limit = Some(Limit::Always);
    let records: Vec<(&str, Opts)> = vec![("pretty", Opts::pretty()), ("compact", Opts::compact()), ("inline", Opts::inline()), ("pretty, always expanded", always)];
    // (first value, record of the first print): one work item each
    let items: Vec<(usize, usize)> = (0..firsts.len()).flat_map(|i| (0..records.len()).map(move |j| (i, j))).collect();
    let t = explore::par_tally(items, |(i, j), t| {
        let first_real = bridge::to_value(&firsts[i]);
        let ro = bridge::to_options(&records[j].1);
        let full = first_real.print_with(ro.clone()).to_string();
        let mut ks: Vec<usize> = (0..full.len().min(96)).collect();
        ks.extend((96..full.len()).step_by(7));
        ks.push(usize::MAX);
        for k in ks {
            for panics in [false, true] {
                t.evals += 1;
                let (first_real, ro, probes2, records2) = (first_real.clone(), ro.clone(), probes.clone(), records.clone());
                let h = std::thread::spawn(move || {
                    let first = std::panic::catch_unwind(std::panic::AssertUnwindSafe(|| {
                        use std::fmt::Write;
                        let mut d = Dest { limit: k, panics, out: String::new(), reenter: None, inner: Vec::new() };
                        let _ = write!(d, "{}", first_real.print_with(ro.clone()));
                    }));
                    let _ = first;
                    let mut seen: Vec<(usize, String, Result<String, String>)> = Vec::new();
                    for (pi, p) in probes2.iter().enumerate() {
                        let real = bridge::to_value(p);
                        seen.push((pi, "to_string()".into(), explore::guard(|| real.to_string())));
                        seen.push((pi, "compact_print()".into(), explore::guard(|| real.compact_print().to_string())));
                        seen.push((pi, "String::from(value)".into(), explore::guard(|| String::from(real.clone()))));
                        for (name, o) in &records2 {
                            let ro = bridge::to_options(o);
                            seen.push((pi, format!("print_with({name})"), explore::guard(|| real.print_with(ro.clone()).to_string())));
                        }
                    }
                    seen
                });
                let what = format!("after printing {} under the record [{}] into a destination that {} after {} bytes", firsts[i].show(), records[j].0, if panics { "panics" } else { "fails" }, if k == usize::MAX { "no number of".to_string() } else { k.to_string() });
                let case = json!({"kind": "print-history", "first": firsts[i].show(), "record": records[j].0, "limit": k, "panics": panics});
                let seen = match h.join() {
                    Ok(s) => s,
                    Err(_) => {
                        t.violation("", format!("{what}: the thread died"), case);
                        continue;
                    }
                };
                for (pi, route, got) in seen {
                    let probe = &probes[pi];
                    let got = match got {
                        Ok(g) => g,
                        Err(p) => {
                            t.violation("", format!("{what}, {route} of {} on the same thread panicked: {p}", probe.show()), case.clone());
                            continue;
                        }
                    };
                    let rec = records.iter().find(|(name, _)| route == format!("print_with({name})")).map(|(_, o)| o.clone());
                    let bad = match mode {
                        Mode::C08 => rec.is_none() && got != rp::compact(probe),
                        Mode::C13 => got != rec.as_ref().map(|o| rp::print(probe, o)).unwrap_or_else(|| rp::compact(probe)),
                        Mode::C04 => !matches!(Value::parse_str(&got), Ok((back, _)) if back == bridge::to_value(probe)),
                    };
                    if bad {
                        t.violation("", format!("{what}, {route} of {} on the same thread gives {got:?}", probe.show()), case.clone());
                    }
                }
            }
        }
        // a destination that re-enters the printer on every chunk it receives
        for (pi, probe) in probes.iter().enumerate() {
            t.evals += 1;
            let probe_real = bridge::to_value(probe);
            let (fr, ro2, pr) = (first_real.clone(), ro.clone(), probe_real.clone());
            let h = std::thread::spawn(move || {
                std::panic::catch_unwind(std::panic::AssertUnwindSafe(|| {
                    use std::fmt::Write;
                    let mut d = Dest { limit: usize::MAX, panics: false, out: String::new(), reenter: Some(pr), inner: Vec::new() };
                    let ok = write!(d, "{}", fr.print_with(ro2)).is_ok();
                    (ok, d.out, d.inner)
                }))
                .map_err(|p| p.downcast_ref::<String>().cloned().or_else(|| p.downcast_ref::<&str>().map(|s| s.to_string())).unwrap_or_default())
            });
            let case = json!({"kind": "print-history", "first": firsts[i].show(), "record": records[j].0, "reentrant_probe": pi});
            let what = format!("printing {} under the record [{}] into a destination that prints {} itself on every chunk", firsts[i].show(), records[j].0, probe.show());
            match h.join() {
                Ok(Ok((ok, out, inner))) => {
                    let inner_bad = inner.iter().find(|(c, p)| match mode {
                        Mode::C08 => *c != rp::compact(probe),
                        Mode::C13 => *c != rp::compact(probe) || *p != rp::print(probe, &Opts::pretty()),
                        Mode::C04 => [c, p].iter().any(|x| !matches!(Value::parse_str(x), Ok((back, _)) if back == probe_real)),
                    });
                    let outer_bad = !ok
                        || match mode {
                            Mode::C08 => records[j].1 == Opts::compact() && out != rp::compact(&firsts[i]),
                            Mode::C13 => out != rp::print(&firsts[i], &records[j].1),
                            Mode::C04 => !matches!(Value::parse_str(&out), Ok((back, _)) if back == first_real),
                        };
                    if let Some((c, p)) = inner_bad {
                        t.violation("", format!("{what}: the inner prints give {c:?} / {p:?}"), case.clone());
                    }
                    if outer_bad {
                        t.violation("", format!("{what}: the outer print gives {out:?} (completed: {ok})"), case);
                    }
                }
                Ok(Err(p)) => t.violation("", format!("{what}: panicked: {p}"), case),
                Err(_) => t.violation("", format!("{what}: the thread died"), case),
            }
        }
        t.nontrivial(&("print-history", i, j));
        t.outcome("print history: probes unaffected by an earlier (failed, panicked or completed) print");
    });
    rep.bounds["print_history"] = json!({"first_values": firsts.len(), "records": records.len(), "destinations": ["fails after k bytes", "panics after k bytes", "accepts everything", "prints another value itself on every chunk (re-entrant)"], "k": "every k < 96, then every 7th", "probes": probes.len(), "routes_per_probe": 7, "fresh_thread_per_case": true});
    rep.absorb(t);
}

fn no_whitespace_outside_strings(s: &str) -> bool {
    let mut in_str = false;
    let mut esc = false;
    for c in s.chars() {
        if in_str {
            if esc {
                esc = false;
            } else if c == '\\' {
                esc = true;
            } else if c == '"' {
                in_str = false;
            }
        } else if c == '"' {
            in_str = true;
        } else if c.is_whitespace() {
            return false;
        }
    }
    true
}

fn c08_value(rv: &RV, t: &mut Tally) {
    let real = bridge::to_value(rv);
    let want = rp::compact(rv);
    t.evals += 1;
    let forms = match explore::guard(|| {
        [
            ("compact_print().to_string()", real.compact_print().to_string()),
            ("to_string()", real.to_string()),
            ("format!(\"{}\")", format!("{}", real)),
            ("String::from(value)", String::from(real.clone())),
            ("print_with(Options::compact())", real.print_with(json_syntax::print::Options::compact()).to_string()),
        ]
    }) {
        Ok(f) => f,
        Err(p) => {
            t.violation("", format!("compact printing panicked: {p}"), json!({"kind": "compact", "value": rv.show()}));
            return;
        }
    };
    // Display under formatting parameters of the caller (width, fill, alignment, precision):
    // the output is one piece of text - the parameters are either ignored or applied to the
    // compact text as a whole; applied piecewise they change strings and break escapes
    macro_rules! spec {
        ($fmt:literal) => {{
            t.evals += 2;
            match explore::guard(|| (format!($fmt, real), format!($fmt, real.compact_print()))) {
                Ok((a, b)) => {
                    let whole = format!($fmt, want.as_str());
                    for (name, got) in [("Display", a), ("compact_print() Display", b)] {
                        if got != want && got != whole {
                            t.violation("", format!("{name} under {:?} = {got:?}: neither the compact text {want:?} nor that text formatted as a whole", $fmt), json!({"kind": "compact", "value": rv.show()}));
                        }
                    }
                }
                Err(p) => t.violation("", format!("Display under {:?} panicked: {p}", $fmt), json!({"kind": "compact", "value": rv.show()})),
            }
        }};
    }
    spec!("{:4}");
    spec!("{:>30}");
    spec!("{:.1}");
    spec!("{:*^9.3}");
    spec!("{:#}");
    spec!("{:08}");
    for (name, got) in forms {
        if got != want {
            t.violation("", format!("{name} = {got:?}, reference serializer gives {want:?}"), json!({"kind": "compact", "value": rv.show()}));
        } else if !no_whitespace_outside_strings(&got) {
            t.violation("", format!("{name} = {got:?} contains whitespace outside strings"), json!({"kind": "compact", "value": rv.show()}));
        }
    }
}

/// C08 at thread exit: compact printing from the destructor of a thread-local.
fn c08_thread_exit(rep: &mut Report) {
    let vals: Vec<RV> = vec![RV::Str("x\n\u{1}".into()), RV::Arr(vec![RV::num("1"), RV::Obj(vec![("k".into(), RV::Arr(vec![]))])]), RV::Obj(vec![("a-key-longer-than-sixteen-bytes".into(), RV::Null)])];
    let mut t = Tally::new();
    for rv in &vals {
        for hook_first in [true, false] {
            for warm in [true, false] {
                t.evals += 1;
                let real = bridge::to_value(rv);
                let warm_real = real.clone();
                let want = rp::compact(rv);
                let got = explore::run_at_thread_exit(
                    hook_first,
                    move || {
                        if warm {
                            let _ = warm_real.to_string();
                        }
                    },
                    move || (real.to_string(), real.compact_print().to_string(), String::from(real.clone())),
                );
                if got.as_ref() != Ok(&(want.clone(), want.clone(), want.clone())) {
                    t.violation("", format!("compact printing of {} from a thread-local destructor at thread exit (hook registered {} the first print, thread {}) gives {got:?}", rv.show(), if hook_first { "before" } else { "after" }, if warm { "had printed before" } else { "had not printed before" }), json!({"kind": "compact", "value": rv.show()}));
                }
            }
        }
    }
    t.outcome("compact printing at thread exit");
    rep.bounds["thread-exit"] = json!({"values": vals.len(), "hook_order": 2, "thread_had_printed": 2});
    rep.absorb(t);
}

fn run_c08(rep: &mut Report, tier: Tier) {
    c08_thread_exit(rep);
    print_history(rep, Mode::C08);
    // every Unicode scalar value as a one-character string, as key and value, and in an array
    let blocks: Vec<u32> = (0..0x110000u32 / 0x400).collect();
    let t = explore::par_tally(blocks, |b, t| {
        for cp in b * 0x400..(b + 1) * 0x400 {
            if let Some(c) = char::from_u32(cp) {
                let s = c.to_string();
                c08_value(&RV::Str(s.clone()), t);
                c08_value(&RV::Obj(vec![(s.clone(), RV::Str(s.clone()))]), t);
                c08_value(&RV::Arr(vec![RV::Str(format!("a{s}{s}")), RV::Null]), t);
                t.nontrivial(&cp);
                t.outcome(match cp {
                    0x22 | 0x5c => "char:quote-or-backslash",
                    0x08 | 0x09 | 0x0a | 0x0c | 0x0d => "char:short-escape",
                    0..=0x1f => "char:\\u00xx",
                    0x20..=0x7e => "char:ascii",
                    0x7f..=0xffff => "char:bmp-raw",
                    _ => "char:supplementary-raw",
                });
            }
        }
    });
    rep.absorb(t);
    let mut strings = s_all(tier.pick(5, 6));
    strings.extend(p_all());
    let ns = strings.len();
    let t = explore::par_tally(strings.chunks(256).map(|c| c.to_vec()).collect(), |chunk, t| {
        for s in chunk {
            for rv in string_values(&s) {
                c08_value(&rv, t);
            }
            t.nontrivial(&("S-all", s));
            t.outcome("string over the character classes");
        }
    });
    rep.absorb(t);
    rep.bounds["S-all"] = json!({"strings": ns, "max_length": tier.pick(5, 6), "classes": CLASSES.len()});
    let all = refmodel::pump::all(tier == Tier::Thorough);
    let t = explore::par_tally(all, |(fam, k, rv), t| {
        c08_value(&rv, t);
        t.nontrivial(&(format!("{fam:?}"), k));
        t.outcome("pumped value");
    });
    rep.absorb(t);
    let vals: Vec<RV> = f_shape(tier.pick(4, 5)).into_iter().chain(f_leaf(tier.pick(2, 3))).collect();
    let n = vals.len();
    let t = explore::par_tally(vals.into_iter().enumerate().collect(), |(i, rv): (usize, RV), t| {
        c08_value(&rv, t);
        t.nontrivial(&("value", i));
        t.outcome("structured value");
    });
    rep.absorb(t);
    rep.tally.sample(json!({"scalar": "U+2028", "printed": bridge::to_value(&RV::Str("\u{2028}".into())).to_string()}));
    rep.tally.sample(json!({"value": RV::Str(NASTY.into()).show(), "printed": bridge::to_value(&RV::Str(NASTY.into())).to_string()}));
    rep.bounds["scalars"] = json!({"scalars": 1112064, "contexts_per_scalar": 3, "structured_values": n});
}

fn replay(args: &Args, path: &std::path::Path) -> i32 {
    let j: J = explore::serde_json::from_str(&std::fs::read_to_string(path).expect("read")).expect("json");
    let c = &j["case"];
    let text = c["value"].as_str().unwrap_or("null");
    // the evidence rendering escapes a few characters with \u, which the parser decodes back
    let rv = match Value::parse_str(text) {
        Ok((v, _)) => bridge::from_value(&v),
        Err(e) => {
            println!("cannot parse the recorded value: {e}");
            return 2;
        }
    };
    let mut t = Tally::new();
    match args.property.as_str() {
        "C08" => c08_value(&rv, &mut t),
        p => {
            let o = match opts_from_json(&c["options"]) {
                Some(o) => o,
                None => {
                    println!("cannot decode the recorded options");
                    return 2;
                }
            };
            check_case(if p == "C04" { Mode::C04 } else { Mode::C13 }, &rv, &bridge::to_value(&rv), &o, &mut t);
        }
    }
    if t.violation_count == 0 {
        println!("replay: the case passes on the current tree");
        0
    } else {
        for v in &t.violations {
            println!("replay: {}", v.what);
        }
        println!("VIOLATION property={} replay={}", args.property, path.display());
        1
    }
}

fn main() {
    let args = Args::parse();
    explore::quiet_panics();
    explore::init_threads();
    if let Some(p) = &args.replay {
        std::process::exit(replay(&args, p));
    }
    let code = match args.property.as_str() {
        "C04" => {
            let mut rep = Report::new(&args, "exploration", "E-ENUM: all values up to a node bound x all option records within 2 field deviations of a preset (+ full grid, thorough)");
            run_product(&mut rep, Mode::C04, args.tier);
            // every Unicode scalar as a one-character string, compact preset
            let blocks: Vec<u32> = (0..0x110000u32 / 0x400).collect();
            let t = explore::par_tally(blocks, |b, t| {
                for cp in b * 0x400..(b + 1) * 0x400 {
                    if let Some(c) = char::from_u32(cp) {
                        let rv = RV::Obj(vec![(c.to_string(), RV::Arr(vec![RV::Str(c.to_string())]))]);
                        let real = bridge::to_value(&rv);
                        check_case(Mode::C04, &rv, &real, &Opts::compact(), t);
                        if cp % 16 == 0 {
                            check_case(Mode::C04, &rv, &real, &Opts::pretty(), t);
                        }
                    }
                }
            });
            rep.absorb(t);
            rep.bounds["scalars"] = json!({"every_unicode_scalar_as_key_and_string": 1112064});
            rep.rule = "every value with at most N nodes over the shape alphabet (leaves 0, \"ab\", null; keys a, bb) and the rich alphabet (8 leaves incl. heap-spilled numbers and a string of escapes/controls/U+2028/non-BMP/U+FFFF; keys incl. the empty key and that string), crossed with the three presets and every record differing from a preset in at most two of the 15 fields, thresholds straddling the actual one-line widths; each case prints with the real printer and re-parses with the real parser; distinct = distinct values (each crossed with all its records)".into();
            rep.assumptions.push("relies on C01/C02 for the parser used to re-read the output".into());
            rep.finish()
        }
        "C13" => {
            let mut rep = Report::new(&args, "exploration", "E-ENUM: values x option records, byte-for-byte against the reference layout printer");
            run_product(&mut rep, Mode::C13, args.tier);
            rep.rule = "same product as C04; the output must equal R-print (DESIGN A.5) byte for byte: one line iff all children are on one line and the item/width limits hold for the characters actually printed (array fields for arrays, object fields for objects, the dedicated empty spacing for empty containers), otherwise one child per line indented by depth x unit; distinct = distinct values".into();
            rep.assumptions.push("points the documentation leaves open (spacing printed in expanded form, expanded empty containers) follow the current behaviour (DESIGN A.5)".into());
            rep.finish()
        }
        "C08" => {
            let mut rep = Report::new(&args, "exploration", "E-ENUM: complete character domain + structured values against the reference compact serializer");
            run_c08(&mut rep, args.tier);
            rep.rule = "every Unicode scalar value (complete, 1 112 064) as a one-character string, as key and value of an object, and inside an array string, plus every structured value of the C04 families; five ways of obtaining the compact form (compact_print, to_string, Display, String::from, print_with(compact)) must be byte-identical to the reference RFC 8785 serializer and contain no whitespace outside strings; distinct = distinct scalars / values".into();
            rep.finish()
        }
        other => {
            eprintln!("chk-print does not serve {other}");
            2
        }
    };
    std::process::exit(code);
}
