//! chk-macro: C19 — the json! macro builds the same value as parsing the same literal text.
//!
//! Engine E-PROG: the macro is a compile-time rewriting machine whose executions only rustc
//! can perform. All documents up to a node bound are enumerated from a grammar with one
//! production per macro arm, written out as a throw-away cargo workspace (one program per
//! source line, K crates so that cargo compiles them in parallel), built against the current
//! /repo and executed; each constructed value is compared with the parse of the matching text.

use explore::serde_json::{json, Value as J};
use explore::{Args, Report, Tally, Tier};
use std::fmt::Write as _;
use std::path::{Path, PathBuf};
use std::process::Command;

#[derive(Clone, Debug, PartialEq)]
enum KeyForm {
    /// `"a"`
    Lit(&'static str),
    /// `("a")`
    Paren(&'static str),
    /// `KA.clone()` (an expression, munched token by token)
    Expr(&'static str),
    /// another expression evaluating to the key, of the given token shape (see `SHAPES`)
    Shaped(&'static str, usize),
}

/// Token shapes of expression keys: `{K}` is the key text, `{U}` its upper-case form. The macro
/// munches the key one token tree at a time until it meets the colon, so what matters is the
/// sequence of token trees: calls with one, two or nested parenthesised arguments, a
/// parenthesised callee, macro calls, index and tuple-field expressions, method chains, unary
/// operators, blocks, `if`, casts, paths. `once(..)` has a side effect: it counts its calls, and
/// every generated program checks that its key expressions were evaluated exactly once each.
const SHAPES: [&str; 19] = [
    "once(\"{K}\")",
    "tail(\"x{K}\")",
    "pick(\"x\", \"{K}\")",
    "tail((\"x{K}\"))",
    "(tail)(\"x{K}\")",
    "format!(\"{}\", \"{K}\")",
    "format![\"{K}\"]",
    "[\"x\", \"{K}\"][1]",
    "(\"x\", \"{K}\").1",
    "\"{K}\".to_string()",
    "String::from(\"{K}\")",
    "\"x{K}\".trim_start_matches('x')",
    "K{U}.as_str()",
    "&*K{U}",
    "*&\"{K}\"",
    "if true { \"{K}\" } else { \"x\" }",
    "{ \"{K}\" }",
    "tail(\"xx{K}\").split_off(1)",
    "<String as From<&str>>::from(\"{K}\")",
];

fn shaped(k: &str, shape: usize) -> String {
    SHAPES[shape].replace("{K}", k).replace("{U}", &k.to_uppercase())
}

#[derive(Clone, Debug, PartialEq)]
enum E {
    Null,
    True,
    False,
    /// literal as written in Rust and in JSON (identical spelling)
    Lit(&'static str),
    /// literal whose Rust spelling (type suffix) differs from its JSON spelling
    LitAs(&'static str, &'static str),
    Str(&'static str),
    /// an expression element: `Value::from(7)` / JSON `7`
    Expr,
    Arr(Vec<E>, bool),
    Obj(Vec<(KeyForm, E)>, bool),
}

impl E {
    fn rust(&self, o: &mut String) {
        match self {
            E::Null => o.push_str("null"),
            E::True => o.push_str("true"),
            E::False => o.push_str("false"),
            E::Lit(l) => o.push_str(l),
            E::LitAs(r, _) => o.push_str(r),
            E::Str(s) => write!(o, "{s:?}").unwrap(),
            E::Expr => o.push_str("Value::from(7)"),
            E::Arr(a, trailing) => {
                o.push('[');
                for (i, x) in a.iter().enumerate() {
                    if i > 0 {
                        o.push_str(", ");
                    }
                    x.rust(o);
                }
                if *trailing {
                    o.push(',');
                }
                o.push(']');
            }
            E::Obj(m, trailing) => {
                o.push('{');
                for (i, (k, x)) in m.iter().enumerate() {
                    if i > 0 {
                        o.push_str(", ");
                    }
                    match k {
                        KeyForm::Lit(k) => write!(o, "{k:?}").unwrap(),
                        KeyForm::Paren(k) => write!(o, "({k:?})").unwrap(),
                        KeyForm::Expr(k) => write!(o, "K{}.clone()", k.to_uppercase()).unwrap(),
                        KeyForm::Shaped(k, shape) => o.push_str(&shaped(k, *shape)),
                    }
                    o.push_str(": ");
                    x.rust(o);
                }
                if *trailing {
                    o.push(',');
                }
                o.push('}');
            }
        }
    }

    fn json(&self, o: &mut String) {
        match self {
            E::Null => o.push_str("null"),
            E::True => o.push_str("true"),
            E::False => o.push_str("false"),
            E::Lit(l) => o.push_str(l),
            E::LitAs(_, j) => o.push_str(j),
            E::Str(s) => write!(o, "\"{s}\"").unwrap(),
            E::Expr => o.push('7'),
            E::Arr(a, _) => {
                o.push('[');
                for (i, x) in a.iter().enumerate() {
                    if i > 0 {
                        o.push(',');
                    }
                    x.json(o);
                }
                o.push(']');
            }
            E::Obj(m, _) => {
                o.push('{');
                for (i, (k, x)) in m.iter().enumerate() {
                    if i > 0 {
                        o.push(',');
                    }
                    let k = match k {
                        KeyForm::Lit(k) | KeyForm::Paren(k) | KeyForm::Expr(k) | KeyForm::Shaped(k, _) => k,
                    };
                    write!(o, "\"{k}\":").unwrap();
                    x.json(o);
                }
                o.push('}');
            }
        }
    }

    fn depth(&self) -> usize {
        match self {
            E::Arr(a, _) => 1 + a.iter().map(E::depth).max().unwrap_or(0),
            E::Obj(m, _) => 1 + m.iter().map(|(_, x)| x.depth()).max().unwrap_or(0),
            _ => 0,
        }
    }
}

/// All documents with exactly n nodes over the given leaves and key forms.
fn gen(n: usize, leaves: &[E], keys: &[KeyForm], memo: &mut Vec<Vec<E>>) {
    while memo.len() <= n {
        let k = memo.len();
        let mut out = Vec::new();
        if k == 0 {
            memo.push(out);
            continue;
        }
        if k == 1 {
            out.extend(leaves.iter().cloned());
            out.push(E::Arr(vec![], false));
            out.push(E::Obj(vec![], false));
        }
        // sequences of children with total size k - 1
        let mut seqs: Vec<Vec<E>> = Vec::new();
        fn rec(budget: usize, cur: &mut Vec<E>, memo: &Vec<Vec<E>>, out: &mut Vec<Vec<E>>) {
            if budget == 0 {
                if !cur.is_empty() {
                    out.push(cur.clone());
                }
                return;
            }
            for first in 1..=budget {
                for v in &memo[first] {
                    cur.push(v.clone());
                    rec(budget - first, cur, memo, out);
                    cur.pop();
                }
            }
        }
        if k >= 2 {
            rec(k - 1, &mut Vec::new(), memo, &mut seqs);
        }
        for s in &seqs {
            for trailing in [false, true] {
                out.push(E::Arr(s.clone(), trailing));
                let kk = keys.len();
                for mut code in 0..kk.pow(s.len() as u32) {
                    let mut entries = Vec::new();
                    for v in s {
                        entries.push((keys[code % kk].clone(), v.clone()));
                        code /= kk;
                    }
                    out.push(E::Obj(entries, trailing));
                }
            }
        }
        out.retain(|e| e.depth() <= 3);
        memo.push(out);
    }
}

fn programs(tier: Tier) -> (Vec<E>, J) {
    let mut all: Vec<E> = Vec::new();
    // F-shape: small leaf alphabet, every key form, every trailing-comma pattern
    let leaves = [E::Null, E::Lit("1"), E::Str("s")];
    let keys = [KeyForm::Lit("a"), KeyForm::Paren("a"), KeyForm::Expr("a"), KeyForm::Lit("b")];
    let cap = tier.pick(1500usize, 60000);
    let mut memo = Vec::new();
    let mut shape_n = 0;
    let mut skipped = 0usize;
    for n in 1..=6 {
        gen(n, &leaves, &keys, &mut memo);
        if all.len() + memo[n].len() > cap {
            skipped = memo[n].len();
            break;
        }
        all.extend(memo[n].iter().cloned());
        shape_n = n;
    }
    // F-shape-small: two leaves, two key forms (literal and expression), one size deeper
    let leaves2 = [E::Null, E::Lit("1")];
    let keys2 = [KeyForm::Lit("a"), KeyForm::Expr("a")];
    let cap2 = all.len() + tier.pick(6000usize, 120000);
    let mut memo2 = Vec::new();
    let mut small_n = 0;
    for n in 1..=7 {
        gen(n, &leaves2, &keys2, &mut memo2);
        if all.len() + memo2[n].len() > cap2 {
            break;
        }
        if n > shape_n {
            all.extend(memo2[n].iter().cloned());
        }
        small_n = n;
    }
    let shape_count = all.len();
    // F-leaf: every literal kind of the macro in every one-hole context
    let rich = [E::Null, E::True, E::False, E::Lit("1"), E::Lit("-2"), E::Lit("-1"), E::Lit("-9"), E::Lit("9"), E::Lit("10"), E::Lit("-10"), E::Lit("255"), E::Lit("256"), E::Lit("-128"), E::Lit("65536"), E::Lit("-2147483648"), E::Lit("1.5"), E::Lit("-0.25"), E::Lit("0.5"), E::Lit("100.25"), E::Lit("0"), E::Lit("2147483647"), E::Str("s"), E::Str(""), E::Str("k\u{e9}"), E::Expr, E::Arr(vec![], false), E::Obj(vec![], false)];
    // boundary literals: the limits of every integer width the macro accepts (with the type
    // suffix that makes the literal legal Rust) and of both float widths, one step inside each
    // limit, and the decimal thresholds of the shortest-digits rendering
    let boundary = [
        E::LitAs("127i8", "127"), E::LitAs("-128i8", "-128"), E::LitAs("255u8", "255"),
        E::LitAs("32767i16", "32767"), E::LitAs("-32768i16", "-32768"), E::LitAs("65535u16", "65535"),
        E::LitAs("2147483648i64", "2147483648"), E::LitAs("4294967295u32", "4294967295"), E::LitAs("-2147483649i64", "-2147483649"),
        E::LitAs("9007199254740993i64", "9007199254740993"),
        E::LitAs("9223372036854775807i64", "9223372036854775807"), E::LitAs("9223372036854775806i64", "9223372036854775806"),
        E::LitAs("-9223372036854775808i64", "-9223372036854775808"), E::LitAs("-9223372036854775807i64", "-9223372036854775807"),
        E::LitAs("9223372036854775808u64", "9223372036854775808"), E::LitAs("18446744073709551615u64", "18446744073709551615"), E::LitAs("18446744073709551614u64", "18446744073709551614"),
        E::Lit("1.7976931348623157e308"), E::Lit("1.7976931348623155e308"), E::Lit("-1.7976931348623157e308"),
        E::Lit("2.2250738585072014e-308"), E::Lit("5e-324"), E::Lit("1e21"), E::Lit("1e-7"), E::Lit("9.007199254740992e15"), E::Lit("0.1"),
        E::LitAs("3.4028235e38f32", "3.4028235e38"), E::LitAs("3.4028233e38f32", "3.4028233e38"), E::LitAs("-3.4028235e38f32", "-3.4028235e38"),
        E::LitAs("1.1754944e-38f32", "1.1754944e-38"), E::LitAs("1e-45f32", "1e-45"), E::LitAs("0.1f32", "0.1"), E::LitAs("16777216f32", "16777216"),
    ];
    for x in &boundary {
        all.push(x.clone());
        all.push(E::Arr(vec![E::Null, x.clone()], true));
        all.push(E::Obj(vec![(KeyForm::Lit("a"), x.clone()), (KeyForm::Expr("a"), x.clone())], false));
    }
    let a = || KeyForm::Lit("a");
    let b = || KeyForm::Lit("b");
    for x in &rich {
        let x = || x.clone();
        let ctx: Vec<E> = vec![
            x(),
            E::Arr(vec![x()], false),
            E::Arr(vec![x()], true),
            E::Arr(vec![x(), E::Null], false),
            E::Arr(vec![E::Null, x()], false),
            E::Arr(vec![E::Null, x()], true),
            E::Arr(vec![E::Expr, x(), E::Expr], true),
            E::Obj(vec![(a(), x())], false),
            E::Obj(vec![(a(), x())], true),
            E::Obj(vec![(a(), x()), (b(), E::Null)], false),
            E::Obj(vec![(b(), E::Null), (a(), x())], false),
            E::Obj(vec![(a(), E::Expr), (a(), x())], true),
            E::Obj(vec![(KeyForm::Paren("a"), x())], false),
            E::Obj(vec![(KeyForm::Expr("a"), x()), (KeyForm::Expr("b"), x())], true),
            E::Arr(vec![E::Arr(vec![x()], true)], false),
            E::Obj(vec![(a(), E::Arr(vec![x()], false))], true),
            E::Arr(vec![E::Obj(vec![(a(), x())], true)], true),
            E::Obj(vec![(a(), E::Obj(vec![(b(), x())], false)), (a(), E::Obj(vec![], false))], false),
            E::Arr(vec![E::Arr(vec![E::Arr(vec![x()], false)], false), x()], false),
        ];
        all.extend(ctx);
    }
    // pumped programs: long arrays, objects with many entries (distinct and duplicated keys, every
    // key form in turn), deep nesting, long strings and keys, long runs of trailing-comma containers
    let mut pumped = 0usize;
    for n in [7usize, 8, 9, 15, 16, 17, 31, 32, 33, 63, 64, 65, 100, 127, 128, 129, 200] {
        let items: Vec<E> = (0..n).map(|i| rich[i % rich.len()].clone()).collect();
        all.push(E::Arr(items.clone(), n % 2 == 0));
        let forms = [KeyForm::Lit("a"), KeyForm::Paren("b"), KeyForm::Expr("a"), KeyForm::Lit("b"), KeyForm::Expr("b")];
        all.push(E::Obj(items.iter().enumerate().map(|(i, x)| (forms[i % forms.len()].clone(), x.clone())).collect(), n % 2 == 1));
        all.push(E::Arr((0..n).map(|_| E::Arr(vec![E::Obj(vec![], false)], true)).collect(), true));
        pumped += 3;
    }
    // runs of entries of one form: n entries with literal keys and distinct literal values (and
    // the same with every other key form), with and without a trailing comma; runs of n distinct
    // literals in an array - a batching rule for "simple" entries sees only homogeneous runs
    for n in 2..=12usize {
        for form in 0..3usize {
            let key = |i: usize| match form {
                0 => KeyForm::Lit(["a", "b"][i % 2]),
                1 => KeyForm::Paren(["a", "b"][i % 2]),
                _ => KeyForm::Expr(["a", "b"][i % 2]),
            };
            for trailing in [false, true] {
                all.push(E::Obj((0..n).map(|i| (key(i), rich[3 + i % 12].clone())).collect(), trailing));
                pumped += 1;
            }
        }
        all.push(E::Arr((0..n).map(|i| rich[3 + i % 12].clone()).collect(), true));
        all.push(E::Arr((0..n).map(|i| rich[3 + i % 12].clone()).collect(), false));
        all.push(E::Arr(vec![E::Obj((0..n).map(|i| (KeyForm::Lit("a"), rich[3 + (i * 5) % 12].clone())).collect(), n % 2 == 0)], false));
        pumped += 3;
    }
    // expression keys of every token shape, in every position of a small object
    for shape in 0..SHAPES.len() {
        for k in ["a", "b"] {
            let key = || KeyForm::Shaped(k, shape);
            let other = || KeyForm::Shaped(if k == "a" { "b" } else { "a" }, (shape + 5) % SHAPES.len());
            all.push(E::Obj(vec![(key(), E::Lit("1"))], false));
            all.push(E::Obj(vec![(key(), E::Null)], true));
            all.push(E::Obj(vec![(KeyForm::Lit("b"), E::Lit("1")), (key(), E::Expr)], false));
            all.push(E::Obj(vec![(key(), E::Arr(vec![E::True], false)), (other(), E::Obj(vec![(key(), E::Null)], false)), (KeyForm::Paren("a"), E::Str("s"))], true));
            all.push(E::Arr(vec![E::Obj(vec![(key(), E::Obj(vec![(other(), E::Lit("-2"))], true)), (key(), E::False)], false)], false));
            // the same shape at three levels (a key, then the keys inside its value, then the next key)
            all.push(E::Obj(vec![(key(), E::Obj(vec![(key(), E::Arr(vec![E::Obj(vec![(key(), E::True)], false)], false)), (key(), E::Null)], false)), (key(), E::Lit("1"))], false));
            pumped += 6;
        }
    }
    for depth in [5usize, 8, 16, 32, 64] {
        let mut v = E::Lit("1");
        for d in 0..depth {
            v = if d % 2 == 0 { E::Arr(vec![v], d % 3 == 0) } else { E::Obj(vec![(KeyForm::Lit("a"), v)], d % 3 == 1) };
        }
        all.push(v);
        pumped += 1;
    }
    all.dedup();
    let bounds = json!({"pumped_programs": {"programs": pumped, "array_and_object_lengths": [7, 8, 9, 15, 16, 17, 31, 32, 33, 63, 64, 65, 100, 127, 128, 129, 200], "nesting_depths": [5, 8, 16, 32, 64]},"small_shape_family": {"max_nodes_completed": small_n, "leaves": ["null", "1"], "key_forms": ["\"a\"", "KA.clone()"]}, "shape_family": {"max_nodes_completed": shape_n, "programs": shape_count, "next_size_not_covered": skipped, "leaves": ["null", "1", "\"s\""], "key_forms": ["\"a\"", "(\"a\")", "KA.clone()", "\"b\""], "max_depth": 3},
        "leaf_family": {"literal_kinds": rich.len(), "contexts": 19}, "boundary_literals": {"literals": boundary.len(), "contexts": 3}});
    (all, bounds)
}

fn write_workspace(dir: &Path, progs: &[E], ncrates: usize) -> std::io::Result<Vec<(usize, usize)>> {
    let _ = std::fs::remove_dir_all(dir);
    std::fs::create_dir_all(dir)?;
    let mut members = Vec::new();
    let mut ranges = Vec::new();
    let per = (progs.len() + ncrates - 1) / ncrates;
    for c in 0..ncrates {
        let lo = c * per;
        let hi = ((c + 1) * per).min(progs.len());
        if lo >= hi {
            break;
        }
        ranges.push((lo, hi));
        let name = format!("m{c:02}");
        members.push(format!("\"{name}\""));
        let cdir = dir.join(&name);
        std::fs::create_dir_all(cdir.join("src"))?;
        std::fs::write(
            cdir.join("Cargo.toml"),
            format!("[package]\nname = \"{name}\"\nversion = \"0.1.0\"\nedition = \"2021\"\n\n[dependencies]\njson-syntax = {{ path = \"{}\" }}\n", repo()),
        )?;
        // line 1..HEADER are the header; program i (global index lo + j) is on line HEADER + 1 + j
        let mut src = String::new();
        src.push_str(HEADER);
        assert_eq!(HEADER.matches('\n').count(), HEADER_LINES);
        for (j, p) in progs[lo..hi].iter().enumerate() {
            let mut r = String::new();
            p.rust(&mut r);
            let mut t = String::new();
            p.json(&mut t);
            // the side-effecting key expressions are numbered in written order; each has to be
            // evaluated exactly once, and in that order (a key before the value it introduces)
            let mut numbered = String::new();
            let mut n_once = 0usize;
            let mut rest = r.as_str();
            while let Some(at) = rest.find("once(") {
                numbered.push_str(&rest[..at]);
                numbered.push_str(&format!("once_at({n_once}, "));
                n_once += 1;
                rest = &rest[at + 5..];
            }
            numbered.push_str(rest);
            writeln!(src, "    progs.push(({}, std::panic::catch_unwind(|| {{ let _ = ticks(); let v = json!({}); let log = ticks(); if log != (0..{n_once}).collect::<Vec<usize>>() {{ panic!(\"the {n_once} side-effecting key expression(s) of this program, numbered in written order, were evaluated in the order {{:?}}\", log) }} v }}), {:?}));", lo + j, numbered, t).unwrap();
        }
        src.push_str("    for (i, v, text) in progs {\n        let v = match v { Ok(v) => v, Err(p) => { let m = p.downcast_ref::<String>().cloned().or_else(|| p.downcast_ref::<&str>().map(|s| s.to_string())).unwrap_or_default(); println!(\"PANIC {i} {}\", m.replace('\\n', \" \")); continue; } };\n        match Value::parse_str(text) {\n            Ok((w, _)) => { if v == w { println!(\"OK {i}\"); } else { println!(\"BAD {i} macro built {} but the text parses to {}\", v, w); } }\n            Err(e) => println!(\"TEXT {i} {e}\"),\n        }\n    }\n}\n");
        std::fs::write(cdir.join("src/main.rs"), src)?;
    }
    std::fs::write(dir.join("Cargo.toml"), format!("[workspace]\nresolver = \"2\"\nmembers = [{}]\n\n[profile.dev]\ndebug = false\nopt-level = 0\nincremental = false\n", members.join(", ")))?;
    let _ = std::fs::copy(format!("{}/Cargo.lock", repo()), dir.join("Cargo.lock"));
    Ok(ranges)
}

/// The first lines of every generated crate (compile errors are mapped back to programs through
/// their line number: program j of a crate is on line HEADER_LINES + 1 + j).
const HEADER: &str = "#![recursion_limit = \"16384\"]\n#![allow(unused, clippy::all)]\nuse json_syntax::{json, object::Key, Parse, Value};\nfn tail(s: &str) -> String { s[1..].to_string() }\nfn pick(_: &str, b: &str) -> String { b.to_string() }\nthread_local! { static TICKS: std::cell::RefCell<Vec<usize>> = std::cell::RefCell::new(Vec::new()); }\nfn ticks() -> Vec<usize> { TICKS.with(|t| std::mem::take(&mut *t.borrow_mut())) }\nfn once_at(i: usize, k: &str) -> String { TICKS.with(|t| t.borrow_mut().push(i)); k.to_string() }\nfn main() {\n    let KA: Key = Key::from(\"a\"); let KB: Key = Key::from(\"b\");\n    std::panic::set_hook(Box::new(|_| {})); let mut progs: Vec<(usize, std::thread::Result<Value>, &str)> = Vec::new();\n";
const HEADER_LINES: usize = 11;

fn repo() -> String {
    std::env::var("VERIF_REPO").unwrap_or_else(|_| "/repo".into())
}

fn gen_target() -> String {
    format!("{}/gen", std::env::var("VERIF_TARGET").unwrap_or_else(|_| "/verif/.target".into()))
}

fn gen_dir(name: &str) -> PathBuf {
    explore::verif_root().join(".gen").join(name)
}

fn cargo(dir: &Path, args: &[&str]) -> std::process::Output {
    Command::new("cargo")
        .args(args)
        .current_dir(dir)
        .env("CARGO_NET_OFFLINE", "true")
        .env("CARGO_TARGET_DIR", gen_target())
        .env_remove("RUSTFLAGS")
        .output()
        .expect("run cargo")
}

fn show(p: &E) -> (String, String) {
    let mut r = String::new();
    p.rust(&mut r);
    let mut t = String::new();
    p.json(&mut t);
    (format!("json!({r})"), t)
}

fn run_programs(rep: &mut Report, progs: &[E], tier: Tier, name: &str) {
    let dir = gen_dir(name);
    let ncrates = tier.pick(16, 64);
    let ranges = match write_workspace(&dir, progs, ncrates) {
        Ok(r) => r,
        Err(e) => {
            rep.machinery.push(format!("cannot write the generated workspace: {e}"));
            return;
        }
    };
    let t0 = std::time::Instant::now();
    let out = cargo(&dir, &["build", "--offline", "--workspace", "--keep-going", "--message-format=short"]);
    let build_s = t0.elapsed().as_secs_f64();
    let stderr = String::from_utf8_lossy(&out.stderr).to_string();
    let mut t = Tally::new();
    let mut failed_crates = std::collections::BTreeSet::new();
    if !out.status.success() {
        // map compile errors to programs through the source line
        let mut any = false;
        for line in stderr.lines() {
            // short format: m03/src/main.rs:LINE:COL: error[...]: message
            if let Some((loc, msg)) = line.split_once(": error") {
                let parts: Vec<&str> = loc.split(':').collect();
                if parts.len() >= 2 && parts[0].ends_with("src/main.rs") {
                    let crate_name = parts[0].split('/').next().unwrap_or("");
                    let ci: usize = crate_name.trim_start_matches('m').parse().unwrap_or(usize::MAX);
                    let ln: usize = parts[1].parse().unwrap_or(0);
                    if ci < ranges.len() && ln > HEADER_LINES {
                        let idx = ranges[ci].0 + ln - HEADER_LINES - 1;
                        if idx < progs.len() {
                            let (r, txt) = show(&progs[idx]);
                            t.violation("", format!("a legal json! program does not compile: {r} (error{msg})"), json!({"kind": "program", "rust": r, "json": txt}));
                            failed_crates.insert(ci);
                            any = true;
                        }
                    }
                }
            }
        }
        if !any {
            rep.machinery.push(format!("the generated workspace failed to build for a reason that is not a macro invocation:\n{}", stderr.lines().filter(|l| l.contains("error")).take(10).collect::<Vec<_>>().join("\n")));
            rep.absorb(t);
            return;
        }
    }
    // run every crate that built
    for (ci, (lo, hi)) in ranges.iter().enumerate() {
        if failed_crates.contains(&ci) {
            t.outcome_n("program: in a crate that failed to compile (not executed)", (hi - lo) as u64);
            continue;
        }
        let bin = PathBuf::from(format!("{}/debug/m{ci:02}", gen_target()));
        let o = match Command::new(&bin).output() {
            Ok(o) => o,
            Err(e) => {
                rep.machinery.push(format!("cannot run {}: {e}", bin.display()));
                continue;
            }
        };
        let stdout = String::from_utf8_lossy(&o.stdout);
        let mut seen = 0;
        for line in stdout.lines() {
            let mut it = line.splitn(3, ' ');
            let tag = it.next().unwrap_or("");
            let idx: usize = it.next().and_then(|x| x.parse().ok()).unwrap_or(usize::MAX);
            if idx >= progs.len() {
                continue;
            }
            seen += 1;
            t.evals += 1;
            let (r, txt) = show(&progs[idx]);
            match tag {
                "OK" => {
                    t.nontrivial(&r);
                    t.outcome(match &progs[idx] {
                        E::Arr(_, true) | E::Obj(_, true) => "equal (trailing comma at top level)",
                        E::Arr(..) => "equal (array)",
                        E::Obj(..) => "equal (object)",
                        _ => "equal (scalar)",
                    });
                }
                "BAD" => t.violation("", format!("{r}: {}", it.next().unwrap_or("")), json!({"kind": "program", "rust": r, "json": txt})),
                "PANIC" => t.violation("", format!("{r} panicked while building the value: {}", it.next().unwrap_or("")), json!({"kind": "program", "rust": r, "json": txt})),
                _ => t.violation("MACHINERY-gen", format!("generated JSON text {txt:?} does not parse: {}", it.next().unwrap_or("")), json!({"rust": r, "json": txt})),
            }
        }
        if !o.status.success() || seen != hi - lo {
            // a panic inside a macro-built value construction (e.g. unwrap on try_from)
            let err = String::from_utf8_lossy(&o.stderr);
            let idx = lo + seen;
            if idx < progs.len() {
                let (r, txt) = show(&progs[idx]);
                t.violation("", format!("program {r} panicked at run time: {}", err.lines().next().unwrap_or("")), json!({"kind": "program", "rust": r, "json": txt}));
            }
        }
    }
    let (r0, t0s) = show(&progs[progs.len() / 3]);
    t.sample(json!({"program": r0, "json_text": t0s}));
    let (r1, t1) = show(&progs[progs.len() - 1]);
    t.sample(json!({"program": r1, "json_text": t1}));
    rep.bounds["build"] = json!({"crates": ranges.len(), "programs": progs.len(), "cargo_build_s": build_s});
    rep.absorb(t);
}

fn main() {
    // setup: build the dependencies of the generated workspace once
    if std::env::args().nth(1).as_deref() == Some("--prebuild") {
        let progs = vec![E::Null, E::Arr(vec![E::Lit("1")], true)];
        let dir = gen_dir("prebuild");
        write_workspace(&dir, &progs, 1).expect("write");
        let o = cargo(&dir, &["build", "--offline", "--workspace"]);
        std::process::exit(if o.status.success() { 0 } else { 2 });
    }
    let args = Args::parse();
    if let Some(path) = &args.replay {
        let j: J = explore::serde_json::from_str(&std::fs::read_to_string(path).expect("read")).expect("json");
        // a replay is one program: compile and run it alone
        let rust = j["case"]["rust"].as_str().unwrap_or("json!(null)").to_string();
        let text = j["case"]["json"].as_str().unwrap_or("null").to_string();
        let dir = gen_dir("replay");
        let _ = std::fs::remove_dir_all(&dir);
        std::fs::create_dir_all(dir.join("m00/src")).unwrap();
        std::fs::write(dir.join("Cargo.toml"), "[workspace]\nresolver = \"2\"\nmembers = [\"m00\"]\n").unwrap();
        std::fs::write(dir.join("m00/Cargo.toml"), format!("[package]\nname = \"m00\"\nversion = \"0.1.0\"\nedition = \"2021\"\n\n[dependencies]\njson-syntax = {{ path = \"{}\" }}\n", repo())).unwrap();
        std::fs::write(
            dir.join("m00/src/main.rs"),
            format!("#![recursion_limit = \"16384\"]\n#![allow(unused)]\nuse json_syntax::{{json, object::Key, Parse, Value}};\nfn tail(s: &str) -> String {{ s[1..].to_string() }}\nfn pick(_: &str, b: &str) -> String {{ b.to_string() }}\nfn once(k: &str) -> String {{ k.to_string() }}\nfn main() {{\n    let KA: Key = Key::from(\"a\"); let KB: Key = Key::from(\"b\");\n    let v = {rust};\n    let w = Value::parse_str({text:?}).unwrap().0;\n    if v != w {{ println!(\"macro built {{}} but the text parses to {{}}\", v, w); std::process::exit(1); }}\n}}\n"),
        )
        .unwrap();
        let _ = std::fs::copy(format!("{}/Cargo.lock", repo()), dir.join("Cargo.lock"));
        let o = cargo(&dir, &["run", "--offline", "-q"]);
        if o.status.success() {
            println!("replay: the case passes on the current tree");
            std::process::exit(0);
        }
        println!("replay: {}{}", String::from_utf8_lossy(&o.stdout), String::from_utf8_lossy(&o.stderr).lines().filter(|l| l.contains("error")).take(3).collect::<Vec<_>>().join(" | "));
        println!("VIOLATION property=C19 replay={}", path.display());
        std::process::exit(1);
    }
    if args.property != "C19" {
        eprintln!("chk-macro serves C19 only");
        std::process::exit(2);
    }
    let mut rep = Report::new(&args, "exploration", "E-PROG: bounded-exhaustive enumeration of json! programs compiled by rustc against /repo and executed");
    let (progs, bounds) = programs(args.tier);
    rep.bounds = bounds;
    run_programs(&mut rep, &progs, args.tier, args.tier.name());
    rep.rule = "programs are enumerated from a grammar with one production per macro arm: null/true/false, integer and float literals (incl. negative), string literals, expression elements, nested arrays and objects up to depth 3, keys as string literal / parenthesised literal / expression munched token by token, duplicate keys, trailing comma present or absent in every non-empty container; shape family: every document up to the node bound over 3 leaves x 4 key forms; leaf family: every literal kind (see bounds) x 19 one-hole contexts; each program is compiled and its value compared (==) with Value::parse_str of the same document as JSON text; distinct = distinct programs that compiled, ran and compared".into();
    rep.assumptions.push("number literals are restricted to those whose JSON spelling is the literal itself (DESIGN A.7.7); rustc's macro expander is trusted".into());
    std::process::exit(rep.finish());
}
