//! Conversions between the reference's abstract values and json-syntax values, using
//! only the public API of json-syntax.

use json_syntax::{object::Entry, NumberBuf, Object, Value};
use refmodel::print as rp;
use refmodel::RV;

/// Builds a json-syntax value from an abstract value through the public constructors
/// (`Object::push` for entries, so duplicates are kept).
pub fn to_value(v: &RV) -> Value {
    match v {
        RV::Null => Value::Null,
        RV::Bool(b) => Value::Boolean(*b),
        RV::Num(n) => Value::Number(NumberBuf::new(n.as_bytes().into()).unwrap_or_else(|_| panic!("bad number {n}"))),
        RV::Str(s) => Value::String(s.as_str().into()),
        RV::Arr(a) => Value::Array(a.iter().map(to_value).collect()),
        RV::Obj(o) => {
            let mut obj = Object::new();
            for (k, x) in o {
                obj.push(k.as_str().into(), to_value(x));
            }
            Value::Object(obj)
        }
    }
}

/// Observes a json-syntax value through the public accessors.
pub fn from_value(v: &Value) -> RV {
    match v {
        Value::Null => RV::Null,
        Value::Boolean(b) => RV::Bool(*b),
        Value::Number(n) => RV::Num(n.as_str().to_string()),
        Value::String(s) => RV::Str(s.as_str().to_string()),
        Value::Array(a) => RV::Arr(a.iter().map(from_value).collect()),
        Value::Object(o) => RV::Obj(
            o.iter()
                .map(|Entry { key, value }| (key.as_str().to_string(), from_value(value)))
                .collect(),
        ),
    }
}

pub fn to_indent(i: rp::Indent) -> json_syntax::print::Indent {
    match i {
        rp::Indent::Spaces(n) => json_syntax::print::Indent::Spaces(n),
        rp::Indent::Tabs(n) => json_syntax::print::Indent::Tabs(n),
    }
}

pub fn to_limit(l: Option<rp::Limit>) -> Option<json_syntax::print::Limit> {
    use json_syntax::print::Limit as L;
    l.map(|l| match l {
        rp::Limit::Always => L::Always,
        rp::Limit::Item(i) => L::Item(i),
        rp::Limit::Width(w) => L::Width(w),
        rp::Limit::ItemOrWidth(i, w) => L::ItemOrWidth(i, w),
    })
}

/// Builds the real option record (the struct is `non_exhaustive`, so start from a preset).
pub fn to_options(o: &rp::Opts) -> json_syntax::print::Options {
    let mut r = json_syntax::print::Options::compact();
    r.indent = to_indent(o.indent);
    r.array_begin = o.array_begin;
    r.array_end = o.array_end;
    r.array_empty = o.array_empty;
    r.array_before_comma = o.array_before_comma;
    r.array_after_comma = o.array_after_comma;
    r.array_limit = to_limit(o.array_limit);
    r.object_begin = o.object_begin;
    r.object_end = o.object_end;
    r.object_empty = o.object_empty;
    r.object_before_comma = o.object_before_comma;
    r.object_after_comma = o.object_after_comma;
    r.object_before_colon = o.object_before_colon;
    r.object_after_colon = o.object_after_colon;
    r.object_limit = to_limit(o.object_limit);
    r
}

/// Observes a real option record as a reference record (used to check the presets).
pub fn from_options(r: &json_syntax::print::Options) -> rp::Opts {
    use json_syntax::print::{Indent as I, Limit as L};
    rp::Opts {
        indent: match r.indent {
            I::Spaces(n) => rp::Indent::Spaces(n),
            I::Tabs(n) => rp::Indent::Tabs(n),
        },
        array_begin: r.array_begin,
        array_end: r.array_end,
        array_empty: r.array_empty,
        array_before_comma: r.array_before_comma,
        array_after_comma: r.array_after_comma,
        array_limit: r.array_limit.map(|l| match l {
            L::Always => rp::Limit::Always,
            L::Item(i) => rp::Limit::Item(i),
            L::Width(w) => rp::Limit::Width(w),
            L::ItemOrWidth(i, w) => rp::Limit::ItemOrWidth(i, w),
        }),
        object_begin: r.object_begin,
        object_end: r.object_end,
        object_empty: r.object_empty,
        object_before_comma: r.object_before_comma,
        object_after_comma: r.object_after_comma,
        object_before_colon: r.object_before_colon,
        object_after_colon: r.object_after_colon,
        object_limit: r.object_limit.map(|l| match l {
            L::Always => rp::Limit::Always,
            L::Item(i) => rp::Limit::Item(i),
            L::Width(w) => rp::Limit::Width(w),
            L::ItemOrWidth(i, w) => rp::Limit::ItemOrWidth(i, w),
        }),
    }
}
