//! Conversions between the reference's abstract values and json-syntax values, using
//! only the public API of json-syntax.

use json_syntax::{object::Entry, NumberBuf, Object, Value};
use refmodel::print as rp;
use refmodel::RV;

/// Builds a json-syntax value from an abstract value through the public constructors
/// (`Object::push` for entries, so duplicates are kept).
pub fn to_value(v: &RV) -> Value {
    match v {
        RV::Null => Value::Null,
        RV::Bool(b) => Value::Boolean(*b),
        RV::Num(n) => Value::Number(NumberBuf::new(n.as_bytes().into()).unwrap_or_else(|_| panic!("bad number {n}"))),
        RV::Str(s) => Value::String(s.as_str().into()),
        RV::Arr(a) => Value::Array(a.iter().map(to_value).collect()),
        RV::Obj(o) => {
            let mut obj = Object::new();
            for (k, x) in o {
                obj.push(k.as_str().into(), to_value(x));
            }
            Value::Object(obj)
        }
    }
}

/// Observes a json-syntax value through the public accessors.
pub fn from_value(v: &Value) -> RV {
    match v {
        Value::Null => RV::Null,
        Value::Boolean(b) => RV::Bool(*b),
        Value::Number(n) => RV::Num(n.as_str().to_string()),
        Value::String(s) => RV::Str(s.as_str().to_string()),
        Value::Array(a) => RV::Arr(a.iter().map(from_value).collect()),
        Value::Object(o) => RV::Obj(
            o.iter()
                .map(|Entry { key, value }| (key.as_str().to_string(), from_value(value)))
                .collect(),
        ),
    }
}

pub fn to_indent(i: rp::Indent) -> json_syntax::print::Indent {
    match i {
        rp::Indent::Spaces(n) => json_syntax::print::Indent::Spaces(n),
        rp::Indent::Tabs(n) => json_syntax::print::Indent::Tabs(n),
    }
}

pub fn to_limit(l: Option<rp::Limit>) -> Option<json_syntax::print::Limit> {
    use json_syntax::print::Limit as L;
    l.map(|l| match l {
        rp::Limit::Always => L::Always,
        rp::Limit::Item(i) => L::Item(i),
        rp::Limit::Width(w) => L::Width(w),
        rp::Limit::ItemOrWidth(i, w) => L::ItemOrWidth(i, w),
    })
}

/// Builds the real option record (the struct is `non_exhaustive`, so start from a preset).
pub fn to_options(o: &rp::Opts) -> json_syntax::print::Options {
    let mut r = json_syntax::print::Options::compact();
    r.indent = to_indent(o.indent);
    r.array_begin = o.array_begin;
    r.array_end = o.array_end;
    r.array_empty = o.array_empty;
    r.array_before_comma = o.array_before_comma;
    r.array_after_comma = o.array_after_comma;
    r.array_limit = to_limit(o.array_limit);
    r.object_begin = o.object_begin;
    r.object_end = o.object_end;
    r.object_empty = o.object_empty;
    r.object_before_comma = o.object_before_comma;
    r.object_after_comma = o.object_after_comma;
    r.object_before_colon = o.object_before_colon;
    r.object_after_colon = o.object_after_colon;
    r.object_limit = to_limit(o.object_limit);
    r
}

/// Observes a real option record as a reference record (used to check the presets).
pub fn from_options(r: &json_syntax::print::Options) -> rp::Opts {
    use json_syntax::print::{Indent as I, Limit as L};
    rp::Opts {
        indent: match r.indent {
            I::Spaces(n) => rp::Indent::Spaces(n),
            I::Tabs(n) => rp::Indent::Tabs(n),
        },
        array_begin: r.array_begin,
        array_end: r.array_end,
        array_empty: r.array_empty,
        array_before_comma: r.array_before_comma,
        array_after_comma: r.array_after_comma,
        array_limit: r.array_limit.map(|l| match l {
            L::Always => rp::Limit::Always,
            L::Item(i) => rp::Limit::Item(i),
            L::Width(w) => rp::Limit::Width(w),
            L::ItemOrWidth(i, w) => rp::Limit::ItemOrWidth(i, w),
        }),
        object_begin: r.object_begin,
        object_end: r.object_end,
        object_empty: r.object_empty,
        object_before_comma: r.object_before_comma,
        object_after_comma: r.object_after_comma,
        object_before_colon: r.object_before_colon,
        object_after_colon: r.object_after_colon,
        object_limit: r.object_limit.map(|l| match l {
            L::Always => rp::Limit::Always,
            L::Item(i) => rp::Limit::Item(i),
            L::Width(w) => rp::Limit::Width(w),
            L::ItemOrWidth(i, w) => rp::Limit::ItemOrWidth(i, w),
        }),
    }
}

/// Drives an iterator through the std `Iterator` protocol beyond plain `next()`: `size_hint`
/// at every step, `count`, `last`, `nth` on a fresh and on a partially consumed iterator,
/// `step_by`, `skip`, `fold`. `want` is what repeated `next()` must yield (computed by the caller
/// from a linear scan); `make` builds a fresh iterator. An implementation that overrides any of
/// these methods must agree with the default ones.
/// Whether `iterator_protocol` also runs the second battery (the ~25 further provided consumers
/// and adaptors). Callers that audit millions of states switch it off for the repetitions of a
/// search that differ only in the hash function.
pub static EXTENDED_BATTERY: std::sync::atomic::AtomicBool = std::sync::atomic::AtomicBool::new(true);

thread_local! {
    /// Per-thread switch for the second battery: callers that run the protocol on millions of
    /// documents or states give it to a deterministic quarter of them (chosen by a hash of the
    /// document / state, so that the same cases get it in every run).
    pub static SECOND_BATTERY_HERE: std::cell::Cell<bool> = const { std::cell::Cell::new(true) };
}

/// FNV-1a, for the deterministic choice above.
pub fn fnv(bytes: &[u8]) -> u64 {
    let mut h = 0xcbf29ce484222325u64;
    for b in bytes {
        h = (h ^ *b as u64).wrapping_mul(0x100000001b3);
    }
    h
}

pub fn iterator_protocol<I, T, F>(what: &str, make: F, want: &[T]) -> Result<(), String>
where
    I: Iterator<Item = T>,
    T: PartialEq + std::fmt::Debug + Clone,
    F: Fn() -> I,
{
    let n = want.len();
    let bad = |m: String| Err(format!("{what}: {m} (a linear scan gives {want:?})"));
    // (first of all: the iterator ends - everything below consumes it without a bound)
    let mut it = make();
    let mut steps = 0usize;
    while it.next().is_some() {
        steps += 1;
        if steps > n + 2 {
            return bad(format!("next() still yields items after {steps} steps: the iterator does not end"));
        }
    }
    // next() and size_hint at every step
    let mut it = make();
    for i in 0..=n {
        let (lo, hi) = it.size_hint();
        let rem = n - i;
        if lo > rem || hi.map(|h| h < rem).unwrap_or(false) {
            return bad(format!("size_hint() = ({lo}, {hi:?}) with {rem} items left"));
        }
        let got = it.next();
        if got.as_ref() != want.get(i) {
            return bad(format!("next() number {i} yields {got:?}"));
        }
    }
    if make().count() != n {
        return bad(format!("count() = {}", make().count()));
    }
    if make().last().as_ref() != want.last() {
        return bad(format!("last() = {:?}", make().last()));
    }
    let folded: Vec<T> = make().fold(Vec::new(), |mut v, x| {
        v.push(x);
        v
    });
    if folded != want {
        return bad(format!("fold() visits {folded:?}"));
    }
    for i in 0..=n + 1 {
        let got = make().nth(i);
        if got.as_ref() != want.get(i) {
            return bad(format!("nth({i}) on a fresh iterator yields {got:?}"));
        }
        let skipped: Vec<T> = make().skip(i).collect();
        if skipped != want[i.min(n)..] {
            return bad(format!("skip({i}) yields {skipped:?}"));
        }
    }
    for taken in 1..=n.min(3) {
        for j in 0..=n {
            let mut it = make();
            for _ in 0..taken {
                it.next();
            }
            let got = it.nth(j);
            if got.as_ref() != want.get(taken + j) {
                return bad(format!("nth({j}) after {taken} next() yields {got:?}"));
            }
            let rest: Vec<T> = it.collect();
            let from = (taken + j + 1).min(n);
            if rest != want[from..] {
                return bad(format!("after {taken} next() and nth({j}) the rest is {rest:?}"));
            }
        }
    }
    for step in 2..=3usize {
        let got: Vec<T> = make().step_by(step).collect();
        let exp: Vec<T> = want.iter().step_by(step).cloned().collect();
        if got != exp {
            return bad(format!("step_by({step}) yields {got:?}"));
        }
    }
    if !EXTENDED_BATTERY.load(std::sync::atomic::Ordering::Relaxed) || !SECOND_BATTERY_HERE.with(|c| c.get()) {
        return Ok(());
    }
    // the other provided consumers an impl may specialise: collect, for_each, find, position,
    // any, all, min_by / max_by / min_by_key / max_by_key (ranked by position in the scan, so that
    // no Ord on the items is needed: first item = smallest), partition, reduce, cmp-like eq
    let collected: Vec<T> = make().collect();
    if collected != want {
        return bad(format!("collect() yields {collected:?}"));
    }
    let mut seen: Vec<T> = Vec::new();
    make().for_each(|x| seen.push(x));
    if seen != want {
        return bad(format!("for_each() visits {seen:?}"));
    }
    let rank = |x: &T| want.iter().position(|w| w == x).unwrap_or(usize::MAX);
    let rrank = |x: &T| want.iter().rposition(|w| w == x).unwrap_or(usize::MAX);
    // (every position of a short scan; the ends and the middle of a long one)
    let picks: Vec<usize> = if n <= 16 { (0..n).collect() } else { vec![0, 1, n / 2, n - 2, n - 1] };
    for (k, w) in picks.iter().map(|&k| (k, &want[k])) {
        let first = rank(w);
        if make().position(|x| x == *w) != Some(first) {
            return bad(format!("position(== item {k}) = {:?}", make().position(|x| x == *w)));
        }
        if make().find(|x| x == w).as_ref() != Some(w) {
            return bad(format!("find(== item {k}) = {:?}", make().find(|x| x == w)));
        }
        if !make().any(|x| x == *w) {
            return bad(format!("any(== item {k}) is false"));
        }
        // what remains after a short-circuiting consumer
        let mut it = make();
        let _ = it.find(|x| x == w);
        let rest: Vec<T> = it.collect();
        if rest != want[first + 1..] {
            return bad(format!("after find(== item {k}) the rest is {rest:?}"));
        }
    }
    if make().any(|_| false) || !make().all(|_| true) || make().position(|_| false).is_some() || make().find(|_| false).is_some() {
        return bad("any / all / position / find with a constant predicate".to_string());
    }
    if n > 0 && n <= 64 {
        // (std: min_by returns the first of several minima, max_by the last of several maxima;
        // ranking is a linear search, hence the bound on n)
        let lo = make().min_by(|a, b| rank(a).cmp(&rank(b)));
        let hi = make().max_by(|a, b| rrank(a).cmp(&rrank(b)));
        let lo_k = make().min_by_key(|x| rank(x));
        let hi_k = make().max_by_key(|x| rrank(x));
        if lo.as_ref() != want.first() || lo_k.as_ref() != want.first() {
            return bad(format!("min_by / min_by_key (ranked by scan position) = {lo:?} / {lo_k:?}"));
        }
        if hi.as_ref() != want.last() || hi_k.as_ref() != want.last() {
            return bad(format!("max_by / max_by_key (ranked by scan position) = {hi:?} / {hi_k:?}"));
        }
        let red = make().reduce(|a, _| a);
        if red.as_ref() != want.first() {
            return bad(format!("reduce(keep the first) = {red:?}"));
        }
    } else if n == 0 && (make().min_by(|_, _| std::cmp::Ordering::Equal).is_some() || make().reduce(|a, _| a).is_some()) {
        return bad("min_by / reduce on an empty iterator yield something".to_string());
    }
    let (even, odd): (Vec<T>, Vec<T>) = {
        let mut i = 0usize;
        make().partition(|_| {
            i += 1;
            i % 2 == 1
        })
    };
    let exp_even: Vec<T> = want.iter().step_by(2).cloned().collect();
    let exp_odd: Vec<T> = want.iter().skip(1).step_by(2).cloned().collect();
    if even != exp_even || odd != exp_odd {
        return bad(format!("partition(alternating) yields {even:?} / {odd:?}"));
    }
    if !make().eq(want.iter().cloned()) || (n > 0 && make().eq(want[1..].iter().cloned())) || make().ne(want.iter().cloned()) {
        return bad("Iterator::eq / ne against the scan".to_string());
    }
    // adaptors built on the iterator: chain, zip, enumerate, peekable, take / skip_while
    let chained: Vec<T> = make().chain(make()).collect();
    if chained.len() != 2 * n || chained[..n] != *want || chained[n..] != *want {
        return bad(format!("chain(self) yields {chained:?}"));
    }
    let zipped = make().zip(make().skip(1)).count();
    if zipped != n.saturating_sub(1) {
        return bad(format!("zip(skip(1)).count() = {zipped}"));
    }
    let mut pk = make().peekable();
    let mut via_peek = Vec::new();
    while let Some(p) = pk.peek().cloned() {
        let x = pk.next();
        if x.as_ref() != Some(&p) {
            return bad(format!("peekable: peek() gave {p:?} but next() gave {x:?}"));
        }
        via_peek.push(p);
    }
    if via_peek != want {
        return bad(format!("peekable yields {via_peek:?}"));
    }
    for k in picks.iter().copied().chain([n]) {
        let taken: Vec<T> = make().take(k).collect();
        if taken != want[..k] {
            return bad(format!("take({k}) yields {taken:?}"));
        }
    }
    Ok(())
}

/// The double-ended part of the protocol: `next_back` to exhaustion, `rev`, `rfold`,
/// `nth_back` fresh and after a few steps from either end, and every split of the items between
/// the two ends (`a` from the front, the rest from the back).
pub fn double_ended_protocol<I, T, F>(what: &str, make: F, want: &[T]) -> Result<(), String>
where
    I: DoubleEndedIterator<Item = T>,
    T: PartialEq + std::fmt::Debug + Clone,
    F: Fn() -> I,
{
    let n = want.len();
    let bad = |m: String| Err(format!("{what}: {m} (a linear scan gives {want:?})"));
    let rev_want: Vec<T> = want.iter().rev().cloned().collect();
    let mut it = make();
    let mut steps = 0usize;
    while it.next_back().is_some() {
        steps += 1;
        if steps > n + 2 {
            return bad(format!("next_back() still yields items after {steps} steps: the iterator does not end"));
        }
    }
    let got: Vec<T> = make().rev().collect();
    if got != rev_want {
        return bad(format!("rev() yields {got:?}"));
    }
    let folded: Vec<T> = make().rfold(Vec::new(), |mut v, x| {
        v.push(x);
        v
    });
    if folded != rev_want {
        return bad(format!("rfold() visits {folded:?}"));
    }
    for i in 0..=n + 1 {
        let got = make().nth_back(i);
        if got.as_ref() != rev_want.get(i) {
            return bad(format!("nth_back({i}) on a fresh iterator yields {got:?}"));
        }
    }
    for a in 0..=n {
        // a items from the front, then everything else from the back
        let mut it = make();
        let mut front = Vec::new();
        for _ in 0..a {
            match it.next() {
                Some(x) => front.push(x),
                None => return bad(format!("next() ran dry after {} of {a} items", front.len())),
            }
        }
        let (lo, hi) = it.size_hint();
        if lo > n - a || hi.map(|h| h < n - a).unwrap_or(false) {
            return bad(format!("size_hint() = ({lo}, {hi:?}) with {} items left after {a} next()", n - a));
        }
        let mut back = Vec::new();
        while let Some(x) = it.next_back() {
            back.push(x);
            if back.len() > n {
                return bad("next_back() does not terminate".to_string());
            }
        }
        if it.next().is_some() {
            return bad(format!("next() yields an item after next_back() ran dry (split at {a})"));
        }
        back.reverse();
        front.extend(back);
        if front != want {
            return bad(format!("{a} items from the front and the rest from the back give {front:?}"));
        }
        // and nth_back after a steps from the front
        for j in 0..=(n - a) {
            let mut it = make();
            for _ in 0..a {
                it.next();
            }
            let got = it.nth_back(j);
            let exp = if j < n - a { Some(&want[n - 1 - j]) } else { None };
            if got.as_ref() != exp {
                return bad(format!("nth_back({j}) after {a} next() yields {got:?}"));
            }
        }
    }
    Ok(())
}

/// A hasher that is sensitive to *how* the data is fed to it: every `Hasher` method folds its
/// own tag and the length of its argument into the state (FNV-1a over the transcript of calls).
/// `k1 == k2 => hash(k1) == hash(k2)` has to hold for every hasher, this one included, which is
/// the case exactly when equal values produce the same sequence of calls; SipHash (std's
/// default) streams its input and cannot tell `write_u8` x n from one `write` of n bytes, while
/// hashers such as ahash or fxhash can.
pub struct TranscriptHasher(u64);

impl Default for TranscriptHasher {
    fn default() -> Self {
        TranscriptHasher(0xcbf29ce484222325)
    }
}

impl TranscriptHasher {
    fn feed(&mut self, tag: u8, bytes: &[u8]) {
        for b in [tag].iter().chain((bytes.len() as u64).to_le_bytes().iter()).chain(bytes.iter()) {
            self.0 = (self.0 ^ *b as u64).wrapping_mul(0x100000001b3);
        }
    }
}

impl std::hash::Hasher for TranscriptHasher {
    fn finish(&self) -> u64 {
        self.0
    }
    fn write(&mut self, bytes: &[u8]) {
        self.feed(0, bytes)
    }
    fn write_u8(&mut self, i: u8) {
        self.feed(1, &i.to_le_bytes())
    }
    fn write_u16(&mut self, i: u16) {
        self.feed(2, &i.to_le_bytes())
    }
    fn write_u32(&mut self, i: u32) {
        self.feed(3, &i.to_le_bytes())
    }
    fn write_u64(&mut self, i: u64) {
        self.feed(4, &i.to_le_bytes())
    }
    fn write_u128(&mut self, i: u128) {
        self.feed(5, &i.to_le_bytes())
    }
    fn write_usize(&mut self, i: usize) {
        self.feed(6, &i.to_le_bytes())
    }
    fn write_i8(&mut self, i: i8) {
        self.feed(7, &i.to_le_bytes())
    }
    fn write_i16(&mut self, i: i16) {
        self.feed(8, &i.to_le_bytes())
    }
    fn write_i32(&mut self, i: i32) {
        self.feed(9, &i.to_le_bytes())
    }
    fn write_i64(&mut self, i: i64) {
        self.feed(10, &i.to_le_bytes())
    }
    fn write_i128(&mut self, i: i128) {
        self.feed(11, &i.to_le_bytes())
    }
    fn write_isize(&mut self, i: isize) {
        self.feed(12, &i.to_le_bytes())
    }
}

/// SipHash of the value combined with its transcript hash (equal values must agree on both).
pub fn both_hashes<T: std::hash::Hash>(t: &T) -> u64 {
    use std::hash::Hasher;
    let mut h = std::collections::hash_map::DefaultHasher::new();
    t.hash(&mut h);
    let mut g = TranscriptHasher::default();
    t.hash(&mut g);
    h.finish() ^ g.finish().rotate_left(17)
}
