//! R-canon: RFC 8785 (JCS) reference (DESIGN A.6): members sorted by UTF-16 code
//! units, numbers as ECMAScript `Number::toString` of the nearest double.
//!
//! Independent of ryu-js and of lexical: the double is obtained with std's
//! correctly-rounded `str::parse::<f64>`, the shortest digits with std's `{:e}`,
//! and the specification's tie rule with an exact big-integer expansion.

use crate::print::lit;
use crate::value::RV;

/// Minimal unsigned big integer, base 10^9, little endian.
#[derive(Clone, Debug, PartialEq, Eq)]
pub struct Big(Vec<u32>);

const BASE: u64 = 1_000_000_000;

impl Big {
    pub fn from_u128(mut v: u128) -> Big {
        let mut d = Vec::new();
        if v == 0 {
            d.push(0);
        }
        while v > 0 {
            d.push((v % BASE as u128) as u32);
            v /= BASE as u128;
        }
        Big(d)
    }

    pub fn mul_small(&mut self, m: u32) {
        let mut carry = 0u64;
        for limb in self.0.iter_mut() {
            let x = *limb as u64 * m as u64 + carry;
            *limb = (x % BASE) as u32;
            carry = x / BASE;
        }
        while carry > 0 {
            self.0.push((carry % BASE) as u32);
            carry /= BASE;
        }
    }

    pub fn add_small(&mut self, a: u32) {
        let mut carry = a as u64;
        for limb in self.0.iter_mut() {
            if carry == 0 {
                break;
            }
            let x = *limb as u64 + carry;
            *limb = (x % BASE) as u32;
            carry = x / BASE;
        }
        if carry > 0 {
            self.0.push(carry as u32);
        }
    }

    /// Subtracts a small value; the number must be at least `a`.
    pub fn sub_small(&mut self, a: u32) {
        let mut borrow = a as i64;
        for limb in self.0.iter_mut() {
            if borrow == 0 {
                break;
            }
            let x = *limb as i64 - borrow;
            if x < 0 {
                *limb = (x + BASE as i64) as u32;
                borrow = 1;
            } else {
                *limb = x as u32;
                borrow = 0;
            }
        }
        assert_eq!(borrow, 0);
        while self.0.len() > 1 && *self.0.last().unwrap() == 0 {
            self.0.pop();
        }
    }

    pub fn mul_pow(&mut self, base: u32, mut e: u32) {
        // multiply by base^e using chunks that fit in u32
        let (chunk, per) = match base {
            2 => (1u32 << 30, 30),
            5 => (1_220_703_125u32, 13),
            10 => (1_000_000_000u32, 9),
            _ => (base, 1),
        };
        while e >= per {
            self.mul_small(chunk);
            e -= per;
        }
        for _ in 0..e {
            self.mul_small(base);
        }
    }

    pub fn to_decimal(&self) -> String {
        let mut s = String::new();
        let mut it = self.0.iter().rev();
        if let Some(first) = it.next() {
            s.push_str(&first.to_string());
        }
        for limb in it {
            s.push_str(&format!("{:09}", limb));
        }
        s
    }
}

/// The exact value m * 2^e as (integer digit string N, scale s) with value = N * 10^(-s).
pub fn exact_scaled(m: u128, e: i32) -> (String, u32) {
    let mut b = Big::from_u128(m);
    if e >= 0 {
        b.mul_pow(2, e as u32);
        (b.to_decimal(), 0)
    } else {
        b.mul_pow(5, (-e) as u32);
        (b.to_decimal(), (-e) as u32)
    }
}

/// Decomposes a finite positive double into (mantissa, binary exponent): x = m * 2^e.
pub fn decompose(x: f64) -> (u64, i32) {
    let bits = x.to_bits();
    let exp = ((bits >> 52) & 0x7ff) as i32;
    let frac = bits & ((1u64 << 52) - 1);
    if exp == 0 {
        (frac, -1074)
    } else {
        (frac | (1u64 << 52), exp - 1075)
    }
}

/// Significant decimal digits of the exact value of a finite positive double, and the
/// decimal exponent n such that x = 0.DIGITS * 10^n.
pub fn exact_digits(x: f64) -> (String, i32) {
    let (m, e) = decompose(x);
    let (n, s) = exact_scaled(m as u128, e);
    let t = n.trim_end_matches('0');
    let removed = (n.len() - t.len()) as i32;
    // value = t * 10^(removed - s) = 0.t * 10^(len(t) + removed - s)
    (t.to_string(), t.len() as i32 + removed - s as i32)
}

/// ECMAScript Number::toString for a finite double (RFC 8785 section 3.2.2.3).
pub fn es_number(x: f64) -> String {
    assert!(x.is_finite());
    if x == 0.0 {
        return "0".to_string();
    }
    let neg = x < 0.0;
    let a = x.abs();
    // shortest round-trip digits from std
    let sci = format!("{:e}", a);
    let (mant, exp) = sci.split_once('e').unwrap();
    let mut digits: String = mant.chars().filter(|c| *c != '.').collect();
    let mut n: i32 = exp.parse::<i32>().unwrap() + 1;
    let k = digits.len();

    // tie rule: if the exact expansion has exactly k + 1 significant digits and ends in 5,
    // the two k-digit candidates are equally close; take the even one if both read back.
    let (exact, en) = exact_digits(a);
    if exact.len() == k + 1 && exact.ends_with('5') {
        let low = &exact[..k];
        let low_big = {
            let mut b = Big::from_u128(0);
            for ch in low.chars() {
                b.mul_small(10);
                b.add_small(ch as u32 - '0' as u32);
            }
            b
        };
        let mut high_big = low_big.clone();
        high_big.add_small(1);
        let high = high_big.to_decimal();
        let reads_back = |d: &str, n10: i32| -> bool {
            // value 0.d * 10^n10
            let s = format!("0.{}e{}", d, n10);
            s.parse::<f64>().map(|y| y == a).unwrap_or(false)
        };
        // a carry in `high` (e.g. 999 -> 1000) changes its length; then high = 1 followed by
        // zeros with exponent + 1, and it is "even" in its last digit.
        let (high_d, high_n) = if high.len() > k {
            (high[..k].to_string(), en + 1)
        } else {
            (high.clone(), en)
        };
        let low_ok = reads_back(low, en);
        let high_ok = reads_back(&high_d, high_n);
        if low_ok && high_ok {
            let low_even = (low.as_bytes()[k - 1] - b'0') % 2 == 0;
            if low_even {
                digits = low.to_string();
                n = en;
            } else {
                digits = high_d;
                n = high_n;
            }
            // strip trailing zeros (possible after a carry)
            while digits.len() > 1 && digits.ends_with('0') {
                digits.pop();
            }
        }
    }

    let k = digits.len() as i32;
    let mut out = String::new();
    if neg {
        out.push('-');
    }
    if k <= n && n <= 21 {
        out.push_str(&digits);
        for _ in 0..(n - k) {
            out.push('0');
        }
    } else if 0 < n && n <= 21 {
        out.push_str(&digits[..n as usize]);
        out.push('.');
        out.push_str(&digits[n as usize..]);
    } else if -6 < n && n <= 0 {
        out.push_str("0.");
        for _ in 0..(-n) {
            out.push('0');
        }
        out.push_str(&digits);
    } else {
        out.push_str(&digits[..1]);
        if k > 1 {
            out.push('.');
            out.push_str(&digits[1..]);
        }
        out.push('e');
        let e = n - 1;
        out.push(if e < 0 { '-' } else { '+' });
        out.push_str(&e.abs().to_string());
    }
    out
}

/// The double a JSON number spelling denotes (correctly rounded), if finite.
pub fn number_value(spelling: &str) -> Option<f64> {
    let x: f64 = spelling.parse().ok()?;
    if x.is_finite() {
        Some(x)
    } else {
        None
    }
}

/// Canonical number spelling; `None` if outside double range.
pub fn canonical_number(spelling: &str) -> Option<String> {
    number_value(spelling).map(es_number)
}

fn utf16_cmp(a: &str, b: &str) -> std::cmp::Ordering {
    a.encode_utf16().cmp(b.encode_utf16())
}

/// The RFC 8785 canonical form of an I-JSON value; `None` if a number is out of range.
pub fn canonical(v: &RV) -> Option<String> {
    let mut out = String::new();
    canon_into(v, &mut out)?;
    Some(out)
}

fn canon_into(v: &RV, out: &mut String) -> Option<()> {
    match v {
        RV::Null => out.push_str("null"),
        RV::Bool(true) => out.push_str("true"),
        RV::Bool(false) => out.push_str("false"),
        RV::Num(n) => out.push_str(&canonical_number(n)?),
        RV::Str(s) => lit(s, out),
        RV::Arr(a) => {
            out.push('[');
            for (i, x) in a.iter().enumerate() {
                if i > 0 {
                    out.push(',');
                }
                canon_into(x, out)?;
            }
            out.push(']');
        }
        RV::Obj(m) => {
            let mut idx: Vec<usize> = (0..m.len()).collect();
            idx.sort_by(|&a, &b| utf16_cmp(&m[a].0, &m[b].0));
            out.push('{');
            for (i, &j) in idx.iter().enumerate() {
                if i > 0 {
                    out.push(',');
                }
                lit(&m[j].0, out);
                out.push(':');
                canon_into(&m[j].1, out)?;
            }
            out.push('}');
        }
    }
    Some(())
}

/// The canonical *value* (same shape as `canonical` prints).
pub fn canonical_value(v: &RV) -> Option<RV> {
    Some(match v {
        RV::Num(n) => RV::Num(canonical_number(n)?),
        RV::Arr(a) => RV::Arr(a.iter().map(canonical_value).collect::<Option<Vec<_>>>()?),
        RV::Obj(m) => {
            let mut e: Vec<(String, RV)> = Vec::new();
            for (k, x) in m {
                e.push((k.clone(), canonical_value(x)?));
            }
            e.sort_by(|a, b| utf16_cmp(&a.0, &b.0));
            RV::Obj(e)
        }
        other => other.clone(),
    })
}

/// RFC 8785 Appendix B: IEEE-754 bit patterns and their ECMAScript renderings.
pub const RFC8785_APPENDIX_B: &[(u64, &str)] = &[
    (0x0000000000000000, "0"),
    (0x8000000000000000, "0"),
    (0x0000000000000001, "5e-324"),
    (0x8000000000000001, "-5e-324"),
    (0x7fefffffffffffff, "1.7976931348623157e+308"),
    (0xffefffffffffffff, "-1.7976931348623157e+308"),
    (0x4340000000000000, "9007199254740992"),
    (0xc340000000000000, "-9007199254740992"),
    (0x4430000000000000, "295147905179352830000"),
    (0x44b52d02c7e14af5, "9.999999999999997e+22"),
    (0x44b52d02c7e14af6, "1e+23"),
    (0x44b52d02c7e14af7, "1.0000000000000001e+23"),
    (0x444b1ae4d6e2ef4e, "999999999999999700000"),
    (0x444b1ae4d6e2ef4f, "999999999999999900000"),
    (0x444b1ae4d6e2ef50, "1e+21"),
    (0x3eb0c6f7a0b5ed8c, "9.999999999999997e-7"),
    (0x3eb0c6f7a0b5ed8d, "0.000001"),
    (0x41b3de4355555553, "333333333.3333332"),
    (0x41b3de4355555554, "333333333.33333325"),
    (0x41b3de4355555555, "333333333.3333333"),
    (0x41b3de4355555556, "333333333.3333334"),
    (0x41b3de4355555557, "333333333.33333343"),
    (0xbecbf647612f3696, "-0.0000033333333333333333"),
    (0x43143ff3c1cb0959, "1424953923781206.2"),
];

#[cfg(test)]
mod tests {
    use super::*;

    #[test]
    fn appendix_b() {
        for (bits, want) in RFC8785_APPENDIX_B {
            assert_eq!(es_number(f64::from_bits(*bits)), *want, "{:016x}", bits);
        }
    }

    #[test]
    fn tie() {
        // 2^-25 = 2.98023223876953125e-8 exactly (18 significant digits, tie at 17)
        assert_eq!(es_number(2f64.powi(-25)), "2.9802322387695312e-8");
        assert_eq!(es_number(1e21), "1e+21");
        assert_eq!(es_number(1e-7), "1e-7");
        assert_eq!(es_number(123456.789), "123456.789");
        assert_eq!(es_number(0.000001), "0.000001");
        assert_eq!(es_number(-1.5), "-1.5");
        assert_eq!(es_number(100.0), "100");
    }

    #[test]
    fn exact() {
        assert_eq!(exact_digits(0.5), ("5".to_string(), 0));
        assert_eq!(exact_digits(1.0), ("1".to_string(), 1));
        assert_eq!(exact_digits(1024.0), ("1024".to_string(), 4));
        assert_eq!(exact_digits(2f64.powi(-25)).0, "298023223876953125");
        let (d, n) = exact_digits(5e-324);
        assert!(d.starts_with("4940656458412465"));
        assert_eq!(n, -323);
    }

    #[test]
    fn key_order() {
        let v = RV::Obj(vec![
            ("\u{10000}".into(), RV::num("1")),
            ("\u{e000}".into(), RV::num("2")),
            ("a".into(), RV::num("3")),
        ]);
        assert_eq!(canonical(&v).unwrap(), "{\"a\":3,\"\u{10000}\":1,\"\u{e000}\":2}");
    }
}

/// The shortest round-trip digits of a positive finite double with the decimal point moved
/// `k` places to the left or to the right (k = 1..=25 and eleven values from 300 to 400 each way, padded with zeros) and the
/// exponent adjusted to compensate: all of them spell exactly the same real number, hence the
/// same double - also where the *written* exponent lies outside the range of doubles although
/// the value does not (0.1e309 is 1e308; 10000e-327 is 1e-323), and the other way round.
pub fn shifted_spellings(x: f64) -> Vec<String> {
    if !(x.is_finite() && x > 0.0) {
        return Vec::new();
    }
    let sci = format!("{x:e}");
    let (mant, exp) = sci.split_once('e').unwrap();
    let exp: i32 = exp.parse().unwrap();
    let digits: String = mant.chars().filter(|c| c.is_ascii_digit()).collect();
    let mut out = Vec::new();
    // (1..=25 places, and far enough for the *written* integer part or the leading zeros of the
    // fraction to outgrow every double on their own: 300 to 400 places)
    for k in (1..=25i32).chain([300, 307, 308, 309, 310, 311, 323, 324, 325, 340, 400]) {
        // point moved k places to the left: 0.00d1d2... e(exp + k)
        out.push(format!("0.{}{}e{}", "0".repeat(k as usize - 1), digits, exp + k));
        // point moved k places to the right
        let k_us = k as usize;
        let moved = if digits.len() > k_us + 1 { format!("{}.{}", &digits[..k_us + 1], &digits[k_us + 1..]) } else { format!("{}{}", digits, "0".repeat(k_us + 1 - digits.len())) };
        out.push(format!("{moved}e{}", exp - k));
    }
    out.push(format!("-0.{digits}E+{}", exp + 1).replace("E+-", "E-"));
    out
}

/// "Sticky digit" spellings of a positive finite double x: the exact midpoint between x and its
/// upper neighbour, written positionally, followed by zeros up to well beyond the 1 100th
/// fraction digit (no double and no midpoint has more than 1 075) and a final `1`; and the same
/// with only a few zeros. Both lie just above the midpoint and must round to the upper neighbour;
/// a parser or shortcut that drops digits beyond some position rounds them to x (tie to even)
/// whenever x's mantissa is even.
pub fn sticky_spellings(x: f64) -> Vec<String> {
    if !(x.is_finite() && x > 0.0) {
        return Vec::new();
    }
    let (m, e) = decompose(x);
    let (n, s) = exact_scaled(2 * m as u128 + 1, e - 1);
    let s = s as usize;
    // positional: integer part, point, fraction of exactly s digits
    let (int, frac) = if s == 0 {
        (n.clone(), String::new())
    } else if n.len() > s {
        (n[..n.len() - s].to_string(), n[n.len() - s..].to_string())
    } else {
        ("0".to_string(), format!("{}{}", "0".repeat(s - n.len()), n))
    };
    if int.len() > 400 {
        return Vec::new();
    }
    let far = 1100usize.saturating_sub(frac.len()) + 30;
    let digits = format!("{int}{frac}{}1", "0".repeat(far));
    vec![
        format!("{int}.{frac}{}1", "0".repeat(far)),
        format!("{int}.{frac}{}1", "0".repeat(3)),
        format!("-{int}.{frac}{}1", "0".repeat(far)),
        // the same number with the point removed (more than a thousand *integer* digits, brought
        // back by a negative exponent) and with 400 zeros put in front (brought back by a positive one)
        format!("{}e-{}", digits.trim_start_matches('0'), frac.len() + far + 1),
        format!("0.{}{digits}e{}", "0".repeat(400), 400 + int.len()),
    ]
}
