//! R-dec: an independent recursive-descent decoder (DESIGN A.2/A.3) producing the
//! abstract value, the expected code map and the surrogate fault list.

use crate::pda::{Fault, FaultKind};
use crate::value::RV;

#[derive(Clone, Debug, PartialEq, Eq)]
pub struct Doc {
    pub value: RV,
    /// pre-order list of (start, end, volume)
    pub map: Vec<(usize, usize, usize)>,
    /// surrogate faults in order of detection; every fault is decoded as one U+FFFD
    pub faults: Vec<Fault>,
}

impl Doc {
    pub fn accepted_under(&self, truncated: bool, invalid: bool) -> bool {
        self.faults.iter().all(|f| f.tolerated(truncated, invalid))
    }
}

struct P<'a> {
    s: &'a [u8],
    text: &'a str,
    i: usize,
    map: Vec<(usize, usize, usize)>,
    faults: Vec<Fault>,
}

/// Decodes a complete JSON text. `Err(offset)` = offset of the first character that
/// cannot continue a JSON text (or the text length if it ends prematurely).
pub fn decode(text: &str) -> Result<Doc, usize> {
    let mut p = P {
        s: text.as_bytes(),
        text,
        i: 0,
        map: Vec::new(),
        faults: Vec::new(),
    };
    p.ws();
    let value = p.value(true)?;
    p.ws();
    if p.i != p.s.len() {
        return Err(p.i);
    }
    Ok(Doc {
        value,
        map: p.map,
        faults: p.faults,
    })
}

impl<'a> P<'a> {
    fn peek(&self) -> Option<u8> {
        self.s.get(self.i).copied()
    }

    fn ws(&mut self) {
        while let Some(b' ' | b'\t' | b'\n' | b'\r') = self.peek() {
            self.i += 1;
        }
    }

    fn reserve(&mut self) -> usize {
        self.map.push((self.i, self.i, 0));
        self.map.len() - 1
    }

    fn close(&mut self, k: usize) {
        let n = self.map.len();
        self.map[k].1 = self.i;
        self.map[k].2 = n - k;
    }

    fn value(&mut self, root: bool) -> Result<RV, usize> {
        let k = self.reserve();
        let v = match self.peek() {
            Some(b'n') => {
                self.lit("null")?;
                RV::Null
            }
            Some(b't') => {
                self.lit("true")?;
                RV::Bool(true)
            }
            Some(b'f') => {
                self.lit("false")?;
                RV::Bool(false)
            }
            Some(b'"') => RV::Str(self.string()?),
            Some(b'-' | b'0'..=b'9') => RV::Num(self.number(root)?),
            Some(b'[') => {
                self.i += 1;
                let mut items = Vec::new();
                self.ws();
                if self.peek() == Some(b']') {
                    self.i += 1;
                } else {
                    loop {
                        self.ws();
                        items.push(self.value(false)?);
                        self.ws();
                        match self.peek() {
                            Some(b',') => self.i += 1,
                            Some(b']') => {
                                self.i += 1;
                                break;
                            }
                            _ => return Err(self.i),
                        }
                    }
                }
                RV::Arr(items)
            }
            Some(b'{') => {
                self.i += 1;
                let mut entries = Vec::new();
                self.ws();
                if self.peek() == Some(b'}') {
                    self.i += 1;
                } else {
                    loop {
                        self.ws();
                        if self.peek() != Some(b'"') {
                            return Err(self.i);
                        }
                        let e = self.reserve();
                        let kf = self.reserve();
                        let key = self.string()?;
                        self.close(kf);
                        self.ws();
                        if self.peek() != Some(b':') {
                            return Err(self.i);
                        }
                        self.i += 1;
                        self.ws();
                        let v = self.value(false)?;
                        self.close(e);
                        entries.push((key, v));
                        self.ws();
                        match self.peek() {
                            Some(b',') => self.i += 1,
                            Some(b'}') => {
                                self.i += 1;
                                break;
                            }
                            _ => return Err(self.i),
                        }
                    }
                }
                RV::Obj(entries)
            }
            _ => return Err(self.i),
        };
        self.close(k);
        Ok(v)
    }

    fn lit(&mut self, l: &str) -> Result<(), usize> {
        for b in l.bytes() {
            if self.peek() != Some(b) {
                return Err(self.i);
            }
            self.i += 1;
        }
        Ok(())
    }

    fn digits(&mut self) -> usize {
        let st = self.i;
        while let Some(b'0'..=b'9') = self.peek() {
            self.i += 1;
        }
        self.i - st
    }

    fn number(&mut self, _root: bool) -> Result<String, usize> {
        let st = self.i;
        if self.peek() == Some(b'-') {
            self.i += 1;
        }
        match self.peek() {
            Some(b'0') => self.i += 1,
            Some(b'1'..=b'9') => {
                self.digits();
            }
            _ => return Err(self.i),
        }
        if self.peek() == Some(b'.') {
            self.i += 1;
            if self.digits() == 0 {
                return Err(self.i);
            }
        }
        if let Some(b'e' | b'E') = self.peek() {
            self.i += 1;
            if let Some(b'+' | b'-') = self.peek() {
                self.i += 1;
            }
            if self.digits() == 0 {
                return Err(self.i);
            }
        }
        // what may follow a number is decided by the caller (which rejects at this
        // offset anything that is not whitespace or the expected punctuation)
        Ok(self.text[st..self.i].to_string())
    }

    fn hex4(&mut self) -> Result<u16, usize> {
        let mut v = 0u32;
        for _ in 0..4 {
            let d = match self.peek() {
                Some(b @ b'0'..=b'9') => b - b'0',
                Some(b @ b'a'..=b'f') => b - b'a' + 10,
                Some(b @ b'A'..=b'F') => b - b'A' + 10,
                _ => return Err(self.i),
            };
            v = v * 16 + d as u32;
            self.i += 1;
        }
        Ok(v as u16)
    }

    fn string(&mut self) -> Result<String, usize> {
        // caller guarantees the opening quote
        self.i += 1;
        let mut out = String::new();
        // pending high surrogate with the offset of its backslash
        let mut pending: Option<(u16, usize)> = None;
        loop {
            let elem_start = self.i;
            let c = match self.text[self.i..].chars().next() {
                None => return Err(self.i),
                Some(c) => c,
            };
            if c == '"' {
                self.i += 1;
                if let Some((hi, start)) = pending.take() {
                    self.faults.push(Fault {
                        kind: FaultKind::UnpairedHighByChar,
                        hi,
                        unit: 0,
                        start,
                        detect: self.i,
                        by_quote: true,
                    });
                    out.push('\u{fffd}');
                }
                return Ok(out);
            }
            // one element: raw char, two-char escape, or \uXXXX
            let mut unit: Option<u16> = None;
            let decoded: Option<char>;
            if c == '\\' {
                self.i += 1;
                let e = match self.peek() {
                    None => return Err(self.i),
                    Some(e) => e,
                };
                decoded = match e {
                    b'"' => Some('"'),
                    b'\\' => Some('\\'),
                    b'/' => Some('/'),
                    b'b' => Some('\u{8}'),
                    b'f' => Some('\u{c}'),
                    b'n' => Some('\n'),
                    b'r' => Some('\r'),
                    b't' => Some('\t'),
                    b'u' => None,
                    _ => return Err(self.i),
                };
                self.i += 1;
                if decoded.is_none() {
                    unit = Some(self.hex4()?);
                }
            } else if (c as u32) < 0x20 {
                return Err(self.i);
            } else {
                self.i += c.len_utf8();
                decoded = Some(c);
            }

            match unit {
                None => {
                    if let Some((hi, start)) = pending.take() {
                        self.faults.push(Fault {
                            kind: FaultKind::UnpairedHighByChar,
                            hi,
                            unit: 0,
                            start,
                            detect: self.i,
                            by_quote: false,
                        });
                        out.push('\u{fffd}');
                    }
                    out.push(decoded.unwrap());
                }
                Some(u) => {
                    let is_high = (0xD800..0xDC00).contains(&u);
                    let is_low = (0xDC00..0xE000).contains(&u);
                    if let Some((hi, start)) = pending.take() {
                        if is_low {
                            let cp = 0x10000 + (((hi as u32) - 0xD800) << 10) + ((u as u32) - 0xDC00);
                            out.push(char::from_u32(cp).unwrap());
                            continue;
                        }
                        self.faults.push(Fault {
                            kind: FaultKind::UnpairedHighByUnit,
                            hi,
                            unit: u,
                            start,
                            detect: self.i,
                            by_quote: false,
                        });
                        out.push('\u{fffd}');
                    }
                    if is_high {
                        pending = Some((u, elem_start));
                    } else if is_low {
                        self.faults.push(Fault {
                            kind: FaultKind::LoneLow,
                            hi: 0,
                            unit: u,
                            start: elem_start,
                            detect: self.i,
                            by_quote: false,
                        });
                        out.push('\u{fffd}');
                    } else {
                        out.push(char::from_u32(u as u32).unwrap());
                    }
                }
            }
        }
    }
}

#[cfg(test)]
mod tests {
    use super::*;
    use crate::pda::scan;

    #[test]
    fn map_example() {
        let d = decode(r#"{ "a": 0, "b": [1, 2] }"#).unwrap();
        assert_eq!(
            d.map,
            vec![
                (0, 23, 9),
                (2, 8, 3),
                (2, 5, 1),
                (7, 8, 1),
                (10, 21, 5),
                (10, 13, 1),
                (15, 21, 3),
                (16, 17, 1),
                (19, 20, 1)
            ]
        );
        let d = decode("[{}, 1]").unwrap();
        assert_eq!(d.map, vec![(0, 7, 3), (1, 3, 1), (5, 6, 1)]);
    }

    #[test]
    fn agrees_with_pda() {
        for t in [
            "1", "01", "[1,]", "{\"a\" 1}", "nul", "\"\\x\"", "1 2", "-", "1.", "1e+", "", "[1 ", "{\"a\":1,\"a\":[]} ",
            "\"\\uD800\\uD800\\uDC00\\uDC00x\"", "[1e5x]", "1x", "[1 2]", "{\"a\":1 \"b\"}", "[\"\\uD800\"", "tru", "[nullx",
        ] {
            let s = scan(t);
            match decode(t) {
                Ok(d) => {
                    assert!(s.accepted, "{t}");
                    assert_eq!(d.faults, s.faults, "{t}");
                }
                Err(off) => {
                    assert!(!s.accepted, "{t}");
                    assert_eq!(off, s.viable, "{t}");
                }
            }
        }
    }
}
