//! R-unord: equality up to permutation of object entries, via recursively sorted
//! normal forms (entries form a multiset).

use crate::value::RV;

pub fn normal(v: &RV) -> RV {
    match v {
        RV::Arr(a) => RV::Arr(a.iter().map(normal).collect()),
        RV::Obj(o) => {
            let mut e: Vec<(String, RV)> = o.iter().map(|(k, v)| (k.clone(), normal(v))).collect();
            e.sort();
            RV::Obj(e)
        }
        other => other.clone(),
    }
}

pub fn unordered_eq(a: &RV, b: &RV) -> bool {
    normal(a) == normal(b)
}
