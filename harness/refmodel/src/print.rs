//! R-print: compact serializer and layout printer (DESIGN A.5), written from the
//! option documentation of `json_syntax::print::Options`.

use crate::value::RV;

#[derive(Clone, Copy, Debug, PartialEq, Eq, Hash, PartialOrd, Ord)]
pub enum Indent {
    Spaces(u8),
    Tabs(u8),
}

#[derive(Clone, Copy, Debug, PartialEq, Eq, Hash, PartialOrd, Ord)]
pub enum Limit {
    Always,
    Item(usize),
    Width(usize),
    ItemOrWidth(usize, usize),
}

#[derive(Clone, Debug, PartialEq, Eq, Hash, PartialOrd, Ord)]
pub struct Opts {
    pub indent: Indent,
    pub array_begin: usize,
    pub array_end: usize,
    pub array_empty: usize,
    pub array_before_comma: usize,
    pub array_after_comma: usize,
    pub array_limit: Option<Limit>,
    pub object_begin: usize,
    pub object_end: usize,
    pub object_empty: usize,
    pub object_before_comma: usize,
    pub object_after_comma: usize,
    pub object_before_colon: usize,
    pub object_after_colon: usize,
    pub object_limit: Option<Limit>,
}

impl Opts {
    pub fn pretty() -> Self {
        Opts {
            indent: Indent::Spaces(2),
            array_begin: 1,
            array_end: 1,
            array_empty: 0,
            array_before_comma: 0,
            array_after_comma: 1,
            array_limit: Some(Limit::ItemOrWidth(1, 16)),
            object_begin: 1,
            object_end: 1,
            object_empty: 0,
            object_before_comma: 0,
            object_after_comma: 1,
            object_before_colon: 0,
            object_after_colon: 1,
            object_limit: Some(Limit::ItemOrWidth(1, 16)),
        }
    }

    pub fn compact() -> Self {
        Opts {
            indent: Indent::Spaces(0),
            array_begin: 0,
            array_end: 0,
            array_empty: 0,
            array_before_comma: 0,
            array_after_comma: 0,
            array_limit: None,
            object_begin: 0,
            object_end: 0,
            object_empty: 0,
            object_before_comma: 0,
            object_after_comma: 0,
            object_before_colon: 0,
            object_after_colon: 0,
            object_limit: None,
        }
    }

    pub fn inline() -> Self {
        Opts {
            indent: Indent::Spaces(0),
            array_limit: None,
            object_limit: None,
            ..Self::pretty()
        }
    }

    /// The 12 numeric spacing fields, in declaration order.
    pub fn numeric_fields(&mut self) -> [&mut usize; 12] {
        [
            &mut self.array_begin,
            &mut self.array_end,
            &mut self.array_empty,
            &mut self.array_before_comma,
            &mut self.array_after_comma,
            &mut self.object_begin,
            &mut self.object_end,
            &mut self.object_empty,
            &mut self.object_before_comma,
            &mut self.object_after_comma,
            &mut self.object_before_colon,
            &mut self.object_after_colon,
        ]
    }
}

/// RFC 8785 section 3.2.2.2 string literal.
pub fn lit(s: &str, out: &mut String) {
    out.push('"');
    for c in s.chars() {
        match c {
            '"' => out.push_str("\\\""),
            '\\' => out.push_str("\\\\"),
            '\u{8}' => out.push_str("\\b"),
            '\t' => out.push_str("\\t"),
            '\n' => out.push_str("\\n"),
            '\u{c}' => out.push_str("\\f"),
            '\r' => out.push_str("\\r"),
            c if (c as u32) < 0x20 => {
                const HEX: &[u8; 16] = b"0123456789abcdef";
                out.push_str("\\u00");
                out.push(HEX[(c as usize) >> 4] as char);
                out.push(HEX[(c as usize) & 15] as char);
            }
            c => out.push(c),
        }
    }
    out.push('"');
}

fn sp(n: usize, out: &mut String) {
    for _ in 0..n {
        out.push(' ');
    }
}

fn indent(i: Indent, depth: usize, out: &mut String) {
    let (c, n) = match i {
        Indent::Spaces(n) => (' ', n),
        Indent::Tabs(n) => ('\t', n),
    };
    for _ in 0..depth * n as usize {
        out.push(c);
    }
}

/// The one-line form of a value.
pub fn inline(v: &RV, o: &Opts, out: &mut String) {
    match v {
        RV::Null => out.push_str("null"),
        RV::Bool(true) => out.push_str("true"),
        RV::Bool(false) => out.push_str("false"),
        RV::Num(n) => out.push_str(n),
        RV::Str(s) => lit(s, out),
        RV::Arr(a) => {
            out.push('[');
            if a.is_empty() {
                sp(o.array_empty, out);
            } else {
                sp(o.array_begin, out);
                for (i, x) in a.iter().enumerate() {
                    if i > 0 {
                        sp(o.array_before_comma, out);
                        out.push(',');
                        sp(o.array_after_comma, out);
                    }
                    inline(x, o, out);
                }
                sp(o.array_end, out);
            }
            out.push(']');
        }
        RV::Obj(m) => {
            out.push('{');
            if m.is_empty() {
                sp(o.object_empty, out);
            } else {
                sp(o.object_begin, out);
                for (i, (k, x)) in m.iter().enumerate() {
                    if i > 0 {
                        sp(o.object_before_comma, out);
                        out.push(',');
                        sp(o.object_after_comma, out);
                    }
                    lit(k, out);
                    sp(o.object_before_colon, out);
                    out.push(':');
                    sp(o.object_after_colon, out);
                    inline(x, o, out);
                }
                sp(o.object_end, out);
            }
            out.push('}');
        }
    }
}

/// Number of characters of the one-line form.
pub fn inline_width(v: &RV, o: &Opts) -> usize {
    let mut s = String::new();
    inline(v, o, &mut s);
    s.chars().count()
}

fn over_limit(limit: Option<Limit>, len: usize, chars: usize) -> bool {
    match limit {
        None => false,
        Some(Limit::Always) => true,
        Some(Limit::Item(i)) => len > i,
        Some(Limit::Width(w)) => chars > w,
        Some(Limit::ItemOrWidth(i, w)) => len > i || chars > w,
    }
}

/// Is the container `v` printed in expanded form?
pub fn expanded(v: &RV, o: &Opts) -> bool {
    match v {
        RV::Arr(a) => a.iter().any(|c| expanded(c, o)) || over_limit(o.array_limit, a.len(), inline_width(v, o)),
        RV::Obj(m) => {
            m.iter().any(|(_, c)| expanded(c, o)) || over_limit(o.object_limit, m.len(), inline_width(v, o))
        }
        _ => false,
    }
}

pub fn print_at(v: &RV, o: &Opts, d: usize, out: &mut String) {
    if !expanded(v, o) {
        inline(v, o, out);
        return;
    }
    match v {
        RV::Arr(a) => {
            out.push('[');
            out.push('\n');
            for (j, c) in a.iter().enumerate() {
                if j > 0 {
                    sp(o.array_before_comma, out);
                    out.push_str(",\n");
                }
                indent(o.indent, d + 1, out);
                print_at(c, o, d + 1, out);
            }
            if !a.is_empty() {
                out.push('\n');
            }
            indent(o.indent, d, out);
            out.push(']');
        }
        RV::Obj(m) => {
            out.push('{');
            out.push('\n');
            for (j, (k, c)) in m.iter().enumerate() {
                if j > 0 {
                    sp(o.object_before_comma, out);
                    out.push_str(",\n");
                }
                indent(o.indent, d + 1, out);
                lit(k, out);
                sp(o.object_before_colon, out);
                out.push(':');
                sp(o.object_after_colon, out);
                print_at(c, o, d + 1, out);
            }
            if !m.is_empty() {
                out.push('\n');
            }
            indent(o.indent, d, out);
            out.push('}');
        }
        _ => unreachable!(),
    }
}

pub fn print(v: &RV, o: &Opts) -> String {
    let mut s = String::new();
    print_at(v, o, 0, &mut s);
    s
}

pub fn compact(v: &RV) -> String {
    print(v, &Opts::compact())
}

/// All one-line widths of the containers inside `v` under `o` (used to build thresholds
/// that straddle the actual widths).
pub fn container_widths(v: &RV, o: &Opts, out: &mut Vec<usize>) {
    match v {
        RV::Arr(a) => {
            out.push(inline_width(v, o));
            for c in a {
                container_widths(c, o, out);
            }
        }
        RV::Obj(m) => {
            out.push(inline_width(v, o));
            for (_, c) in m {
                container_widths(c, o, out);
            }
        }
        _ => {}
    }
}

#[cfg(test)]
mod tests {
    use super::*;

    #[test]
    fn compact_basic() {
        let v = RV::Obj(vec![
            ("a".into(), RV::Arr(vec![RV::num("1"), RV::Null])),
            ("b\n".into(), RV::str("\u{1}\u{7f}/")),
        ]);
        assert_eq!(compact(&v), "{\"a\":[1,null],\"b\\n\":\"\\u0001\u{7f}/\"}");
    }

    #[test]
    fn pretty_basic() {
        let v = RV::Arr(vec![RV::num("1"), RV::Arr(vec![]), RV::Obj(vec![("k".into(), RV::Null)])]);
        assert_eq!(print(&v, &Opts::pretty()), "[\n  1,\n  [],\n  { \"k\": null }\n]");
    }
}
