//! R-print: compact serializer and layout printer (DESIGN A.5), written from the
//! option documentation of `json_syntax::print::Options`.

use crate::value::RV;

#[derive(Clone, Copy, Debug, PartialEq, Eq, Hash, PartialOrd, Ord)]
pub enum Indent {
    Spaces(u8),
    Tabs(u8),
}

#[derive(Clone, Copy, Debug, PartialEq, Eq, Hash, PartialOrd, Ord)]
pub enum Limit {
    Always,
    Item(usize),
    Width(usize),
    ItemOrWidth(usize, usize),
}

#[derive(Clone, Debug, PartialEq, Eq, Hash, PartialOrd, Ord)]
pub struct Opts {
    pub indent: Indent,
    pub array_begin: usize,
    pub array_end: usize,
    pub array_empty: usize,
    pub array_before_comma: usize,
    pub array_after_comma: usize,
    pub array_limit: Option<Limit>,
    pub object_begin: usize,
    pub object_end: usize,
    pub object_empty: usize,
    pub object_before_comma: usize,
    pub object_after_comma: usize,
    pub object_before_colon: usize,
    pub object_after_colon: usize,
    pub object_limit: Option<Limit>,
}

impl Opts {
    pub fn pretty() -> Self {
        Opts {
            indent: Indent::Spaces(2),
            array_begin: 1,
            array_end: 1,
            array_empty: 0,
            array_before_comma: 0,
            array_after_comma: 1,
            array_limit: Some(Limit::ItemOrWidth(1, 16)),
            object_begin: 1,
            object_end: 1,
            object_empty: 0,
            object_before_comma: 0,
            object_after_comma: 1,
            object_before_colon: 0,
            object_after_colon: 1,
            object_limit: Some(Limit::ItemOrWidth(1, 16)),
        }
    }

    pub fn compact() -> Self {
        Opts {
            indent: Indent::Spaces(0),
            array_begin: 0,
            array_end: 0,
            array_empty: 0,
            array_before_comma: 0,
            array_after_comma: 0,
            array_limit: None,
            object_begin: 0,
            object_end: 0,
            object_empty: 0,
            object_before_comma: 0,
            object_after_comma: 0,
            object_before_colon: 0,
            object_after_colon: 0,
            object_limit: None,
        }
    }

    pub fn inline() -> Self {
        Opts {
            indent: Indent::Spaces(0),
            array_limit: None,
            object_limit: None,
            ..Self::pretty()
        }
    }

    /// The 12 numeric spacing fields, in declaration order.
    pub fn numeric_fields(&mut self) -> [&mut usize; 12] {
        [
            &mut self.array_begin,
            &mut self.array_end,
            &mut self.array_empty,
            &mut self.array_before_comma,
            &mut self.array_after_comma,
            &mut self.object_begin,
            &mut self.object_end,
            &mut self.object_empty,
            &mut self.object_before_comma,
            &mut self.object_after_comma,
            &mut self.object_before_colon,
            &mut self.object_after_colon,
        ]
    }
}

/// RFC 8785 section 3.2.2.2 string literal.
pub fn lit(s: &str, out: &mut String) {
    out.push('"');
    for c in s.chars() {
        match c {
            '"' => out.push_str("\\\""),
            '\\' => out.push_str("\\\\"),
            '\u{8}' => out.push_str("\\b"),
            '\t' => out.push_str("\\t"),
            '\n' => out.push_str("\\n"),
            '\u{c}' => out.push_str("\\f"),
            '\r' => out.push_str("\\r"),
            c if (c as u32) < 0x20 => {
                const HEX: &[u8; 16] = b"0123456789abcdef";
                out.push_str("\\u00");
                out.push(HEX[(c as usize) >> 4] as char);
                out.push(HEX[(c as usize) & 15] as char);
            }
            c => out.push(c),
        }
    }
    out.push('"');
}

fn sp(n: usize, out: &mut String) {
    for _ in 0..n {
        out.push(' ');
    }
}

/// One indentation unit of the record, as text.
pub fn indent_unit(o: &Opts) -> String {
    let mut s = String::new();
    indent(o.indent, 1, &mut s);
    s
}

fn indent(i: Indent, depth: usize, out: &mut String) {
    let (c, n) = match i {
        Indent::Spaces(n) => (' ', n),
        Indent::Tabs(n) => ('\t', n),
    };
    for _ in 0..depth * n as usize {
        out.push(c);
    }
}

/// The one-line form of a value.
pub fn inline(v: &RV, o: &Opts, out: &mut String) {
    match v {
        RV::Null => out.push_str("null"),
        RV::Bool(true) => out.push_str("true"),
        RV::Bool(false) => out.push_str("false"),
        RV::Num(n) => out.push_str(n),
        RV::Str(s) => lit(s, out),
        RV::Arr(a) => {
            out.push('[');
            if a.is_empty() {
                sp(o.array_empty, out);
            } else {
                sp(o.array_begin, out);
                for (i, x) in a.iter().enumerate() {
                    if i > 0 {
                        sp(o.array_before_comma, out);
                        out.push(',');
                        sp(o.array_after_comma, out);
                    }
                    inline(x, o, out);
                }
                sp(o.array_end, out);
            }
            out.push(']');
        }
        RV::Obj(m) => {
            out.push('{');
            if m.is_empty() {
                sp(o.object_empty, out);
            } else {
                sp(o.object_begin, out);
                for (i, (k, x)) in m.iter().enumerate() {
                    if i > 0 {
                        sp(o.object_before_comma, out);
                        out.push(',');
                        sp(o.object_after_comma, out);
                    }
                    lit(k, out);
                    sp(o.object_before_colon, out);
                    out.push(':');
                    sp(o.object_after_colon, out);
                    inline(x, o, out);
                }
                sp(o.object_end, out);
            }
            out.push('}');
        }
    }
}

/// Number of characters of the one-line form.
pub fn inline_width(v: &RV, o: &Opts) -> usize {
    let mut s = String::new();
    inline(v, o, &mut s);
    s.chars().count()
}

fn over_limit(limit: Option<Limit>, len: usize, chars: usize) -> bool {
    match limit {
        None => false,
        Some(Limit::Always) => true,
        Some(Limit::Item(i)) => len > i,
        Some(Limit::Width(w)) => chars > w,
        Some(Limit::ItemOrWidth(i, w)) => len > i || chars > w,
    }
}

/// Is the container `v` printed in expanded form? (definition; `Plan` computes the same
/// bottom-up in one pass)
pub fn expanded(v: &RV, o: &Opts) -> bool {
    match v {
        RV::Arr(a) => a.iter().any(|c| expanded(c, o)) || over_limit(o.array_limit, a.len(), inline_width(v, o)),
        RV::Obj(m) => {
            m.iter().any(|(_, c)| expanded(c, o)) || over_limit(o.object_limit, m.len(), inline_width(v, o))
        }
        _ => false,
    }
}

/// The layout decision for every container, computed bottom-up: the one-line text of each
/// node is built once from the one-line texts of its children and *measured* (number of
/// characters actually printed), then the limits are applied.
pub struct Plan {
    pub inline: String,
    pub width: usize,
    pub expanded: bool,
    pub children: Vec<Plan>,
}

pub fn plan(v: &RV, o: &Opts) -> Plan {
    match v {
        RV::Arr(a) => {
            let children: Vec<Plan> = a.iter().map(|c| plan(c, o)).collect();
            let mut s = String::from("[");
            if a.is_empty() {
                sp(o.array_empty, &mut s);
            } else {
                sp(o.array_begin, &mut s);
                for (i, c) in children.iter().enumerate() {
                    if i > 0 {
                        sp(o.array_before_comma, &mut s);
                        s.push(',');
                        sp(o.array_after_comma, &mut s);
                    }
                    s.push_str(&c.inline);
                }
                sp(o.array_end, &mut s);
            }
            s.push(']');
            let width = s.chars().count();
            let expanded = children.iter().any(|c| c.expanded) || over_limit(o.array_limit, a.len(), width);
            Plan { inline: s, width, expanded, children }
        }
        RV::Obj(m) => {
            let children: Vec<Plan> = m.iter().map(|(_, c)| plan(c, o)).collect();
            let mut s = String::from("{");
            if m.is_empty() {
                sp(o.object_empty, &mut s);
            } else {
                sp(o.object_begin, &mut s);
                for (i, ((k, _), c)) in m.iter().zip(children.iter()).enumerate() {
                    if i > 0 {
                        sp(o.object_before_comma, &mut s);
                        s.push(',');
                        sp(o.object_after_comma, &mut s);
                    }
                    lit(k, &mut s);
                    sp(o.object_before_colon, &mut s);
                    s.push(':');
                    sp(o.object_after_colon, &mut s);
                    s.push_str(&c.inline);
                }
                sp(o.object_end, &mut s);
            }
            s.push('}');
            let width = s.chars().count();
            let expanded = children.iter().any(|c| c.expanded) || over_limit(o.object_limit, m.len(), width);
            Plan { inline: s, width, expanded, children }
        }
        leaf => {
            let mut s = String::new();
            inline(leaf, o, &mut s);
            let width = s.chars().count();
            Plan { inline: s, width, expanded: false, children: Vec::new() }
        }
    }
}

fn emit(v: &RV, p: &Plan, o: &Opts, d: usize, out: &mut String) {
    if !p.expanded {
        out.push_str(&p.inline);
        return;
    }
    match v {
        RV::Arr(a) => {
            out.push('[');
            out.push('\n');
            for (j, (c, cp)) in a.iter().zip(&p.children).enumerate() {
                if j > 0 {
                    sp(o.array_before_comma, out);
                    out.push_str(",\n");
                }
                indent(o.indent, d + 1, out);
                emit(c, cp, o, d + 1, out);
            }
            if !a.is_empty() {
                out.push('\n');
            }
            indent(o.indent, d, out);
            out.push(']');
        }
        RV::Obj(m) => {
            out.push('{');
            out.push('\n');
            for (j, ((k, c), cp)) in m.iter().zip(&p.children).enumerate() {
                if j > 0 {
                    sp(o.object_before_comma, out);
                    out.push_str(",\n");
                }
                indent(o.indent, d + 1, out);
                lit(k, out);
                sp(o.object_before_colon, out);
                out.push(':');
                sp(o.object_after_colon, out);
                emit(c, cp, o, d + 1, out);
            }
            if !m.is_empty() {
                out.push('\n');
            }
            indent(o.indent, d, out);
            out.push('}');
        }
        _ => unreachable!(),
    }
}

/// Prints `v` under `o`; returns the text and whether the root is expanded.
pub fn print_planned(v: &RV, o: &Opts) -> (String, bool) {
    let p = plan(v, o);
    let mut s = String::new();
    emit(v, &p, o, 0, &mut s);
    (s, p.expanded)
}

pub fn print(v: &RV, o: &Opts) -> String {
    print_planned(v, o).0
}

/// The direct (definitional, slower) printer, kept to cross-check the planned one.
pub fn print_direct(v: &RV, o: &Opts) -> String {
    let mut s = String::new();
    print_at(v, o, 0, &mut s);
    s
}

pub fn print_at(v: &RV, o: &Opts, d: usize, out: &mut String) {
    if !expanded(v, o) {
        inline(v, o, out);
        return;
    }
    match v {
        RV::Arr(a) => {
            out.push('[');
            out.push('\n');
            for (j, c) in a.iter().enumerate() {
                if j > 0 {
                    sp(o.array_before_comma, out);
                    out.push_str(",\n");
                }
                indent(o.indent, d + 1, out);
                print_at(c, o, d + 1, out);
            }
            if !a.is_empty() {
                out.push('\n');
            }
            indent(o.indent, d, out);
            out.push(']');
        }
        RV::Obj(m) => {
            out.push('{');
            out.push('\n');
            for (j, (k, c)) in m.iter().enumerate() {
                if j > 0 {
                    sp(o.object_before_comma, out);
                    out.push_str(",\n");
                }
                indent(o.indent, d + 1, out);
                lit(k, out);
                sp(o.object_before_colon, out);
                out.push(':');
                sp(o.object_after_colon, out);
                print_at(c, o, d + 1, out);
            }
            if !m.is_empty() {
                out.push('\n');
            }
            indent(o.indent, d, out);
            out.push('}');
        }
        _ => unreachable!(),
    }
}

pub fn compact(v: &RV) -> String {
    print(v, &Opts::compact())
}

/// All one-line widths of the containers inside `v` under `o` (used to build thresholds
/// that straddle the actual widths).
pub fn container_widths(v: &RV, o: &Opts, out: &mut Vec<usize>) {
    fn go(v: &RV, p: &Plan, out: &mut Vec<usize>) {
        if v.is_container() {
            out.push(p.width);
        }
        for c in &p.children {
            // children of a container are in the same order as the plan's
            let _ = c;
        }
        match v {
            RV::Arr(a) => a.iter().zip(&p.children).for_each(|(c, cp)| go(c, cp, out)),
            RV::Obj(m) => m.iter().zip(&p.children).for_each(|((_, c), cp)| go(c, cp, out)),
            _ => {}
        }
    }
    go(v, &plan(v, o), out)
}

#[cfg(test)]
mod tests {
    use super::*;

    #[test]
    fn compact_basic() {
        let v = RV::Obj(vec![
            ("a".into(), RV::Arr(vec![RV::num("1"), RV::Null])),
            ("b\n".into(), RV::str("\u{1}\u{7f}/")),
        ]);
        assert_eq!(compact(&v), "{\"a\":[1,null],\"b\\n\":\"\\u0001\u{7f}/\"}");
    }

    #[test]
    fn planned_equals_direct() {
        use crate::value::Gen;
        let leaves = [RV::num("0"), RV::str("ab"), RV::Null];
        let keys = ["a", "bb"];
        let g = Gen::new(&leaves, &keys, 4);
        for v in g.up_to(4) {
            for base in [Opts::pretty(), Opts::compact(), Opts::inline()] {
                for lim in [None, Some(Limit::Always), Some(Limit::Item(1)), Some(Limit::Width(7)), Some(Limit::ItemOrWidth(2, 9))] {
                    let mut o = base.clone();
                    o.array_limit = lim;
                    o.object_empty = 2;
                    o.array_begin = 2;
                    assert_eq!(print(&v, &o), print_direct(&v, &o));
                    o.object_limit = lim;
                    assert_eq!(print(&v, &o), print_direct(&v, &o));
                }
            }
        }
    }

    #[test]
    fn pretty_basic() {
        let v = RV::Arr(vec![RV::num("1"), RV::Arr(vec![]), RV::Obj(vec![("k".into(), RV::Null)])]);
        assert_eq!(print(&v, &Opts::pretty()), "[\n  1,\n  [],\n  { \"k\": null }\n]");
    }
}
