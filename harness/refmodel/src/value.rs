//! Abstract JSON values (the reference's view of a document) and the
//! bounded-exhaustive value enumerator (engine E-ENUM).

use std::fmt::Write;

#[derive(Clone, Debug, PartialEq, Eq, PartialOrd, Ord, Hash)]
pub enum RV {
    Null,
    Bool(bool),
    /// A number, kept as its source spelling.
    Num(String),
    Str(String),
    Arr(Vec<RV>),
    /// Entries in order, duplicates kept.
    Obj(Vec<(String, RV)>),
}

impl RV {
    pub fn num(s: &str) -> RV {
        RV::Num(s.to_string())
    }
    pub fn str(s: &str) -> RV {
        RV::Str(s.to_string())
    }

    /// Number of value nodes (every leaf and every container counts one).
    pub fn size(&self) -> usize {
        match self {
            RV::Arr(a) => 1 + a.iter().map(RV::size).sum::<usize>(),
            RV::Obj(o) => 1 + o.iter().map(|(_, v)| v.size()).sum::<usize>(),
            _ => 1,
        }
    }

    /// Number of fragments (values, entries, keys).
    pub fn fragments(&self) -> usize {
        match self {
            RV::Arr(a) => 1 + a.iter().map(RV::fragments).sum::<usize>(),
            RV::Obj(o) => 1 + o.iter().map(|(_, v)| 2 + v.fragments()).sum::<usize>(),
            _ => 1,
        }
    }

    pub fn is_container(&self) -> bool {
        matches!(self, RV::Arr(_) | RV::Obj(_))
    }

    pub fn has_duplicate_keys(&self) -> bool {
        match self {
            RV::Arr(a) => a.iter().any(RV::has_duplicate_keys),
            RV::Obj(o) => {
                for (i, (k, v)) in o.iter().enumerate() {
                    if v.has_duplicate_keys() || o[..i].iter().any(|(k2, _)| k2 == k) {
                        return true;
                    }
                }
                false
            }
            _ => false,
        }
    }

    /// A plain debugging/evidence rendering (compact JSON with the reference escaping).
    pub fn show(&self) -> String {
        let mut s = String::new();
        self.show_into(&mut s);
        s
    }

    fn show_into(&self, out: &mut String) {
        match self {
            RV::Null => out.push_str("null"),
            RV::Bool(true) => out.push_str("true"),
            RV::Bool(false) => out.push_str("false"),
            RV::Num(n) => out.push_str(n),
            RV::Str(s) => show_str(s, out),
            RV::Arr(a) => {
                out.push('[');
                for (i, v) in a.iter().enumerate() {
                    if i > 0 {
                        out.push(',');
                    }
                    v.show_into(out);
                }
                out.push(']');
            }
            RV::Obj(o) => {
                out.push('{');
                for (i, (k, v)) in o.iter().enumerate() {
                    if i > 0 {
                        out.push(',');
                    }
                    show_str(k, out);
                    out.push(':');
                    v.show_into(out);
                }
                out.push('}');
            }
        }
    }
}

fn show_str(s: &str, out: &mut String) {
    out.push('"');
    for c in s.chars() {
        match c {
            '"' => out.push_str("\\\""),
            '\\' => out.push_str("\\\\"),
            c if (c as u32) < 0x20 || c == '\u{7f}' || c == '\u{2028}' || c == '\u{2029}' => {
                write!(out, "\\u{:04x}", c as u32).unwrap()
            }
            c => out.push(c),
        }
    }
    out.push('"');
}

/// All values with exactly `n` value nodes over the given leaves and keys.
///
/// Arrays and objects are ordered sequences of children; an object child carries one
/// of `keys` (repetition allowed, so duplicate keys are included).
pub struct Gen<'a> {
    pub leaves: &'a [RV],
    pub keys: &'a [&'a str],
    /// `by_size[n]` = all values with exactly n nodes (index 0 unused).
    by_size: Vec<Vec<RV>>,
}

impl<'a> Gen<'a> {
    pub fn new(leaves: &'a [RV], keys: &'a [&'a str], max: usize) -> Self {
        let mut g = Gen {
            leaves,
            keys,
            by_size: vec![Vec::new()],
        };
        for n in 1..=max {
            let mut out = Vec::new();
            if n == 1 {
                out.extend(leaves.iter().cloned());
            }
            // arrays: ordered sequences of children whose sizes sum to n - 1
            let mut seqs = Vec::new();
            g.sequences(n - 1, &mut Vec::new(), &mut seqs);
            for s in &seqs {
                out.push(RV::Arr(s.clone()));
            }
            if !keys.is_empty() {
                for s in &seqs {
                    // every assignment of keys to the children
                    let k = keys.len();
                    let total = k.pow(s.len() as u32);
                    for mut code in 0..total {
                        let mut entries = Vec::with_capacity(s.len());
                        for v in s {
                            entries.push((keys[code % k].to_string(), v.clone()));
                            code /= k;
                        }
                        out.push(RV::Obj(entries));
                    }
                }
            }
            g.by_size.push(out);
        }
        g
    }

    fn sequences(&self, budget: usize, cur: &mut Vec<RV>, out: &mut Vec<Vec<RV>>) {
        if budget == 0 {
            out.push(cur.clone());
            return;
        }
        for first in 1..=budget {
            for v in &self.by_size[first] {
                cur.push(v.clone());
                self.sequences(budget - first, cur, out);
                cur.pop();
            }
        }
    }

    pub fn exactly(&self, n: usize) -> &[RV] {
        &self.by_size[n]
    }

    /// All values with at most `n` nodes, simplest first.
    pub fn up_to(&self, n: usize) -> Vec<RV> {
        let mut v = Vec::new();
        for i in 1..=n {
            v.extend(self.by_size[i].iter().cloned());
        }
        v
    }

    /// The number of values with exactly n nodes, from the generating recurrence
    /// (computed independently of the generator; the generator must hit it).
    pub fn expected_count(leaves: usize, keys: usize, n: usize) -> u128 {
        // v[n] = [n==1]*leaves + seq_arr[n-1] + seq_obj[n-1]
        // s_a[m] = number of sequences of values with total size m; s_a[0] = 1
        // s_o[m] = same, each element additionally choosing one of `keys` keys
        let mut v = vec![0u128; n + 1];
        let mut sa = vec![0u128; n + 1];
        let mut so = vec![0u128; n + 1];
        sa[0] = 1;
        so[0] = 1;
        for m in 1..=n {
            v[m] = if m == 1 { leaves as u128 } else { 0 } + sa[m - 1] + if keys > 0 { so[m - 1] } else { 0 };
            // sequences of total m: first element size f, rest m - f
            let mut a = 0u128;
            let mut o = 0u128;
            for f in 1..=m {
                a += v[f] * sa[m - f];
                o += v[f] * keys as u128 * so[m - f];
            }
            sa[m] = a;
            so[m] = o;
        }
        v[n]
    }
}

#[cfg(test)]
mod tests {
    use super::*;

    #[test]
    fn counts_match() {
        let leaves = [RV::num("0"), RV::str("ab"), RV::Null];
        let keys = ["a", "bb"];
        let g = Gen::new(&leaves, &keys, 5);
        let mut total = 0;
        for n in 1..=5 {
            assert_eq!(g.exactly(n).len() as u128, Gen::expected_count(3, 2, n));
            total += g.exactly(n).len();
            if n == 4 {
                assert_eq!(total, 2575);
            }
        }
        assert_eq!(total, 40105);
        // no repetitions
        let mut all = g.up_to(5);
        all.sort();
        all.dedup();
        assert_eq!(all.len(), 40105);
    }
}
