//! R-obj: the ordered multimap model of `json_syntax::Object` (DESIGN A.4):
//! a plain `Vec<(String, V)>` with the documented semantics of every operation.

#[derive(Clone, Debug, PartialEq, Eq, Hash, PartialOrd, Ord)]
pub struct Model<V> {
    pub entries: Vec<(String, V)>,
}

impl<V> Default for Model<V> {
    fn default() -> Self {
        Model { entries: Vec::new() }
    }
}

impl<V: Clone + Ord> Model<V> {
    pub fn new() -> Self {
        Self::default()
    }

    pub fn len(&self) -> usize {
        self.entries.len()
    }

    pub fn is_empty(&self) -> bool {
        self.entries.is_empty()
    }

    pub fn positions(&self, k: &str) -> Vec<usize> {
        self.entries
            .iter()
            .enumerate()
            .filter(|(_, (k2, _))| k2 == k)
            .map(|(i, _)| i)
            .collect()
    }

    pub fn contains(&self, k: &str) -> bool {
        self.entries.iter().any(|(k2, _)| k2 == k)
    }

    /// append; result = key was absent
    pub fn push(&mut self, k: &str, v: V) -> bool {
        let fresh = !self.contains(k);
        self.entries.push((k.to_string(), v));
        fresh
    }

    /// prepend; result = key was absent
    pub fn push_front(&mut self, k: &str, v: V) -> bool {
        let fresh = !self.contains(k);
        self.entries.insert(0, (k.to_string(), v));
        fresh
    }

    pub fn remove_at(&mut self, i: usize) -> Option<(String, V)> {
        if i < self.entries.len() {
            Some(self.entries.remove(i))
        } else {
            None
        }
    }

    /// `insert`: None if the key was absent (appended). Otherwise the entries the
    /// returned iterator would yield, in order (the old first entry, then the other
    /// entries with that key); all of them are gone once the iterator is dropped.
    pub fn insert(&mut self, k: &str, v: V) -> Option<Vec<(String, V)>> {
        let p = self.positions(k);
        if p.is_empty() {
            self.entries.push((k.to_string(), v));
            return None;
        }
        let mut removed = Vec::new();
        let old = std::mem::replace(&mut self.entries[p[0]], (k.to_string(), v));
        removed.push(old);
        for &i in p[1..].iter().rev() {
            removed.insert(1, self.entries.remove(i));
        }
        Some(removed)
    }

    /// `insert_front`: the entries the returned iterator would yield.
    pub fn insert_front(&mut self, k: &str, v: V) -> Vec<(String, V)> {
        let mut removed = Vec::new();
        if !self.entries.is_empty() && self.entries[0].0 == k {
            let old = std::mem::replace(&mut self.entries[0], (k.to_string(), v));
            removed.push(old);
        } else {
            self.entries.insert(0, (k.to_string(), v));
        }
        let p: Vec<usize> = self.positions(k).into_iter().filter(|&i| i != 0).collect();
        let at = removed.len();
        for &i in p.iter().rev() {
            removed.insert(at, self.entries.remove(i));
        }
        removed
    }

    /// `remove(k)`: the entries with key k in order; all gone afterwards.
    pub fn remove(&mut self, k: &str) -> Vec<(String, V)> {
        let mut removed = Vec::new();
        let mut i = 0;
        while i < self.entries.len() {
            if self.entries[i].0 == k {
                removed.push(self.entries.remove(i));
            } else {
                i += 1;
            }
        }
        removed
    }

    /// `remove_unique(k)`: Ok(None) / Ok(Some(e)) / Err((first, second)); in the error
    /// case all entries with key k are gone (consequence of the removal iterator's drop).
    #[allow(clippy::type_complexity)]
    pub fn remove_unique(&mut self, k: &str) -> Result<Option<(String, V)>, ((String, V), (String, V))> {
        let mut r = self.remove(k);
        match r.len() {
            0 => Ok(None),
            1 => Ok(Some(r.pop().unwrap())),
            _ => {
                let second = r.remove(1);
                let first = r.remove(0);
                Err((first, second))
            }
        }
    }

    /// stable sort by (key bytes, value)
    /// RFC 8785 order: keys as UTF-16 code unit sequences (ties broken by value, as `sort`)
    pub fn sort_utf16(&mut self) {
        self.entries.sort_by(|a, b| a.0.encode_utf16().cmp(b.0.encode_utf16()).then_with(|| a.1.cmp(&b.1)));
    }

    pub fn sort(&mut self) {
        self.entries.sort_by(|a, b| a.0.as_bytes().cmp(b.0.as_bytes()).then_with(|| a.1.cmp(&b.1)));
    }

    /// first value of k, appending (k, f()) if absent
    pub fn get_or_insert_with(&mut self, k: &str, f: impl FnOnce() -> V) -> &mut V {
        let i = match self.positions(k).first() {
            Some(&i) => i,
            None => {
                self.entries.push((k.to_string(), f()));
                self.entries.len() - 1
            }
        };
        &mut self.entries[i].1
    }
}
