//! Reference models for the json-syntax verification harness.
//!
//! Everything here is written from RFC 8259, RFC 8785, ECMA-262 and the crate's
//! documentation; this crate does not depend on json-syntax.

pub mod canon;
pub mod dec;
pub mod obj;
pub mod pda;
pub mod print;
pub mod pump;
pub mod unord;
pub mod value;

pub use value::RV;
