//! R-pda: RFC 8259 as an explicit character-level pushdown automaton (DESIGN A.1),
//! plus the surrogate tracker of DESIGN A.3 driven by the automaton's string events.
//!
//! Written from the RFC; shares no code with json-syntax.

#[derive(Clone, Copy, Debug, PartialEq, Eq, Hash)]
enum Ctl {
    /// value expected (start of text, after `,` in an array, after `:`)
    V,
    /// after `[`: value or `]`
    A0,
    /// after an array item: `,` or `]`
    AN,
    /// after `{`: key or `}`
    O0,
    /// after `,` in an object: key
    OK,
    /// after a key: `:`
    OC,
    /// after a member value: `,` or `}`
    ON,
    /// after the root value
    End,
}

#[derive(Clone, Copy, Debug, PartialEq, Eq, Hash)]
enum Num {
    Minus,
    Zero,
    Int,
    Dot,
    Frac,
    E,
    ESign,
    Exp,
}

impl Num {
    fn is_final(self) -> bool {
        matches!(self, Num::Zero | Num::Int | Num::Frac | Num::Exp)
    }
}

#[derive(Clone, Copy, Debug, PartialEq, Eq, Hash)]
enum Lex {
    None,
    /// literal: which (0 null, 1 true, 2 false), characters matched so far
    Lit(u8, u8),
    Num(Num),
    /// string: is key, sub-state
    Str(bool, Str),
}

#[derive(Clone, Copy, Debug, PartialEq, Eq, Hash)]
enum Str {
    Plain,
    Backslash,
    /// after `\u` + n hex digits (n in 0..=3), value so far
    Hex(u8, u16),
}

const LITS: [&str; 3] = ["null", "true", "false"];

/// What a step of the automaton did inside a string (input of the surrogate tracker).
#[derive(Clone, Copy, Debug, PartialEq, Eq)]
pub enum StrEvent {
    /// Opening quote.
    Open,
    /// A raw character or a complete two-character escape (decoded character).
    Char(char),
    /// A complete `\uXXXX` escape with its code unit.
    Unit(u16),
    /// Closing quote.
    Close,
    /// Inside an incomplete escape: nothing completed.
    Partial,
}

#[derive(Clone, Debug, PartialEq, Eq, Hash)]
pub struct Pda {
    /// b'A' / b'O'
    stack: Vec<u8>,
    ctl: Ctl,
    lex: Lex,
    /// bytes consumed
    pub consumed: usize,
}

impl Default for Pda {
    fn default() -> Self {
        Self::new()
    }
}

fn is_ws(c: char) -> bool {
    matches!(c, ' ' | '\t' | '\n' | '\r')
}

impl Pda {
    pub fn new() -> Self {
        Pda {
            stack: Vec::new(),
            ctl: Ctl::V,
            lex: Lex::None,
            consumed: 0,
        }
    }

    pub fn depth(&self) -> usize {
        self.stack.len()
    }

    /// Accepting: the text consumed so far is a complete JSON text.
    pub fn is_accepting(&self) -> bool {
        match self.lex {
            Lex::None => self.ctl == Ctl::End,
            Lex::Num(n) => n.is_final() && self.stack.is_empty(),
            _ => false,
        }
    }

    /// True iff the automaton is inside a string literal (between the quotes).
    pub fn in_string(&self) -> bool {
        matches!(self.lex, Lex::Str(..))
    }

    fn after_value(&mut self) {
        self.lex = Lex::None;
        self.ctl = match self.stack.last() {
            None => Ctl::End,
            Some(b'A') => Ctl::AN,
            Some(_) => Ctl::ON,
        };
    }

    /// Feeds one character. Returns `Err(())` if the automaton dies (nothing is
    /// consumed then); otherwise the string event, if the character was part of a string.
    pub fn step(&mut self, c: char) -> Result<Option<StrEvent>, ()> {
        let r = self.step_inner(c)?;
        self.consumed += c.len_utf8();
        Ok(r)
    }

    fn step_inner(&mut self, c: char) -> Result<Option<StrEvent>, ()> {
        match self.lex {
            Lex::Str(key, st) => {
                let ev = match st {
                    Str::Plain => match c {
                        '"' => {
                            if key {
                                self.lex = Lex::None;
                                self.ctl = Ctl::OC;
                            } else {
                                self.after_value();
                            }
                            StrEvent::Close
                        }
                        '\\' => {
                            self.lex = Lex::Str(key, Str::Backslash);
                            StrEvent::Partial
                        }
                        c if (c as u32) < 0x20 => return Err(()),
                        c => StrEvent::Char(c),
                    },
                    Str::Backslash => {
                        let d = match c {
                            '"' => '"',
                            '\\' => '\\',
                            '/' => '/',
                            'b' => '\u{8}',
                            'f' => '\u{c}',
                            'n' => '\n',
                            'r' => '\r',
                            't' => '\t',
                            'u' => {
                                self.lex = Lex::Str(key, Str::Hex(0, 0));
                                return Ok(Some(StrEvent::Partial));
                            }
                            _ => return Err(()),
                        };
                        self.lex = Lex::Str(key, Str::Plain);
                        StrEvent::Char(d)
                    }
                    Str::Hex(n, v) => {
                        let h = match c {
                            '0'..='9' => c as u16 - '0' as u16,
                            'a'..='f' => c as u16 - 'a' as u16 + 10,
                            'A'..='F' => c as u16 - 'A' as u16 + 10,
                            _ => return Err(()),
                        };
                        let v = (v << 4) | h;
                        if n == 3 {
                            self.lex = Lex::Str(key, Str::Plain);
                            StrEvent::Unit(v)
                        } else {
                            self.lex = Lex::Str(key, Str::Hex(n + 1, v));
                            StrEvent::Partial
                        }
                    }
                };
                Ok(Some(ev))
            }
            Lex::Lit(which, matched) => {
                let lit = LITS[which as usize].as_bytes();
                if c as u32 == lit[matched as usize] as u32 {
                    if matched as usize + 1 == lit.len() {
                        self.after_value();
                    } else {
                        self.lex = Lex::Lit(which, matched + 1);
                    }
                    Ok(None)
                } else {
                    Err(())
                }
            }
            Lex::Num(n) => {
                let next = match (n, c) {
                    (Num::Minus, '0') => Some(Num::Zero),
                    (Num::Minus, '1'..='9') => Some(Num::Int),
                    (Num::Zero, '.') | (Num::Int, '.') => Some(Num::Dot),
                    (Num::Zero, 'e' | 'E') | (Num::Int, 'e' | 'E') | (Num::Frac, 'e' | 'E') => {
                        Some(Num::E)
                    }
                    (Num::Int, '0'..='9') => Some(Num::Int),
                    (Num::Dot, '0'..='9') | (Num::Frac, '0'..='9') => Some(Num::Frac),
                    (Num::E, '+' | '-') => Some(Num::ESign),
                    (Num::E, '0'..='9') | (Num::ESign, '0'..='9') | (Num::Exp, '0'..='9') => {
                        Some(Num::Exp)
                    }
                    _ => None,
                };
                match next {
                    Some(n2) => {
                        self.lex = Lex::Num(n2);
                        Ok(None)
                    }
                    None => {
                        if n.is_final() {
                            // the number ends here; re-dispatch the character
                            let saved = self.clone();
                            self.after_value();
                            match self.step_inner(c) {
                                Ok(ev) => Ok(ev),
                                Err(()) => {
                                    *self = saved;
                                    Err(())
                                }
                            }
                        } else {
                            Err(())
                        }
                    }
                }
            }
            Lex::None => {
                if is_ws(c) {
                    return Ok(None);
                }
                match self.ctl {
                    Ctl::V => self.start_value(c),
                    Ctl::A0 => {
                        if c == ']' {
                            self.stack.pop();
                            self.after_value();
                            Ok(None)
                        } else {
                            self.start_value(c)
                        }
                    }
                    Ctl::AN => match c {
                        ',' => {
                            self.ctl = Ctl::V;
                            Ok(None)
                        }
                        ']' => {
                            self.stack.pop();
                            self.after_value();
                            Ok(None)
                        }
                        _ => Err(()),
                    },
                    Ctl::O0 => match c {
                        '}' => {
                            self.stack.pop();
                            self.after_value();
                            Ok(None)
                        }
                        '"' => {
                            self.lex = Lex::Str(true, Str::Plain);
                            Ok(Some(StrEvent::Open))
                        }
                        _ => Err(()),
                    },
                    Ctl::OK => match c {
                        '"' => {
                            self.lex = Lex::Str(true, Str::Plain);
                            Ok(Some(StrEvent::Open))
                        }
                        _ => Err(()),
                    },
                    Ctl::OC => match c {
                        ':' => {
                            self.ctl = Ctl::V;
                            Ok(None)
                        }
                        _ => Err(()),
                    },
                    Ctl::ON => match c {
                        ',' => {
                            self.ctl = Ctl::OK;
                            Ok(None)
                        }
                        '}' => {
                            self.stack.pop();
                            self.after_value();
                            Ok(None)
                        }
                        _ => Err(()),
                    },
                    Ctl::End => Err(()),
                }
            }
        }
    }

    fn start_value(&mut self, c: char) -> Result<Option<StrEvent>, ()> {
        match c {
            'n' => self.lex = Lex::Lit(0, 1),
            't' => self.lex = Lex::Lit(1, 1),
            'f' => self.lex = Lex::Lit(2, 1),
            '-' => self.lex = Lex::Num(Num::Minus),
            '0' => self.lex = Lex::Num(Num::Zero),
            '1'..='9' => self.lex = Lex::Num(Num::Int),
            '"' => {
                self.lex = Lex::Str(false, Str::Plain);
                return Ok(Some(StrEvent::Open));
            }
            '[' => {
                self.stack.push(b'A');
                self.ctl = Ctl::A0;
            }
            '{' => {
                self.stack.push(b'O');
                self.ctl = Ctl::O0;
            }
            _ => return Err(()),
        }
        Ok(None)
    }
}

/// Kind of surrogate fault (DESIGN A.3).
#[derive(Clone, Copy, Debug, PartialEq, Eq, Hash, PartialOrd, Ord)]
pub enum FaultKind {
    /// Unpaired high surrogate `hi`, revealed by a raw character, a two-character
    /// escape or the closing quote.
    UnpairedHighByChar,
    /// Unpaired high surrogate `hi`, revealed by a `\u` escape whose unit is `unit`.
    UnpairedHighByUnit,
    /// Lone low surrogate `unit`.
    LoneLow,
}

#[derive(Clone, Copy, Debug, PartialEq, Eq, Hash, PartialOrd, Ord)]
pub struct Fault {
    pub kind: FaultKind,
    /// the unpaired high surrogate (UnpairedHigh*) or 0
    pub hi: u16,
    /// the revealing unit (UnpairedHighByUnit), the lone low unit (LoneLow), or 0
    pub unit: u16,
    /// byte offset of the backslash of the (first) offending escape
    pub start: usize,
    /// number of bytes consumed when the fault becomes detectable
    pub detect: usize,
    /// whether the fault was revealed by the closing quote
    pub by_quote: bool,
}

impl Fault {
    pub fn is_unpaired_high(&self) -> bool {
        !matches!(self.kind, FaultKind::LoneLow)
    }
    /// Tolerated under the option record (truncated, invalid)?
    pub fn tolerated(&self, truncated: bool, invalid: bool) -> bool {
        if self.is_unpaired_high() {
            truncated
        } else {
            invalid
        }
    }
}

/// Surrogate tracker for one string (DESIGN A.3), fed with the string events and the
/// byte offsets *after* each event.
#[derive(Clone, Debug, Default, PartialEq, Eq, Hash)]
pub struct Sur {
    /// pending high surrogate and the offset of its backslash
    pending: Option<(u16, usize)>,
    /// offset at which the current element started (its first character)
    elem_start: usize,
    in_elem: bool,
}

impl Sur {
    /// `before` = bytes consumed before the character, `after` = after it.
    /// Returns up to two faults that became detectable with this character
    /// (two when a `\u` low-less unit both reveals a pending high and is itself a lone low).
    pub fn feed(&mut self, ev: StrEvent, before: usize, after: usize) -> [Option<Fault>; 2] {
        let mut out = [None, None];
        if !self.in_elem {
            self.elem_start = before;
        }
        match ev {
            StrEvent::Open => {
                self.pending = None;
                self.in_elem = false;
            }
            StrEvent::Partial => {
                self.in_elem = true;
            }
            StrEvent::Char(_) => {
                self.in_elem = false;
                if let Some((hi, start)) = self.pending.take() {
                    out[0] = Some(Fault {
                        kind: FaultKind::UnpairedHighByChar,
                        hi,
                        unit: 0,
                        start,
                        detect: after,
                        by_quote: false,
                    });
                }
            }
            StrEvent::Close => {
                self.in_elem = false;
                if let Some((hi, start)) = self.pending.take() {
                    out[0] = Some(Fault {
                        kind: FaultKind::UnpairedHighByChar,
                        hi,
                        unit: 0,
                        start,
                        detect: after,
                        by_quote: true,
                    });
                }
            }
            StrEvent::Unit(u) => {
                self.in_elem = false;
                let esc_start = self.elem_start;
                let is_high = (0xD800..=0xDBFF).contains(&u);
                let is_low = (0xDC00..=0xDFFF).contains(&u);
                match self.pending.take() {
                    Some((_hi, _)) if is_low => {
                        // pair combined
                    }
                    Some((hi, start)) => {
                        out[0] = Some(Fault {
                            kind: FaultKind::UnpairedHighByUnit,
                            hi,
                            unit: u,
                            start,
                            detect: after,
                            by_quote: false,
                        });
                        if is_high {
                            self.pending = Some((u, esc_start));
                        }
                    }
                    None => {
                        if is_high {
                            self.pending = Some((u, esc_start));
                        } else if is_low {
                            out[0] = Some(Fault {
                                kind: FaultKind::LoneLow,
                                hi: 0,
                                unit: u,
                                start: esc_start,
                                detect: after,
                                by_quote: false,
                            });
                        }
                    }
                }
            }
        }
        out
    }
}

/// The reference recogniser: automaton + surrogate tracker, incremental.
#[derive(Clone, Debug, Default, PartialEq, Eq, Hash)]
pub struct Machine {
    pub pda: Pda,
    sur: Sur,
    /// faults in order of detection
    pub faults: Vec<Fault>,
}

impl Machine {
    pub fn new() -> Self {
        Self::default()
    }

    /// Feeds one character; `Err(())` when the automaton dies on it (state unchanged).
    pub fn step(&mut self, c: char) -> Result<(), ()> {
        let before = self.pda.consumed;
        let ev = self.pda.step(c)?;
        if let Some(ev) = ev {
            for f in self.sur.feed(ev, before, self.pda.consumed).into_iter().flatten() {
                self.faults.push(f);
            }
        }
        Ok(())
    }

    /// Feeds a whole string; returns the number of bytes consumed before dying
    /// (= `s.len()` if it stayed alive).
    pub fn feed(&mut self, s: &str) -> usize {
        for (i, c) in s.char_indices() {
            if self.step(c).is_err() {
                return i;
            }
        }
        s.len()
    }

    pub fn first_untolerated(&self, truncated: bool, invalid: bool) -> Option<&Fault> {
        self.faults.iter().find(|f| !f.tolerated(truncated, invalid))
    }
}

/// Result of running the reference recogniser over a whole text.
#[derive(Clone, Debug, PartialEq, Eq)]
pub struct Scan {
    /// length of the longest viable prefix (bytes)
    pub viable: usize,
    /// the character at `viable`, if any
    pub offender: Option<char>,
    /// grammar-level acceptance (ignoring surrogate faults)
    pub accepted: bool,
    pub faults: Vec<Fault>,
}

pub fn scan(s: &str) -> Scan {
    let mut m = Machine::new();
    let viable = m.feed(s);
    Scan {
        viable,
        offender: s[viable..].chars().next(),
        accepted: viable == s.len() && m.pda.is_accepting(),
        faults: m.faults,
    }
}

#[cfg(test)]
mod tests {
    use super::*;

    #[test]
    fn basics() {
        for ok in [
            "1", " 1 ", "-0", "0.5e+10", "[]", "{}", "[1,2]", "{\"a\":1}", "\"\\u00e9\"", "null", " true\n",
            "[[[]]]", "{\"a\":{\"b\":[1,{}]}}", "\"\\uD800\"", "0e0", "-1.5E-2",
        ] {
            let s = scan(ok);
            assert!(s.accepted, "{ok}");
        }
        for (bad, off) in [
            ("01", 1),
            ("[1,]", 3),
            ("{\"a\" 1}", 5),
            ("nul", 3),
            ("nulx", 3),
            ("\"\\x\"", 2),
            ("1 2", 2),
            ("-", 1),
            ("1.", 2),
            ("1.e", 2),
            ("1e+", 3),
            ("", 0),
            ("[1 ", 3),
            ("\"\u{1}\"", 1),
            ("{,}", 1),
            ("[}", 1),
            ("1\u{a0}", 1),
            ("truefalse", 4),
        ] {
            let s = scan(bad);
            assert!(!s.accepted, "{bad}");
            assert_eq!(s.viable, off, "{bad}");
        }
    }

    #[test]
    fn surrogates() {
        let s = scan("\"\\uD800a\"");
        assert!(s.accepted);
        assert_eq!(s.faults.len(), 1);
        assert_eq!(s.faults[0].kind, FaultKind::UnpairedHighByChar);
        assert_eq!((s.faults[0].start, s.faults[0].detect), (1, 8));
        let s = scan("\"\\uD800\\uDC00\"");
        assert!(s.faults.is_empty());
        let s = scan("\"\\uDC00\"");
        assert_eq!(s.faults[0].kind, FaultKind::LoneLow);
        assert_eq!((s.faults[0].start, s.faults[0].detect), (1, 7));
        let s = scan("\"\\uD800\\uD800\\uDC00\"");
        assert_eq!(s.faults.len(), 1);
        assert_eq!(s.faults[0].kind, FaultKind::UnpairedHighByUnit);
        assert_eq!(s.faults[0].unit, 0xD800);
        let s = scan("\"\\uD800\"");
        assert_eq!(s.faults.len(), 1);
        assert!(s.faults[0].by_quote);
        assert_eq!(s.faults[0].detect, 8);
        // a high followed by a non-surrogate unit that is a lone low? (not possible) — but
        // high followed by low-less BMP unit: one fault only
        let s = scan("\"\\uD800\\u0041\"");
        assert_eq!(s.faults.len(), 1);
    }
}
