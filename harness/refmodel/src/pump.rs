//! Linear "pumped" families: one dimension of a small value pushed through the size
//! thresholds at which implementations typically change behaviour (inline -> heap storage at
//! 16 bytes, hash-table growth, u8 / u16 counters, buffer sizes). A bounded-exhaustive search
//! over small values says nothing about these; each family here is a one-parameter sequence,
//! every member of which is executed.

use crate::value::RV;

/// Every size 0..=136 (magic constants of an implementation need not be powers of two: 48, 100,
/// 123 ...), every multiple of 16 up to 1 024 with its two neighbours, and the neighbourhoods of
/// the powers of two up to 2^16.
pub fn thresholds(max: usize) -> Vec<usize> {
    let mut v: Vec<usize> = (0..=136).collect();
    for k in 9..=64 {
        v.extend([16 * k - 1, 16 * k, 16 * k + 1]);
    }
    for p in [2047, 2048, 2049, 4095, 4096, 4097, 16383, 16384, 16385, 65535, 65536, 65537] {
        v.push(p);
    }
    v.sort();
    v.dedup();
    v.retain(|&n| n <= max);
    v
}

#[derive(Clone, Copy, Debug, PartialEq, Eq)]
pub enum Family {
    /// a string of n ASCII characters
    AsciiString,
    /// a string of n characters ending in a 2-byte and a 4-byte character
    MixedString,
    /// a string of n characters that each need an escape (quote, backslash, control)
    EscapedString,
    /// a string of n characters in which the extra bytes of multi-byte characters exactly
    /// cancel the extra characters of the escapes (byte length + 2 == printed size)
    BalancedString,
    /// n plain characters, then one character of a different kind, then a plain tail: the
    /// position of the deciding character runs through every size (control character, quote,
    /// 4-byte character; and a run of 2-byte characters before a control character)
    RunThenControl,
    RunThenQuote,
    RunThenWide,
    WideRunThenControl,
    /// an object with one key of n characters
    LongKey,
    /// an array of n small numbers
    Array,
    /// an object with n distinct short keys
    DistinctKeys,
    /// an object with n distinct keys longer than 16 bytes
    DistinctLongKeys,
    /// an object with n entries carrying the same key
    DuplicateKey,
    /// an object with n/2 + n/2 entries of two interleaved keys
    InterleavedDuplicates,
    /// an integer with n digits
    Integer,
    /// a decimal with n fraction digits
    Fraction,
    /// an array whose only item is an object whose only member is an array of n items
    NestedArray,
    /// two parameters at once: an object with `count` distinct keys of `len` bytes each, for
    /// the n-th point of the grid lengths {17, 33, 63, 64, 65, 129, 257} x counts {4, 8, 15, 29, 57}
    /// (key length thresholds x growth points of the key index)
    KeyGrid,
    /// the same grid with every key occurring twice (the second round after all first ones)
    KeyGridDup,
}

pub const GRID_LENS: [usize; 7] = [17, 33, 63, 64, 65, 129, 257];
pub const GRID_COUNTS: [usize; 5] = [4, 8, 15, 29, 57];

fn grid_key(len: usize, i: usize) -> String {
    // the index at both ends, so that neither a prefix nor a suffix of the key identifies it alone
    let mut k = format!("{i:03}");
    while k.len() + 3 < len {
        k.push('k');
    }
    k.push_str(&format!("{i:03}"));
    k
}

pub const FAMILIES: [Family; 19] = [
    Family::AsciiString,
    Family::MixedString,
    Family::EscapedString,
    Family::BalancedString,
    Family::RunThenControl,
    Family::RunThenQuote,
    Family::RunThenWide,
    Family::WideRunThenControl,
    Family::LongKey,
    Family::Array,
    Family::DistinctKeys,
    Family::DistinctLongKeys,
    Family::DuplicateKey,
    Family::InterleavedDuplicates,
    Family::Integer,
    Family::Fraction,
    Family::NestedArray,
    Family::KeyGrid,
    Family::KeyGridDup,
];

impl Family {
    /// the largest parameter that is affordable for this family
    pub fn max(self, thorough: bool) -> usize {
        match self {
            Family::AsciiString | Family::MixedString | Family::EscapedString | Family::BalancedString | Family::LongKey | Family::Array | Family::NestedArray => 65537,
            Family::RunThenControl | Family::RunThenQuote | Family::RunThenWide | Family::WideRunThenControl => 4097,
            Family::Integer | Family::Fraction => 4097,
            Family::KeyGrid | Family::KeyGridDup => GRID_LENS.len() * GRID_COUNTS.len() - 1,
            Family::DistinctKeys | Family::DistinctLongKeys => {
                if thorough {
                    16385
                } else {
                    4097
                }
            }
            Family::DuplicateKey | Family::InterleavedDuplicates => {
                if thorough {
                    4097
                } else {
                    513
                }
            }
        }
    }

    pub fn build(self, n: usize) -> RV {
        match self {
            Family::AsciiString => RV::Str("a".repeat(n)),
            Family::MixedString => {
                // multi-byte characters at the start, in the middle and at the end
                let mut s = String::new();
                for i in 0..n {
                    s.push(if i == 0 || i == n / 2 {
                        '\u{e9}'
                    } else if i + 1 == n {
                        '\u{1f600}'
                    } else if i % 29 == 7 {
                        '\u{20ac}'
                    } else {
                        'b'
                    });
                }
                RV::Str(s)
            }
            Family::EscapedString => {
                let cyc = ['"', '\\', '\n', '\u{1}', '\u{1f}', '\t'];
                RV::Str((0..n).map(|i| cyc[i % cyc.len()]).collect())
            }
            Family::BalancedString => {
                // units whose UTF-8 surplus equals their escape surplus: e-acute + quote (1 = 1),
                // euro + two backslashes (2 = 2), emoji + three newlines (3 = 3),
                // U+0001 + emoji + euro (5 = 3 + 2)
                let units = ["\u{e9}\"", "\u{20ac}\\\\", "\u{1f600}\n\n\n", "\u{1}\u{1f600}\u{20ac}"];
                let mut s = String::new();
                let mut i = 0;
                while s.chars().count() < n {
                    s.push_str(units[i % units.len()]);
                    i += 1;
                }
                RV::Str(s)
            }
            Family::RunThenControl => RV::Str(format!("{}\u{1}z", "a".repeat(n))),
            Family::RunThenQuote => RV::Str(format!("{}\"z", "a".repeat(n))),
            Family::RunThenWide => RV::Str(format!("{}\u{1f600}z", "a".repeat(n))),
            Family::WideRunThenControl => RV::Str(format!("{}\u{1f}\u{e9}", "\u{e9}".repeat(n))),
            Family::LongKey => RV::Obj(vec![("k".repeat(n), RV::Null)]),
            Family::Array => RV::Arr((0..n).map(|i| RV::Num((i % 10).to_string())).collect()),
            Family::DistinctKeys => RV::Obj((0..n).map(|i| (format!("k{i}"), RV::Num((i % 7).to_string()))).collect()),
            Family::DistinctLongKeys => RV::Obj((0..n).map(|i| (format!("a-key-longer-than-sixteen-bytes-{i:06}"), RV::Bool(i % 2 == 0))).collect()),
            Family::DuplicateKey => RV::Obj((0..n).map(|i| ("d".to_string(), RV::Num(i.to_string()))).collect()),
            Family::InterleavedDuplicates => RV::Obj((0..n).map(|i| (if i % 2 == 0 { "x" } else { "y" }.to_string(), RV::Num(i.to_string()))).collect()),
            Family::Integer => RV::Num(if n == 0 { "0".to_string() } else { format!("1{}", "0".repeat(n - 1)) }),
            Family::Fraction => RV::Num(if n == 0 { "0".to_string() } else { format!("0.{}1", "0".repeat(n - 1)) }),
            Family::NestedArray => RV::Arr(vec![RV::Obj(vec![("k".to_string(), RV::Arr((0..n).map(|i| RV::Bool(i % 3 == 0)).collect()))])]),
            Family::KeyGrid | Family::KeyGridDup => {
                let len = GRID_LENS[(n / GRID_COUNTS.len()) % GRID_LENS.len()];
                let count = GRID_COUNTS[n % GRID_COUNTS.len()];
                let mut m: Vec<(String, RV)> = (0..count).map(|i| (grid_key(len, i), RV::Num(i.to_string()))).collect();
                if self == Family::KeyGridDup {
                    m.extend((0..count).map(|i| (grid_key(len, i), RV::Str(format!("again-{i}")))));
                }
                RV::Obj(m)
            }
        }
    }
}

/// Every (family, n, value) of a tier.
/// Every n up to 1 100, then 2^k - 8 ..= 2^k + 2: for the families in which n is the *position* of
/// a deciding character, a staging buffer of any size up to 1 KiB (or of 2 / 4 KiB) with any
/// small reserve has its critical fill levels in this set - they are not at powers of two
/// (a 512-byte buffer that keeps 4 bytes free goes wrong at 507 and 508).
pub fn dense_thresholds(max: usize) -> Vec<usize> {
    let mut v: Vec<usize> = (0..=1100).collect();
    for k in [2048usize, 4096, 8192, 16384, 65536] {
        v.extend(k - 8..=k + 2);
    }
    v.retain(|&n| n <= max);
    v
}

impl Family {
    pub fn sizes(self, thorough: bool) -> Vec<usize> {
        match self {
            Family::RunThenControl | Family::RunThenQuote | Family::RunThenWide | Family::WideRunThenControl => dense_thresholds(self.max(thorough)),
            _ => thresholds(self.max(thorough)),
        }
    }
}

pub fn all(thorough: bool) -> Vec<(Family, usize, RV)> {
    let mut out = Vec::new();
    for f in FAMILIES {
        for n in f.sizes(thorough) {
            out.push((f, n, f.build(n)));
        }
    }
    out
}
