//! C20 — KindSet is a faithful finite set of value kinds.
//!
//! Complete enumeration of the finite domain (all 64 sets, all operand pairs of every
//! operator form) plus an explicit-state search (stateright) of the full state graph of
//! `KindSetIter` under {next, next_back} from all 64 initial states, in lock-step with a
//! `VecDeque<Kind>` reference.

#[global_allocator]
static ALLOC: explore::ThreadCache = explore::ThreadCache;

use explore::serde_json::json;
use explore::{Args, Report, Tally};
use json_syntax::{Kind, KindSet, Value};
use stateright::{Checker, Model, Property};
use std::collections::VecDeque;

const KINDS: [Kind; 6] = [Kind::Null, Kind::Boolean, Kind::Number, Kind::String, Kind::Array, Kind::Object];
const NAMES: [&str; 6] = ["null", "boolean", "number", "string", "array", "object"];

fn members(bits: u8) -> Vec<Kind> {
    (0..6).filter(|i| bits & (1 << i) != 0).map(|i| KINDS[i]).collect()
}

fn kind_index(k: Kind) -> usize {
    KINDS.iter().position(|x| *x == k).unwrap()
}

/// Builds the set for `bits` with `|=` on kinds (route 1).
fn build1(bits: u8) -> KindSet {
    let mut s = KindSet::none();
    for k in members(bits) {
        s |= k;
    }
    s
}

/// Builds the set from the constants with set `|` (route 2).
fn build2(bits: u8) -> KindSet {
    let consts = [KindSet::NULL, KindSet::BOOLEAN, KindSet::NUMBER, KindSet::STRING, KindSet::ARRAY, KindSet::OBJECT];
    let mut s = KindSet::default();
    for i in 0..6 {
        if bits & (1 << i) != 0 {
            s = s | consts[i];
        }
    }
    s
}

/// Builds the set by intersecting `all()` with the complement built by route 1 … no
/// complement exists in the API, so route 3 removes non-members by intersecting with
/// the union of members expressed through `From<Kind>` and `Kind | Kind`.
fn build3(bits: u8) -> KindSet {
    let m = members(bits);
    match m.len() {
        0 => KindSet::all() & KindSet::none(),
        1 => KindSet::from(m[0]),
        _ => {
            let mut s = m[0] | m[1];
            for k in &m[2..] {
                s = *k | s;
            }
            s
        }
    }
}

/// What the set observably contains (through iteration).
fn observe(s: KindSet) -> u8 {
    let mut b = 0;
    for k in s {
        b |= 1 << kind_index(k);
    }
    b
}

fn render(bits: u8, last_sep: &str) -> String {
    let m: Vec<&str> = (0..6).filter(|i| bits & (1 << i) != 0).map(|i| NAMES[i]).collect();
    match m.len() {
        0 => "nothing".to_string(),
        6 => "anything".to_string(),
        1 => m[0].to_string(),
        n => format!("{}{}{}", m[..n - 1].join(", "), last_sep, m[n - 1]),
    }
}

// ------------------------------------------------------------------------------------------
// stateright model of the iterator

#[derive(Clone, Debug, PartialEq, Eq, Hash)]
struct IterState {
    real: json_syntax::kind::KindSetIter,
    model: VecDeque<u8>,
    /// steps taken after the model became empty
    beyond: u8,
    /// all observations so far agreed
    ok: bool,
    init: u8,
}

#[derive(Clone, Copy, Debug, PartialEq, Eq, Hash)]
enum Step {
    Next,
    NextBack,
}

struct IterModel;

fn size_ok(s: &IterState) -> bool {
    let n = s.model.len();
    s.real.size_hint() == (n, Some(n)) && s.real.len() == n
}

impl Model for IterModel {
    type State = IterState;
    type Action = Step;

    fn init_states(&self) -> Vec<IterState> {
        (0u8..64)
            .map(|b| {
                let s = IterState {
                    real: build1(b).iter(),
                    model: (0..6u8).filter(|i| b & (1 << i) != 0).collect(),
                    beyond: 0,
                    ok: true,
                    init: b,
                };
                IterState { ok: size_ok(&s), ..s }
            })
            .collect()
    }

    fn actions(&self, s: &IterState, out: &mut Vec<Step>) {
        if s.ok && s.beyond < 2 {
            out.push(Step::Next);
            out.push(Step::NextBack);
        }
    }

    fn next_state(&self, s: &IterState, a: Step) -> Option<IterState> {
        let mut n = s.clone();
        if n.model.is_empty() {
            n.beyond += 1;
        }
        let (r, m) = match a {
            Step::Next => (n.real.next(), n.model.pop_front()),
            Step::NextBack => (n.real.next_back(), n.model.pop_back()),
        };
        n.ok = r.map(|k| kind_index(k) as u8) == m && size_ok(&n);
        Some(n)
    }

    fn properties(&self) -> Vec<Property<Self>> {
        vec![
            Property::always("iterator agrees with VecDeque reference", |_: &IterModel, s: &IterState| s.ok),
            Property::sometimes("front and back both used on a set of six", |_: &IterModel, s: &IterState| {
                s.init == 63 && s.model.len() == 2 && s.model[0] == 2
            }),
            Property::sometimes("stepped beyond exhaustion", |_: &IterModel, s: &IterState| s.beyond == 2),
        ]
    }
}

// ---------------------------------------------------------------------------------------------
// Operators that `KindSet` does not have today (complement, difference, symmetric difference) are
// *probed at compile time*: if a later version of the library implements `!`, `-` or `^` for
// sets, the calls below resolve to those impls (autoref specialisation: the impl on `Probe<T>`
// is preferred when its bound holds, the blanket impl on `&Probe<T>` otherwise) and every set
// they return has to be a *valid* set - what `len`, `is_empty`, `==` and the renderings say
// about it must agree with its own members. Nothing is assumed about what the operators mean.
struct Probe<T>(T);

trait ViaNot {
    fn via_not(&self) -> Option<KindSet>;
}
impl<T: Copy + std::ops::Not<Output = KindSet>> ViaNot for Probe<T> {
    fn via_not(&self) -> Option<KindSet> {
        Some(!self.0)
    }
}
trait ViaNotFallback {
    fn via_not(&self) -> Option<KindSet>;
}
impl<T> ViaNotFallback for &Probe<T> {
    fn via_not(&self) -> Option<KindSet> {
        None
    }
}

macro_rules! probe_binary {
    ($spec:ident, $fallback:ident, $method:ident, $tr:ident, $op:tt) => {
        trait $spec<R> {
            fn $method(&self, r: R) -> Option<KindSet>;
        }
        impl<T: Copy + std::ops::$tr<R, Output = KindSet>, R> $spec<R> for Probe<T> {
            fn $method(&self, r: R) -> Option<KindSet> {
                Some(self.0 $op r)
            }
        }
        trait $fallback<R> {
            fn $method(&self, r: R) -> Option<KindSet>;
        }
        impl<T, R> $fallback<R> for &Probe<T> {
            fn $method(&self, _r: R) -> Option<KindSet> {
                None
            }
        }
    };
}
probe_binary!(ViaSub, ViaSubFallback, via_sub, Sub, -);
probe_binary!(ViaXor, ViaXorFallback, via_xor, BitXor, ^);

/// What the observers say about `s` agrees with its own members.
fn valid_set(s: KindSet) -> Result<(), String> {
    let mut it = s.iter();
    let mut m: Vec<Kind> = Vec::new();
    while let Some(k) = it.next() {
        m.push(k);
        if m.len() > 8 {
            return Err("its iteration does not end".into());
        }
    }
    let rebuilt = m.iter().fold(KindSet::none(), |a, k| a | *k);
    if s.len() != m.len() || s.is_empty() != m.is_empty() {
        return Err(format!("len() = {}, is_empty() = {}, but it iterates {m:?}", s.len(), s.is_empty()));
    }
    if s != rebuilt || rebuilt != s {
        return Err(format!("it iterates {m:?} but is != the set of those kinds"));
    }
    if s.to_string() != rebuilt.to_string() || s.as_disjunction().to_string() != rebuilt.as_disjunction().to_string() || s.as_conjunction().to_string() != rebuilt.as_conjunction().to_string() {
        return Err(format!("it iterates {m:?} but renders as {:?} / {:?}, the set of those kinds as {:?} / {:?}", s.as_disjunction().to_string(), s.as_conjunction().to_string(), rebuilt.as_disjunction().to_string(), rebuilt.as_conjunction().to_string()));
    }
    Ok(())
}

fn main() {
    let args = Args::parse();
    explore::quiet_panics();
    assert_eq!(args.property, "C20");
    let mut rep = Report::new(&args, "model_checking", "E-ENUM complete domain + E-STATE (stateright BFS) for KindSetIter");
    let mut t = Tally::new();

    let bad = |t: &mut Tally, what: String, case: explore::serde_json::Value| {
        t.violation("", what, case);
    };

    // pre-flight: iteration over each of the 64 sets ends, from either side (everything below,
    // and the library's own renderings, consume the iterator without a bound: an iterator that
    // never ends would otherwise hang the check instead of being reported)
    let mut ends = true;
    for b in 0u8..64 {
        let s = build1(b);
        for back in [false, true] {
            let mut it = s.iter();
            let mut steps = 0;
            while (if back { it.next_back() } else { it.next() }).is_some() {
                steps += 1;
                if steps > 8 {
                    ends = false;
                    bad(&mut t, format!("iteration over the set {b:06b} ({}) still yields items after 8 steps: it does not end", if back { "next_back" } else { "next" }), json!({"kind": "set", "bits": b}));
                    break;
                }
            }
        }
    }
    // (the whole enumeration runs under a guard: a panic of the library is a violation, not a
    // crash of the checker)
    let domain = if !ends { Ok(()) } else { std::panic::catch_unwind(std::panic::AssertUnwindSafe(|| {
    // --- all 64 sets: construction routes, len, is_empty, iteration, renderings
    for b in 0u8..64 {
        let s = build1(b);
        t.evals += 1;
        t.nontrivial(&("set", b));
        let case = json!({"kind": "set", "bits": b});
        for (route, r) in [("|= Kind", s), ("consts | set", build2(b)), ("From/Kind|Kind/Kind|set", build3(b))] {
            if observe(r) != b {
                bad(&mut t, format!("set built by {route} for bits {b:06b} iterates as {:06b}", observe(r)), case.clone());
            }
            if r != s {
                bad(&mut t, format!("set built by {route} for bits {b:06b} differs (==) from |= route"), case.clone());
            }
        }
        // the iterator through the whole (double-ended) Iterator protocol
        if let Err(e) = bridge::iterator_protocol("KindSet::iter()", || s.iter(), &members(b)).and_then(|()| bridge::double_ended_protocol("KindSet::iter()", || s.iter(), &members(b))).and_then(|()| bridge::iterator_protocol("KindSet::into_iter()", || s.into_iter(), &members(b))) {
            bad(&mut t, e, case.clone());
        }
        // "ascending kind order": the order of iteration is the order of Kind's own Ord
        {
            let it: Vec<Kind> = s.iter().collect();
            let mut sorted = it.clone();
            sorted.sort();
            if it != sorted || Iterator::max(s.iter()) != s.iter().next_back() || Iterator::min(s.iter()) != s.iter().next() || it.windows(2).any(|w| !(w[0] < w[1]) || w[0].cmp(&w[1]) != std::cmp::Ordering::Less || w[0].partial_cmp(&w[1]) != Some(std::cmp::Ordering::Less)) {
                bad(&mut t, format!("iteration order {it:?} of {b:06b} is not ascending for Kind's Ord (sorted: {sorted:?})"), case.clone());
            }
            let tree: std::collections::BTreeSet<Kind> = s.iter().collect();
            if tree.into_iter().collect::<Vec<_>>() != it {
                bad(&mut t, format!("a BTreeSet of the members of {b:06b} enumerates in another order than the set"), case.clone());
            }
        }
        let fwd: Vec<Kind> = s.iter().collect();
        let exp = members(b);
        if fwd != exp {
            bad(&mut t, format!("forward iteration {fwd:?} != {exp:?}"), case.clone());
        }
        let mut back: Vec<Kind> = s.into_iter().rev().collect();
        back.reverse();
        if back != exp {
            bad(&mut t, format!("backward iteration reversed {back:?} != {exp:?}"), case.clone());
        }
        let by_ref: Vec<Kind> = (&s).into_iter().collect();
        if by_ref != exp {
            bad(&mut t, format!("&set iteration {by_ref:?} != {exp:?}"), case.clone());
        }
        if s.len() != b.count_ones() as usize || s.is_empty() != (b == 0) {
            bad(&mut t, format!("len/is_empty wrong for {b:06b}: {} {}", s.len(), s.is_empty()), case.clone());
        }
        if (s == KindSet::all()) != (b == 63) || (s == KindSet::none()) != (b == 0) {
            bad(&mut t, format!("all()/none() comparison wrong for {b:06b}"), case.clone());
        }
        let d = s.as_disjunction().to_string();
        let c = s.as_conjunction().to_string();
        let plain = s.to_string();
        let exp_plain: Vec<&str> = (0..6).filter(|i| b & (1 << i) != 0).map(|i| NAMES[i]).collect();
        if d != render(b, " or ") {
            bad(&mut t, format!("disjunction of {b:06b} = {d:?}, expected {:?}", render(b, " or ")), case.clone());
        }
        if c != render(b, " and ") {
            bad(&mut t, format!("conjunction of {b:06b} = {c:?}, expected {:?}", render(b, " and ")), case.clone());
        }
        if plain != exp_plain.join(", ") {
            bad(&mut t, format!("Display of {b:06b} = {plain:?}"), case.clone());
        }
        // formatting parameters of the caller (width, alignment, fill, precision): a rendering is
        // one piece of text - either the parameters are ignored, or they apply to the rendering
        // as a whole (`Formatter::pad`); they must never be applied to the members one by one
        macro_rules! spec {
            ($fmt:literal) => {{
                for (what, plain_text, got) in [
                    ("Display", plain.as_str(), format!($fmt, s)),
                    ("disjunction", d.as_str(), format!($fmt, s.as_disjunction())),
                    ("conjunction", c.as_str(), format!($fmt, s.as_conjunction())),
                ] {
                    t.evals += 1;
                    let whole = format!($fmt, plain_text);
                    if got != plain_text && got != whole {
                        bad(&mut t, format!("{what} of {b:06b} under {:?} = {got:?}: neither the plain rendering {plain_text:?} nor that rendering formatted as a whole {whole:?}", $fmt), case.clone());
                    }
                }
            }};
        }
        spec!("{:>12}");
        spec!("{:<3}");
        spec!("{:^40}");
        spec!("{:*>9}");
        spec!("{:.3}");
        spec!("{:.0}");
        spec!("{:7.2}");
        spec!("{:#}");
        for (i, k) in KINDS.iter().enumerate() {
            if b == 1 << i {
                for got in [format!("{:>12}", k), format!("{:.3}", k), format!("{:.0}", k)] {
                    let name = NAMES[i];
                    if got != name && got != format!("{:>12}", name) && got != format!("{:.3}", name) && got != format!("{:.0}", name) {
                        bad(&mut t, format!("Kind {name} formatted with parameters = {got:?}"), case.clone());
                    }
                }
            }
        }
        t.outcome(match b.count_ones() {
            0 => "set:nothing",
            1 => "set:single",
            6 => "set:anything",
            _ => "set:several",
        });
        if b == 0b101001 {
            t.sample(json!({"set_bits": b, "disjunction": d, "conjunction": c, "display": plain}));
        }
    }

    // --- all 64 x 64 set pairs
    for a in 0u8..64 {
        for b in 0u8..64 {
            t.evals += 1;
            t.nontrivial(&("pair", a, b));
            let (sa, sb) = (build1(a), build1(b));
            let case = json!({"kind": "set-pair", "a": a, "b": b});
            let or = sa | sb;
            let and = sa & sb;
            let mut or_as = sa;
            or_as |= sb;
            let mut and_as = sa;
            and_as &= sb;
            if observe(or) != a | b || or != build1(a | b) {
                bad(&mut t, format!("{a:06b} | {b:06b} = {:06b}", observe(or)), case.clone());
            }
            if observe(and) != a & b || and != build1(a & b) {
                bad(&mut t, format!("{a:06b} & {b:06b} = {:06b}", observe(and)), case.clone());
            }
            if or_as != or || and_as != and {
                bad(&mut t, format!("assign forms differ for {a:06b}, {b:06b}"), case.clone());
            }
            if (sa == sb) != (a == b) {
                bad(&mut t, format!("== wrong for {a:06b}, {b:06b}"), case.clone());
            }
            t.outcome(if a & b == 0 { "pair:disjoint" } else if a == b { "pair:equal" } else { "pair:overlap" });
        }
    }

    // --- all 64 x 6 set/kind pairs (both operand orders, assign forms)
    for a in 0u8..64 {
        for (i, k) in KINDS.iter().enumerate() {
            t.evals += 1;
            t.nontrivial(&("set-kind", a, i));
            let kb = 1u8 << i;
            let sa = build1(a);
            let case = json!({"kind": "set-kind", "a": a, "k": NAMES[i]});
            let r = [
                ("set|kind", observe(sa | *k), a | kb),
                ("kind|set", observe(*k | sa), a | kb),
                ("set&kind", observe(sa & *k), a & kb),
                ("kind&set", observe(*k & sa), a & kb),
                (
                    "set|=kind",
                    observe({
                        let mut x = sa;
                        x |= *k;
                        x
                    }),
                    a | kb,
                ),
                (
                    "set&=kind",
                    observe({
                        let mut x = sa;
                        x &= *k;
                        x
                    }),
                    a & kb,
                ),
            ];
            for (name, got, want) in r {
                if got != want {
                    bad(&mut t, format!("{name} on {a:06b},{} = {got:06b}, expected {want:06b}", NAMES[i]), case.clone());
                }
            }
            t.outcome(if a & kb != 0 { "set-kind:member" } else { "set-kind:absent" });
        }
    }

    // --- all 6 x 6 kind pairs
    for (i, k) in KINDS.iter().enumerate() {
        for (j, l) in KINDS.iter().enumerate() {
            t.evals += 1;
            t.nontrivial(&("kind-kind", i, j));
            let case = json!({"kind": "kind-pair", "a": NAMES[i], "b": NAMES[j]});
            if observe(*k | *l) != (1 << i) | (1 << j) {
                bad(&mut t, format!("{} | {} wrong", NAMES[i], NAMES[j]), case.clone());
            }
            if observe(*k & *l) != (1 << i) & (1 << j) {
                bad(&mut t, format!("{} & {} wrong", NAMES[i], NAMES[j]), case.clone());
            }
            t.outcome(if i == j { "kind-pair:same" } else { "kind-pair:different" });
        }
        if k.to_string() != NAMES[i] {
            bad(&mut t, format!("Display of kind {} = {}", NAMES[i], k), json!({"kind": "kind", "k": NAMES[i]}));
        }
        if observe(KindSet::from(*k)) != 1 << i {
            bad(&mut t, format!("From<Kind> for {}", NAMES[i]), json!({"kind": "kind", "k": NAMES[i]}));
        }
    }

    // --- Value::kind / is_kind, one value per variant x 6 kinds; mismatch rendering
    let vals: Vec<(Value, usize)> = vec![
        (Value::Null, 0),
        (Value::Boolean(true), 1),
        (Value::Boolean(false), 1),
        (Value::Number(0u8.into()), 2),
        (Value::String("s".into()), 3),
        (Value::Array(vec![Value::Null]), 4),
        (Value::Array(vec![]), 4),
        (Value::Object(json_syntax::Object::new()), 5),
    ];
    for (v, i) in &vals {
        for (j, k) in KINDS.iter().enumerate() {
            t.evals += 1;
            t.nontrivial(&("value-kind", v.to_string(), j));
            if (v.kind() == *k) != (*i == j) || v.is_kind(*k) != (*i == j) {
                bad(&mut t, format!("kind of {v} vs {}", NAMES[j]), json!({"kind": "value-kind", "value": v.to_string(), "k": NAMES[j]}));
            }
            t.outcome(if *i == j { "value-kind:match" } else { "value-kind:mismatch" });
        }
        let preds = [v.is_null(), v.is_boolean(), v.is_number(), v.is_string(), v.is_array(), v.is_object()];
        for (j, p) in preds.iter().enumerate() {
            if *p != (*i == j) {
                bad(&mut t, format!("is_{} of {v}", NAMES[j]), json!({"kind": "value-kind", "value": v.to_string()}));
            }
        }
        for b in [1u8, 0b1010, 63, 0] {
            let u = json_syntax::Unexpected {
                expected: build1(b),
                found: v.kind(),
            };
            let want = format!("expected {}, found {}", render(b, " or "), NAMES[*i]);
            t.evals += 1;
            if u.to_string() != want {
                bad(&mut t, format!("Unexpected renders {:?}, expected {want:?}", u.to_string()), json!({"kind": "unexpected", "bits": b}));
            }
        }
    }
    })) };
    if let Err(p) = domain {
        let msg = p.downcast_ref::<String>().cloned().or_else(|| p.downcast_ref::<&str>().map(|s| s.to_string())).unwrap_or_default();
        t.violation("", format!("the library panicked during the enumeration of the 64 sets: {msg}"), json!({"kind": "panic"}));
    }
    // --- operators the type may grow: whatever they return is a valid set
    {
        let mut probed = 0usize;
        let mut found: Vec<&str> = Vec::new();
        let r = std::panic::catch_unwind(std::panic::AssertUnwindSafe(|| {
            let mut bad: Vec<(String, explore::serde_json::Value)> = Vec::new();
            for a in 0u8..64 {
                let sa = build1(a);
                if let Some(r) = (&Probe(sa)).via_not() {
                    probed += 1;
                    if !found.contains(&"!set") {
                        found.push("!set");
                    }
                    if let Err(e) = valid_set(r) {
                        bad.push((format!("!{a:06b} is not a valid set: {e}"), json!({"kind": "probed-operator", "op": "!", "a": a})));
                    }
                }
                for b in 0u8..64 {
                    let sb = build1(b);
                    for (name, r) in [("set - set", (&Probe(sa)).via_sub(sb)), ("set ^ set", (&Probe(sa)).via_xor(sb))] {
                        if let Some(r) = r {
                            probed += 1;
                            if !found.contains(&name) {
                                found.push(name);
                            }
                            if let Err(e) = valid_set(r) {
                                bad.push((format!("{name} on {a:06b}, {b:06b} is not a valid set: {e}"), json!({"kind": "probed-operator", "op": name, "a": a, "b": b})));
                            }
                        }
                    }
                }
                for k in KINDS {
                    for (name, r) in [("set - kind", (&Probe(sa)).via_sub(k)), ("set ^ kind", (&Probe(sa)).via_xor(k))] {
                        if let Some(r) = r {
                            probed += 1;
                            if !found.contains(&name) {
                                found.push(name);
                            }
                            if let Err(e) = valid_set(r) {
                                bad.push((format!("{name} on {a:06b}, {k:?} is not a valid set: {e}"), json!({"kind": "probed-operator", "op": name, "a": a})));
                            }
                        }
                    }
                }
            }
            bad
        }));
        match r {
            Ok(bad) => {
                for (what, case) in bad {
                    t.violation("", what, case);
                }
            }
            Err(_) => t.violation("", "an operator probed on KindSet panicked".to_string(), json!({"kind": "probed-operator"})),
        }
        t.evals += probed as u64;
        rep.bounds["probed_operators"] = json!({"probed_for": ["!set", "set - set", "set - kind", "set ^ set", "set ^ kind"], "implemented_by_the_library": found, "results_checked": probed});
    }
    rep.absorb(t);

    // --- explicit-state search of the iterator
    let run = |threads: usize| {
        let c = IterModel.checker().threads(threads).spawn_bfs().join();
        (c.unique_state_count(), c.state_count(), c.max_depth(), c.discoveries())
    };
    let (unique, total, depth, disc) = run(1);
    let (unique2, total2, _, _) = run(8);
    let mut t = Tally::new();
    t.states = unique as u64;
    t.transitions = total as u64;
    t.evals = total as u64;
    t.outcome_n("iter:transitions", total as u64);
    if (unique, total) != (unique2, total2) {
        rep.machinery.push(format!("stateright counts differ between 1 and 8 threads: {unique}/{total} vs {unique2}/{total2}"));
    }
    for name in ["front and back both used on a set of six", "stepped beyond exhaustion"] {
        if !disc.contains_key(name) {
            rep.machinery.push(format!("vacuous model: sometimes-property {name:?} never reached"));
        }
    }
    if let Some(path) = disc.get("iterator agrees with VecDeque reference") {
        let init = path.clone().into_states()[0].init;
        let actions: Vec<String> = path.clone().into_actions().iter().map(|a| format!("{a:?}")).collect();
        t.violation(
            "",
            format!("KindSetIter diverges from the VecDeque reference from set {init:06b} after {actions:?}"),
            json!({"kind": "iter-history", "init_bits": init, "steps": actions}),
        );
    }
    t.sample(json!({"iterator_state_graph": {"unique_states": unique, "transitions": total, "max_depth": depth, "init_states": 64}}));
    rep.absorb(t);

    rep.rule = "complete finite domain: 64 sets (3 construction routes each), 64x64 set pairs, 64x6 set/kind pairs x 6 operator forms, 6x6 kind pairs, 8 values x 6 kinds; distinct = distinct (family, operands) tuples; all are non-trivial; plus every reachable state of KindSetIter under {next,next_back} from all 64 sets until two steps beyond exhaustion".into();
    rep.bounds = json!({"sets": 64, "iter_steps_beyond_exhaustion": 2});
    rep.assumptions.push("Kind has exactly the six variants listed in the rustdoc; KindSet can only be built through the public operators (cross-validated by three independent construction routes)".into());
    std::process::exit(rep.finish());
}
