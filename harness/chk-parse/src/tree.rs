//! E-TREE: stateless depth-first exploration of the parser's execution tree.
//!
//! A node is an input (a sequence of symbols after a root context). The reference machine
//! (R-pda + surrogate tracker) is advanced incrementally along the path. Children of a
//! node are generated only while the input is a viable prefix (sound: a deterministic
//! single-pass parser cannot distinguish extensions of a non-viable prefix, DESIGN 3.1);
//! below a dead node the search continues for a post-mortem horizon over a tiny alphabet
//! so that entry points whose consumption cannot be observed are still exercised on text
//! after the first error.

use explore::{Budget, Tally};
use refmodel::pda::Machine;

pub struct TreeSpec {
    pub name: &'static str,
    /// root contexts (each must be a viable prefix)
    pub roots: Vec<String>,
    /// core alphabet: symbols are strings (characters, tokens, macro-symbols)
    pub alphabet: Vec<String>,
    /// deviation alphabet, at most `max_dev` symbols of it per input
    pub wide: Vec<String>,
    /// post-mortem alphabet
    pub post: Vec<String>,
}

#[derive(Clone, Copy)]
pub struct WalkCfg {
    pub depth: usize,
    pub max_dev: usize,
    pub horizon: usize,
    /// option record that decides when a surrogate fault kills a node
    pub prune: (bool, bool),
}

pub struct Node<'a> {
    pub text: &'a str,
    /// machine state after the longest viable prefix of `text`
    pub mach: &'a Machine,
    /// where the automaton died, if it did
    pub dead: Option<(usize, char)>,
    /// a surrogate fault (under the pruning record) has become detectable
    pub fault_dead: bool,
    /// this node lies in the post-mortem region
    pub post: bool,
    /// number of wide symbols used
    pub devs: usize,
    pub depth: usize,
}

pub fn sv(xs: &[&str]) -> Vec<String> {
    xs.iter().map(|s| s.to_string()).collect()
}

pub fn chars(s: &str) -> Vec<String> {
    s.chars().map(|c| c.to_string()).collect()
}

/// Σ_wide: all 128 ASCII characters plus one representative of every UTF-8 length class,
/// every Unicode white space that is not JSON whitespace, the BOM and the surrogate neighbours.
pub fn sigma_wide() -> Vec<String> {
    let mut v: Vec<String> = (0u8..128).map(|b| (b as char).to_string()).collect();
    for c in [
        '\u{80}', '\u{85}', '\u{a0}', '\u{e9}', '\u{7ff}', '\u{800}', '\u{1680}', '\u{2000}', '\u{2028}', '\u{2029}', '\u{202f}', '\u{205f}', '\u{2060}', '\u{3000}',
        '\u{20ac}', '\u{d7ff}', '\u{e000}', '\u{f000}', '\u{feff}', '\u{fffd}', '\u{ffff}', '\u{ff11}', '\u{10000}', '\u{1f600}', '\u{50000}', '\u{10ffff}',
    ] {
        v.push(c.to_string());
    }
    // characters whose low 8 or low 16 bits alias an ASCII character with a syntactic role
    // (a `char as u8` / `as u16` truncation somewhere in a lexer would confuse them with it)
    for a in "019.eE+-\"[]{},:\\ \n\ttrufalsn/".chars() {
        for base in [0x100u32, 0x10000] {
            if let Some(c) = char::from_u32(base + a as u32) {
                v.push(c.to_string());
            }
        }
    }
    v.sort();
    v.dedup();
    v
}

struct Walker<'s, V> {
    spec: &'s TreeSpec,
    cfg: WalkCfg,
    visit: &'s V,
    budget: Budget,
}

impl<'s, V: Fn(&Node, &mut Tally) + Sync> Walker<'s, V> {
    fn post_mortem(&self, text: &mut String, mach: &Machine, dead: Option<(usize, char)>, fault_dead: bool, h: usize, devs: usize, depth: usize, t: &mut Tally) {
        if h == 0 {
            return;
        }
        for s in &self.spec.post {
            let l = text.len();
            text.push_str(s);
            t.states += 1;
            t.transitions += 1;
            (self.visit)(
                &Node {
                    text,
                    mach,
                    dead,
                    fault_dead,
                    post: true,
                    devs,
                    depth,
                },
                t,
            );
            self.post_mortem(text, mach, dead, fault_dead, h - 1, devs, depth + 1, t);
            text.truncate(l);
        }
    }

    fn child(&self, text: &mut String, mach: &Machine, sym: &str, d: usize, devs: usize, t: &mut Tally) {
        let l = text.len();
        let mut m2 = mach.clone();
        let had_fault = mach.first_untolerated(self.cfg.prune.0, self.cfg.prune.1).is_some();
        debug_assert!(!had_fault);
        let mut dead = None;
        for (k, c) in sym.char_indices() {
            if m2.step(c).is_err() {
                dead = Some((l + k, c));
                break;
            }
            // a fault that becomes detectable stops the real parser right here; the rest of
            // the symbol is post-mortem text
            if m2.first_untolerated(self.cfg.prune.0, self.cfg.prune.1).is_some() {
                break;
            }
        }
        text.push_str(sym);
        t.transitions += 1;
        let fault_dead = m2.first_untolerated(self.cfg.prune.0, self.cfg.prune.1).is_some();
        if dead.is_some() || fault_dead {
            t.states += 1;
            (self.visit)(
                &Node {
                    text,
                    mach: &m2,
                    dead,
                    fault_dead,
                    post: false,
                    devs,
                    depth: d + 1,
                },
                t,
            );
            // post-mortem only below core-alphabet deaths (keeps the wide pass affordable)
            if devs == 0 {
                self.post_mortem(text, &m2, dead, fault_dead, self.cfg.horizon, devs, d + 2, t);
            }
        } else {
            self.alive(text, &m2, d + 1, devs, t);
        }
        text.truncate(l);
    }

    fn alive(&self, text: &mut String, mach: &Machine, d: usize, devs: usize, t: &mut Tally) {
        t.states += 1;
        (self.visit)(
            &Node {
                text,
                mach,
                dead: None,
                fault_dead: false,
                post: false,
                devs,
                depth: d,
            },
            t,
        );
        if d >= self.cfg.depth {
            return;
        }
        for s in &self.spec.alphabet {
            self.child(text, mach, s, d, devs, t);
        }
        if devs < self.cfg.max_dev {
            for s in &self.spec.wide {
                self.child(text, mach, s, d, devs + 1, t);
            }
        }
    }
}

/// Walks one tree completely to `cfg.depth`. Returns `None` if the time budget expired
/// before the walk finished (the partial tally is discarded by the caller's policy).
pub fn walk<V: Fn(&Node, &mut Tally) + Sync>(spec: &TreeSpec, cfg: WalkCfg, budget: Budget, visit: &V) -> (Tally, bool) {
    use explore::rayon::prelude::*;
    let w = Walker {
        spec,
        cfg,
        visit,
        budget,
    };
    // expand two levels sequentially into work items, then explore the items in parallel
    struct Item {
        text: String,
        mach: Machine,
        d: usize,
        devs: usize,
    }
    let mut t0 = Tally::new();
    let mut items: Vec<Item> = Vec::new();
    for r in &spec.roots {
        let mut m = Machine::new();
        let v = m.feed(r);
        assert_eq!(v, r.len(), "root {r:?} of tree {} is not viable", spec.name);
        assert!(m.first_untolerated(cfg.prune.0, cfg.prune.1).is_none());
        items.push(Item {
            text: r.clone(),
            mach: m,
            d: 0,
            devs: 0,
        });
    }
    // split: replace each item by its alive children for `split` levels; nodes visited while
    // splitting are tallied in t0
    let split = if cfg.depth >= 3 { 2 } else { 0 };
    for _ in 0..split {
        let mut next = Vec::new();
        for it in items {
            // visit the node itself and its dead children here; alive children become items
            t0.states += 1;
            (w.visit)(
                &Node {
                    text: &it.text,
                    mach: &it.mach,
                    dead: None,
                    fault_dead: false,
                    post: false,
                    devs: it.devs,
                    depth: it.d,
                },
                &mut t0,
            );
            if it.d >= cfg.depth {
                continue;
            }
            let syms: Vec<(&String, usize)> = spec
                .alphabet
                .iter()
                .map(|s| (s, it.devs))
                .chain(if it.devs < cfg.max_dev { spec.wide.iter().map(|s| (s, it.devs + 1)).collect::<Vec<_>>() } else { Vec::new() })
                .collect();
            for (s, devs) in syms {
                let mut m2 = it.mach.clone();
                let mut alive = true;
                for c in s.chars() {
                    if m2.step(c).is_err() || m2.first_untolerated(cfg.prune.0, cfg.prune.1).is_some() {
                        alive = false;
                        break;
                    }
                }
                if alive {
                    t0.transitions += 1;
                    next.push(Item {
                        text: format!("{}{}", it.text, s),
                        mach: m2,
                        d: it.d + 1,
                        devs,
                    });
                } else {
                    let mut text = it.text.clone();
                    w.child(&mut text, &it.mach, s, it.d, devs, &mut t0);
                }
            }
        }
        items = next;
    }
    let t = items
        .into_par_iter()
        .fold(Tally::new, |mut t, it| {
            if w.budget.expired() {
                t.outcome("subtree-skipped:time-cap");
                return t;
            }
            let mut text = it.text;
            w.alive(&mut text, &it.mach, it.d, it.devs, &mut t);
            t
        })
        .reduce(Tally::new, |mut a, b| {
            a.absorb(b);
            a
        });
    t0.absorb(t);
    let complete = !t0.hist.contains_key("subtree-skipped:time-cap");
    (t0, complete)
}

// ---------------------------------------------------------------------------------------------
// the trees of DESIGN 3.1

fn post_default() -> Vec<String> {
    sv(&["]", "\"", "x"])
}

pub fn t_struct() -> TreeSpec {
    TreeSpec {
        name: "T-struct",
        roots: sv(&[""]),
        alphabet: sv(&["[", "]", "{", "}", ",", ":", "\"", "1", "a", " "]),
        wide: sigma_wide(),
        post: post_default(),
    }
}

pub fn t_mixed() -> TreeSpec {
    TreeSpec {
        name: "T-mixed",
        roots: sv(&[""]),
        alphabet: sv(&["[", "]", "{", "}", ",", ":", "\"", " ", "0", "1", "-", ".", "e", "a", "\n"]),
        wide: sigma_wide(),
        post: post_default(),
    }
}

pub fn t_num() -> TreeSpec {
    TreeSpec {
        name: "T-num",
        roots: sv(&["", "[", "{\"k\":", "[1,"]),
        alphabet: sv(&["0", "1", "9", "-", "+", ".", "e", "E", ",", "]", "}", "x", " "]),
        wide: sigma_wide(),
        post: post_default(),
    }
}

pub fn t_lit() -> TreeSpec {
    TreeSpec {
        name: "T-lit",
        roots: sv(&["", "[", "{\"k\":", "[1,"]),
        alphabet: sv(&["t", "r", "u", "e", "f", "a", "l", "s", "n", "x", "]", ",", " "]),
        wide: sigma_wide(),
        post: post_default(),
    }
}

pub fn t_str() -> TreeSpec {
    TreeSpec {
        name: "T-str",
        roots: sv(&["\"", "{\""]),
        alphabet: sv(&[
            "\"", "\\", "/", "b", "f", "n", "r", "t", "u", "0", "8", "D", "C", "d", "a", "x", "\u{1f}", "\u{7f}", "\u{e9}", "\u{20ac}", "\u{1f600}",
        ]),
        wide: sigma_wide(),
        post: post_default(),
    }
}

/// T-sur: macro-symbols, rooted in value, key and array-item position.
pub fn t_sur() -> TreeSpec {
    TreeSpec {
        name: "T-sur",
        roots: sv(&["\"", "{\"", "[\""]),
        alphabet: sv(&["\\uD800", "\\uDBFF", "\\uDC00", "\\uDFFF", "\\u0041", "\\n", "a", "\u{e9}", "\""]),
        wide: Vec::new(),
        // after a surrogate fault the whole alphabet continues for the post-mortem horizon: a
        // parser that misses the fault may still pair the pending surrogate with a later escape
        post: sv(&["\\uD800", "\\uDBFF", "\\uDC00", "\\uDFFF", "\\u0041", "\\n", "a", "\u{e9}", "\"", "]"]),
    }
}

pub fn t_tok() -> TreeSpec {
    TreeSpec {
        name: "T-tok",
        roots: sv(&[""]),
        alphabet: sv(&[
            "[",
            "]",
            "{",
            "}",
            ",",
            ":",
            "\"a\"",
            "\"b\"",
            "\"\\u0061\"",
            "\"\"",
            "0",
            "-1.5E+2",
            "12345678901234567890.5",
            "true",
            "null",
            " ",
            "\n",
            "\"\u{e9}\u{1f600}\"",
            "\"aaaaaaaaaaaaaaaaaaaa\"",
        ]),
        wide: Vec::new(),
        post: post_default(),
    }
}

/// A smaller token tree used where every leaf is expensive (C11).
pub fn t_tok_small() -> TreeSpec {
    TreeSpec {
        name: "T-tok-small",
        roots: sv(&[""]),
        alphabet: sv(&["[", "]", "{", "}", ",", ":", "\"a\"", "\"\\u0061\"", "\"b\"", "0", "null", " ", "\"\u{e9}\u{1f600}\""]),
        wide: Vec::new(),
        post: Vec::new(),
    }
}

// ---------------------------------------------------------------------------------------------
// byte trees

pub struct ByteNode<'a> {
    pub bytes: &'a [u8],
    pub post: bool,
}

pub fn t_byte_alphabet() -> Vec<u8> {
    vec![
        b'"', b'[', b']', b'1', 0x20, 0x80, 0x8F, 0x90, 0x9B, 0x9D, 0xA0, 0xA2, 0xBB, 0xBF, 0xC0, 0xC1, 0xC2, 0xE0, 0xED, 0xEF, 0xF0, 0xF4, 0xF5, 0xFF,
    ]
}

/// Is a byte string still extensible to something the reference would judge differently?
/// (valid and viable text, or valid text followed by an incomplete but so far well-formed sequence)
fn bytes_alive(bytes: &[u8]) -> bool {
    let (text, tail_ok) = match std::str::from_utf8(bytes) {
        Ok(t) => (t, true),
        Err(e) => (std::str::from_utf8(&bytes[..e.valid_up_to()]).unwrap(), e.error_len().is_none()),
    };
    if !tail_ok {
        return false;
    }
    let mut m = Machine::new();
    m.feed(text) == text.len() && m.first_untolerated(false, false).is_none()
}

pub fn walk_bytes<V: Fn(&ByteNode, &mut Tally) + Sync>(alphabet: &[u8], post: &[u8], depth: usize, horizon: usize, budget: Budget, visit: &V) -> (Tally, bool) {
    use explore::rayon::prelude::*;
    fn rec<V: Fn(&ByteNode, &mut Tally) + Sync>(buf: &mut Vec<u8>, alphabet: &[u8], post: &[u8], d: usize, h: usize, in_post: bool, visit: &V, t: &mut Tally) {
        t.states += 1;
        visit(&ByteNode { bytes: buf, post: in_post }, t);
        let alive = !in_post && bytes_alive(buf);
        if alive {
            if d == 0 {
                return;
            }
            for &b in alphabet {
                buf.push(b);
                t.transitions += 1;
                rec(buf, alphabet, post, d - 1, h, false, visit, t);
                buf.pop();
            }
        } else if h > 0 {
            for &b in post {
                buf.push(b);
                t.transitions += 1;
                rec(buf, alphabet, post, 0, h - 1, true, visit, t);
                buf.pop();
            }
        }
    }
    // first two levels as work items
    let mut items: Vec<Vec<u8>> = Vec::new();
    let mut t0 = Tally::new();
    t0.states += 1;
    visit(&ByteNode { bytes: &[], post: false }, &mut t0);
    for &a in alphabet {
        for &b in alphabet {
            items.push(vec![a, b]);
        }
        // the one-byte node itself
        t0.states += 1;
        t0.transitions += 1;
        visit(&ByteNode { bytes: &[a], post: false }, &mut t0);
    }
    let t = items
        .into_par_iter()
        .fold(Tally::new, |mut t, mut it| {
            if budget.expired() {
                t.outcome("subtree-skipped:time-cap");
                return t;
            }
            // only extend below an alive one-byte prefix; dead one-byte prefixes get post-mortem only
            if bytes_alive(&it[..1]) {
                t.transitions += 1;
                rec(&mut it, alphabet, post, depth.saturating_sub(2), horizon, false, visit, &mut t);
            }
            t
        })
        .reduce(Tally::new, |mut a, b| {
            a.absorb(b);
            a
        });
    // post-mortem below dead one-byte prefixes
    for &a in alphabet {
        if !bytes_alive(&[a]) {
            let mut buf = vec![a];
            for &b in post {
                buf.push(b);
                t0.states += 1;
                t0.transitions += 1;
                visit(&ByteNode { bytes: &buf, post: true }, &mut t0);
                buf.pop();
            }
        }
    }
    t0.absorb(t);
    let complete = !t0.hist.contains_key("subtree-skipped:time-cap");
    (t0, complete)
}
