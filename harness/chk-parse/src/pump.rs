//! C03 — stack use independent of nesting depth: exhaustive cover of the container-transition
//! graph, pumped. Every word of length 1..=3 over the four ways a container can be entered is
//! repeated up to a total depth N and parsed (and traversed) in a thread with a small fixed
//! stack, inside a child process so that a stack overflow is observed, not suffered.

use explore::serde_json::{json, Value as J};
use explore::{Report, Tally, Tier};
use json_syntax::parse::Options;
use json_syntax::{Parse, Value};
use std::io::{BufRead, BufReader, Write};
use std::process::{Command, Stdio};

const FORMS: [(&str, char, usize); 4] = [("[", ']', 1), ("[1,", ']', 2), ("{\"k\":", '}', 3), ("{\"a\":1,\"k\":", '}', 6)];

/// The ways a container is entered: (text before the nested value, text after it, fragments it
/// contributes). Forms 0..4 are the narrow ones; forms 4..7 are *wide*: the container holds
/// `width` further items or members (before the nested value, or half before and half after), so
/// that per-container shortcuts keyed on the number of items are pumped together with the depth.
fn form(idx: usize, width: usize) -> (String, String, usize) {
    match idx {
        0..=3 => (FORMS[idx].0.to_string(), FORMS[idx].1.to_string(), FORMS[idx].2),
        4 => (format!("[{}", "0,".repeat(width)), "]".to_string(), 1 + width),
        5 => (format!("{{{}\"k\":", "\"a\":0,".repeat(width)), "}".to_string(), 1 + 3 * width + 2),
        _ => {
            let h = width / 2;
            (format!("[{}", "0,".repeat(h)), format!("{}]", ",0".repeat(width - h)), 1 + width)
        }
    }
}

/// *Flat* documents (word = [FLAT + kind], depth 1, width = n): everything else that can be
/// repeated n times without nesting - whitespace runs at every kind of boundary, string bodies
/// of several kinds, digit runs in the three parts of a number, a key, items and members. A
/// parser that handles any of these repetitions by recursion (one frame per character, digit,
/// item or member) passes every ordinary test and overflows a small stack here.
pub const FLAT: usize = 100;
pub const FLAT_KINDS: usize = 17;

fn flat_name(kind: usize, n: usize) -> String {
    let what = [
        "n spaces before the value",
        "n line feeds after the value",
        "n tabs / carriage returns around an array item",
        "n spaces around a member value",
        "a string of n ASCII characters",
        "a string of n two-character escapes",
        "a string of n two-byte characters",
        "a string of n/2 escaped surrogate pairs",
        "an integer of n digits",
        "a fraction of n digits",
        "an exponent of n digits",
        "a key of n characters",
        "an array of n numbers",
        "an object of n members with the same key",
        "an array of n empty arrays",
        "an array of n strings",
        "an array of n numbers with a space around every comma",
    ][kind];
    format!("{what} (n = {n})")
}

/// (text, fragments, span of the root)
fn flat_build(kind: usize, n: usize) -> (String, usize, (usize, usize)) {
    let rep = |s: &str, k: usize| s.repeat(k);
    let (text, frags) = match kind {
        0 => (format!("{}0", rep(" ", n)), 1),
        1 => (format!("0{}", rep("\n", n)), 1),
        2 => (format!("[{}0{}]", rep("\t", n), rep("\r", n)), 2),
        3 => (format!("{{\"k\":{}0{}}}", rep(" ", n), rep(" ", n)), 4),
        4 => (format!("\"{}\"", rep("a", n)), 1),
        5 => (format!("\"{}\"", rep("\\n", n)), 1),
        6 => (format!("\"{}\"", rep("\u{e9}", n)), 1),
        7 => (format!("\"{}\"", rep("\\ud83d\\ude00", n / 2)), 1),
        8 => (rep("1", n), 1),
        9 => (format!("0.{}", rep("1", n)), 1),
        10 => (format!("1e{}1", rep("0", n)), 1),
        11 => (format!("{{\"{}\":0}}", rep("k", n)), 4),
        12 => (format!("[{}0]", rep("0,", n - 1)), 1 + n),
        13 => (format!("{{{}\"k\":0}}", rep("\"k\":0,", n - 1)), 1 + 3 * n),
        14 => (format!("[{}[]]", rep("[],", n - 1)), 1 + n),
        15 => (format!("[{}\"s\"]", rep("\"s\",", n - 1)), 1 + n),
        _ => (format!("[{}0]", rep("0 , ", n - 1)), 1 + n),
    };
    let root = match kind {
        0 => (n, n + 1),
        1 => (0, 1),
        _ => (0, text.len()),
    };
    (text, frags, root)
}

fn form_name(idx: usize, width: usize) -> String {
    if idx >= FLAT {
        return flat_name(idx - FLAT, width);
    }
    match idx {
        0..=3 => FORMS[idx].0.to_string(),
        4 => format!("[0,*{width} then the nested value"),
        5 => format!("{{\"a\":0,*{width} then \"k\": the nested value"),
        _ => format!("[0,*{} the nested value ,0*{}]", width / 2, width - width / 2),
    }
}

#[derive(Clone, Debug)]
struct Case {
    word: Vec<usize>,
    ending: u8, // 0 closed, 1 unclosed, 2 wrong innermost closer, 3 closed + trailing garbage, 4 wrong outermost closer
    rec: (bool, bool),
    entry: u8, // 0 parse_slice_with, 1 parse_str_with
    depth: usize,
    stack_kib: usize,
    width: usize, // items per wide container (forms 4..7); 0 when the word has none
}

/// Words with at least one wide form: every word of length 1..=2 over the three wide forms and
/// the two plain nestings `[` and `{"k":`.
fn wide_words() -> Vec<Vec<usize>> {
    let letters = [4usize, 5, 6, 0, 2];
    let mut out: Vec<Vec<usize>> = Vec::new();
    for &a in &letters {
        if a >= 4 {
            out.push(vec![a]);
        }
        for &b in &letters {
            if a >= 4 || b >= 4 {
                out.push(vec![a, b]);
            }
        }
    }
    out
}

fn words(max_len: usize) -> Vec<Vec<usize>> {
    let mut out = Vec::new();
    let mut cur: Vec<Vec<usize>> = vec![vec![]];
    for _ in 0..max_len {
        let mut next = Vec::new();
        for w in &cur {
            for f in 0..4 {
                let mut w2 = w.clone();
                w2.push(f);
                next.push(w2);
            }
        }
        out.extend(next.iter().cloned());
        cur = next;
    }
    out
}

fn cases(tier: Tier) -> Vec<Case> {
    let mut v = Vec::new();
    match tier {
        Tier::Quick => {
            for w in words(3) {
                for ending in 0..7 {
                    // the error-path endings (3..6) are run under the strict record through the
                    // byte-slice entry point only; the thorough tier runs the full product
                    let recs: &[(bool, bool)] = if ending < 3 { &[(false, false), (true, true)] } else { &[(false, false)] };
                    for &rec in recs {
                        for entry in 0..(if ending < 3 { 2 } else { 1 }) {
                            v.push(Case {
                                word: w.clone(),
                                ending,
                                rec,
                                entry,
                                depth: 50_000,
                                stack_kib: 64,
                                width: 0,
                            });
                        }
                    }
                }
            }
            // the source fails after the closed deep value (7..=9: after the root; 10..=18: while
            // an outer container under construction holds it)
            for w in words(2) {
                for ending in 7..20 {
                    v.push(Case {
                        word: w.clone(),
                        ending,
                        rec: (false, false),
                        entry: 0,
                        depth: 50_000,
                        stack_kib: 64,
                        width: 0,
                    });
                }
            }
            // the parse is made from a destructor while the thread is unwinding
            for w in words(2) {
                for ending in 0..7 {
                    v.push(Case {
                        word: w.clone(),
                        ending,
                        rec: (false, false),
                        entry: 2,
                        depth: 50_000,
                        stack_kib: 64,
                        width: 0,
                    });
                }
            }
            // depths beyond every "reasonable" limit an implementation might hard-code
            for w in [vec![0usize], vec![2], vec![0, 2]] {
                for depth in [100_003usize, 131_073, 1_000_003] {
                    for ending in [0u8, 1] {
                        v.push(Case {
                            word: w.clone(),
                            ending,
                            rec: (false, false),
                            entry: 0,
                            depth,
                            stack_kib: 64,
                            width: 0,
                        });
                    }
                }
            }
            // flat documents: every other repetition, in the same small stack
            for kind in 0..FLAT_KINDS {
                for ending in [0u8, 3] {
                    for entry in 0..3u8 {
                        v.push(Case {
                            word: vec![FLAT + kind],
                            ending,
                            rec: (false, false),
                            entry,
                            depth: 1,
                            stack_kib: 64,
                            width: if kind >= 12 { 200_003 } else { 1_000_003 },
                        });
                    }
                }
            }
            // wide containers: widths on both sides of 32 and 256
            for w in wide_words() {
                for width in [33, 257] {
                    for ending in 0..7 {
                        v.push(Case {
                            word: w.clone(),
                            ending,
                            rec: (false, false),
                            entry: 0,
                            depth: 4_000,
                            stack_kib: 64,
                            width,
                        });
                    }
                }
            }
        }
        Tier::Thorough => {
            for w in words(3) {
                for ending in 0..7 {
                    for rec in crate::drive::RECORDS {
                        for entry in 0..2 {
                            v.push(Case {
                                word: w.clone(),
                                ending,
                                rec,
                                entry,
                                depth: 200_000,
                                stack_kib: 64,
                                width: 0,
                            });
                        }
                    }
                }
            }
            for w in words(3) {
                for ending in 0..7 {
                    v.push(Case {
                        word: w.clone(),
                        ending,
                        rec: (false, false),
                        entry: 2,
                        depth: 200_000,
                        stack_kib: 64,
                        width: 0,
                    });
                }
            }
            for w in words(3) {
                for ending in 7..20 {
                    v.push(Case {
                        word: w.clone(),
                        ending,
                        rec: (false, false),
                        entry: 0,
                        depth: 200_000,
                        stack_kib: 64,
                        width: 0,
                    });
                }
            }
            for w in words(2) {
                for ending in [0, 1, 3, 5, 7, 9] {
                    v.push(Case {
                        word: w.clone(),
                        ending,
                        rec: (false, false),
                        entry: 0,
                        depth: 2_000_000,
                        stack_kib: 256,
                        width: 0,
                    });
                }
            }
            for kind in 0..FLAT_KINDS {
                for ending in [0u8, 3] {
                    for entry in 0..3u8 {
                        for rec in [(false, false), (true, true)] {
                            for n in [65_537usize, 1_000_003, 4_000_001] {
                                v.push(Case {
                                    word: vec![FLAT + kind],
                                    ending,
                                    rec,
                                    entry,
                                    depth: 1,
                                    stack_kib: 64,
                                    width: if kind >= 12 { n / 4 } else { n },
                                });
                            }
                        }
                    }
                }
            }
            for w in wide_words() {
                for width in [5, 9, 17, 33, 65, 129, 257, 1025] {
                    for ending in 0..7 {
                        for entry in 0..2 {
                            v.push(Case {
                                word: w.clone(),
                                ending,
                                rec: (false, false),
                                entry,
                                depth: if width > 257 { 4_000 } else { 10_000 },
                                stack_kib: 64,
                                width,
                            });
                        }
                    }
                }
            }
        }
    }
    // the huge cases last (they are run with less parallelism); the sort is stable
    v.sort_by_key(|c| c.depth > 200_000);
    v
}

/// Builds the document and the expected number of fragments (closed ending).
fn build(c: &Case) -> (String, usize, Option<(usize, Option<char>)>) {
    if c.word[0] >= FLAT {
        let (mut s, frags, _) = flat_build(c.word[0] - FLAT, c.width);
        return match c.ending {
            0 => (s, frags, None),
            _ => {
                let at = s.len();
                s.push('x');
                (s, frags, Some((at, Some('x'))))
            }
        };
    }
    let mut s = String::new();
    let mut closers: Vec<&str> = Vec::new();
    let mut frags = 0;
    let forms: Vec<(String, String, usize)> = (0..7).map(|i| form(i, c.width)).collect();
    for i in 0..c.depth {
        let (open, close, f) = &forms[c.word[i % c.word.len()]];
        s.push_str(open);
        closers.push(close);
        frags += f;
    }
    let wrong_for = |closer: &str| if closer.ends_with(']') { '}' } else { ']' };
    s.push('0');
    frags += 1;
    match c.ending {
        0 => {
            for ch in closers.iter().rev() {
                s.push_str(ch);
            }
            (s, frags, None)
        }
        1 => {
            let l = s.len();
            (s, frags, Some((l, None)))
        }
        3 => {
            // a complete deep value followed by garbage: the error is found when the value
            // has already been built (the parser has to dispose of it)
            for ch in closers.iter().rev() {
                s.push_str(ch);
            }
            let at = s.len();
            s.push('x');
            (s, frags, Some((at, Some('x'))))
        }
        4 => {
            // everything closed correctly except the outermost container
            for ch in closers.iter().rev().take(closers.len() - 1) {
                s.push_str(ch);
            }
            let wrong = wrong_for(closers[0]);
            let at = s.len();
            s.push(wrong);
            (s, frags, Some((at, Some(wrong))))
        }
        5 | 6 => {
            // a complete deep value as the first item / member of an outer container, then an
            // error in the next item: the parser gives up while a parent holds the deep value
            let (open, sep) = if c.ending == 5 { ("[", ",x") } else { ("{\"k\":", ",x") };
            let mut t = String::with_capacity(s.len() * 2 + 8);
            t.push_str(open);
            t.push_str(&s);
            for ch in closers.iter().rev() {
                t.push_str(ch);
            }
            let at = t.len() + 1;
            t.push_str(sep);
            (t, frags, Some((at, Some('x'))))
        }
        _ => {
            let wrong = wrong_for(closers.last().unwrap());
            let at = s.len();
            s.push(wrong);
            // (the rest is irrelevant: the parser stops at the wrong closer)
            for ch in closers.iter().rev().skip(1).take(3) {
                s.push_str(ch);
            }
            (s, frags, Some((at, Some(wrong))))
        }
    }
}

/// Releases a value without recursion (the drop glue of a deeply nested value is recursive,
/// which is outside C03; the harness must neither overflow nor leak).
pub fn release(v: Value) {
    let mut pending = vec![v];
    while let Some(v) = pending.pop() {
        match v {
            Value::Array(a) => pending.extend(a),
            Value::Object(o) => pending.extend(o.into_iter().map(|e| e.value)),
            _ => {}
        }
    }
}

fn run_case_in_thread(c: &Case) -> Result<(), String> {
    // endings 7..9 are the closed document followed by a failure of the *source* (not a syntax
    // error): an ill-formed byte, whitespace and a truncated UTF-8 sequence, an error answer of
    // the character iterator - the finished deep value has to be disposed of on that path too
    if c.ending >= 7 {
        return run_source_failure_case(c);
    }
    let (doc, frags, err) = build(c);
    let want_root = if c.word[0] >= FLAT { flat_build(c.word[0] - FLAT, c.width).2 } else { (0, doc.len()) };
    let o = Options {
        accept_truncated_surrogate_pair: c.rec.0,
        accept_invalid_codepoints: c.rec.1,
    };
    let entry = c.entry;
    let h = std::thread::Builder::new()
        .stack_size(c.stack_kib * 1024)
        .spawn(move || -> Result<(), String> {
          let body = move || -> Result<(), String> {
            let r = if entry != 1 { Value::parse_slice_with(doc.as_bytes(), o) } else { Value::parse_str_with(&doc, o) };
            match (r, err) {
                (Ok((v, map)), None) => {
                    let n = v.traverse().count();
                    let vol = v.volume();
                    let maplen = map.len();
                    let root = map.iter().next().map(|(_, e)| (e.span.start(), e.span.end(), e.volume));
                    // dropping a deep value is recursive (outside C03): dismantle it iteratively
                    release(v);
                    if n != frags {
                        return Err(format!("traverse() yields {n} fragments, the document has {frags}"));
                    }
                    if maplen != frags || root != Some((want_root.0, want_root.1, frags)) {
                        return Err(format!("code map: len {maplen}, root {root:?}; expected len {frags}, root ({},{},{frags})", want_root.0, want_root.1));
                    }
                    if vol == 0 {
                        return Err("volume() is 0".into());
                    }
                    Ok(())
                }
                (Ok((v, _)), Some(_)) => {
                    release(v);
                    Err("an invalid document was accepted".into())
                }
                (Err(e), None) => Err(format!("a valid document was rejected: {e}")),
                (Err(e), Some((p, ch))) => match e {
                    json_syntax::parse::Error::Unexpected(q, d) if q == p && d == ch => Ok(()),
                    other => Err(format!("expected Unexpected({p}, {ch:?}), got {other:?}")),
                },
            }
          };
          if entry != 2 {
              return body();
          }
          // entry 2: the same parse made from a destructor while the thread is unwinding from a
          // panic (the state of the thread is part of the environment: clean-up code that checks
          // `thread::panicking()` behaves differently there)
          struct Guard<F: FnOnce()>(Option<F>);
          impl<F: FnOnce()> Drop for Guard<F> {
              fn drop(&mut self) {
                  if let Some(f) = self.0.take() {
                      f()
                  }
              }
          }
          let slot = std::cell::RefCell::new(None);
          let _ = std::panic::catch_unwind(std::panic::AssertUnwindSafe(|| {
              let _g = Guard(Some(|| {
                  *slot.borrow_mut() = Some(body());
              }));
              std::panic::resume_unwind(Box::new("unwinding on purpose"));
          }));
          slot.into_inner().unwrap_or_else(|| Err("the parse inside the destructor did not run".into()))
        })
        .map_err(|e| format!("cannot spawn thread: {e}"))?;
    match h.join() {
        Ok(r) => r,
        Err(_) => Err("the parsing thread panicked".into()),
    }
}

fn run_source_failure_case(c: &Case) -> Result<(), String> {
    let mut closed = c.clone();
    closed.ending = 0;
    let (doc, _, _) = build(&closed);
    // endings 10..=18: the same three failures of the source, not after the root but right after
    // the deep value as the first item of an outer array, as the first member value of an outer
    // object, and after the comma that follows it - the parser holds the finished deep value in
    // a container under construction when the source fails
    // ending 19: a source that is not fused - it answers `None` once and an error on every later
    // poll (a reader that hangs up after its end): whatever the parser makes of it, it returns
    if c.ending == 19 {
        let o = Options {
            accept_truncated_surrogate_pair: c.rec.0,
            accept_invalid_codepoints: c.rec.1,
        };
        let h = std::thread::Builder::new()
            .stack_size(c.stack_kib * 1024)
            .spawn(move || -> Result<(), String> {
                let mut chars = doc.chars();
                let mut ended = false;
                let src = std::iter::from_fn(|| match chars.next() {
                    Some(c) => Some(Ok(c)),
                    None if !ended => {
                        ended = true;
                        None
                    }
                    None => Some(Err(7u8)),
                });
                if let Ok((v, _)) = Value::parse_utf8_with(src, o) {
                    release(v);
                }
                Ok(())
            })
            .map_err(|e| format!("cannot spawn thread: {e}"))?;
        return match h.join() {
            Ok(r) => r,
            Err(_) => Err("the parsing thread panicked".into()),
        };
    }
    let (doc, ending) = if c.ending >= 10 {
        let place = (c.ending - 10) / 3;
        let doc = match place {
            0 => format!("[{doc}"),
            1 => format!("{{\"k\":{doc}"),
            _ => format!("[{doc},"),
        };
        (doc, 7 + (c.ending - 10) % 3)
    } else {
        (doc, c.ending)
    };
    let o = Options {
        accept_truncated_surrogate_pair: c.rec.0,
        accept_invalid_codepoints: c.rec.1,
    };
    let h = std::thread::Builder::new()
        .stack_size(c.stack_kib * 1024)
        .spawn(move || -> Result<(), String> {
            let len = doc.len();
            match ending {
                7 | 8 => {
                    let mut bytes = doc.into_bytes();
                    let want = if ending == 7 {
                        bytes.push(0xff);
                        len
                    } else {
                        bytes.extend_from_slice(b" \xe2\x82");
                        len + 1
                    };
                    match Value::parse_slice_with(&bytes, o) {
                        Err(json_syntax::parse::Error::InvalidUtf8(p)) if p == want => Ok(()),
                        Err(e) => Err(format!("expected InvalidUtf8({want}), got {e:?}")),
                        Ok((v, _)) => {
                            release(v);
                            Err("ill-formed UTF-8 after the value was accepted".into())
                        }
                    }
                }
                _ => {
                    let mut failed = false;
                    let mut chars = doc.chars();
                    let src = std::iter::from_fn(|| match chars.next() {
                        Some(c) => Some(Ok(c)),
                        None if !failed => {
                            failed = true;
                            Some(Err(7u8))
                        }
                        None => None,
                    });
                    match Value::parse_utf8_with(src, o) {
                        Err(json_syntax::parse::Error::Stream(p, 7)) if p == len => Ok(()),
                        Err(e) => Err(format!("expected Stream({len}, 7), got {e:?}")),
                        Ok((v, _)) => {
                            release(v);
                            Err("the document was accepted although its source failed".into())
                        }
                    }
                }
            }
        })
        .map_err(|e| format!("cannot spawn thread: {e}"))?;
    match h.join() {
        Ok(r) => r,
        Err(_) => Err("the parsing thread panicked".into()),
    }
}

/// Child process: `chk-parse C03 --pump-child <tier> <start> <end>`; protocol on stdout:
/// `S <i>` before case i, `D <i> ok` / `D <i> bad <message>` after it.
pub fn child_main() -> i32 {
    let a: Vec<String> = std::env::args().collect();
    let tier = if a[3] == "thorough" { Tier::Thorough } else { Tier::Quick };
    let (start, end): (usize, usize) = (a[4].parse().unwrap(), a[5].parse().unwrap());
    let cs = cases(tier);
    let out = std::io::stdout();
    for (i, c) in cs.iter().enumerate().take(end).skip(start) {
        {
            let mut o = out.lock();
            writeln!(o, "S {i}").unwrap();
            o.flush().unwrap();
        }
        let r = run_case_in_thread(c);
        let mut o = out.lock();
        match r {
            Ok(()) => writeln!(o, "D {i} ok").unwrap(),
            Err(e) => writeln!(o, "D {i} bad {e}").unwrap(),
        }
        o.flush().unwrap();
    }
    0
}

fn case_json(i: usize, c: &Case, tier: Tier) -> J {
    let ending = ["closed", "unclosed", "wrong innermost closer", "closed + trailing garbage", "wrong outermost closer", "deep first array item then a bad item", "deep first member then a bad key", "closed + an ill-formed byte", "closed + whitespace + a truncated UTF-8 sequence", "closed, then the character source fails",
        "first item of an outer array + an ill-formed byte", "first item of an outer array + whitespace + a truncated UTF-8 sequence", "first item of an outer array, then the character source fails",
        "first member of an outer object + an ill-formed byte", "first member of an outer object + whitespace + a truncated UTF-8 sequence", "first member of an outer object, then the character source fails",
        "first item of an outer array + comma + an ill-formed byte", "first item of an outer array + comma + whitespace + a truncated UTF-8 sequence", "first item of an outer array + comma, then the character source fails",
        "closed, then a source that is not fused: None once, an error on every later poll"][c.ending as usize];
    let entry = ["parse_slice_with", "parse_str_with", "parse_slice_with from a destructor while the thread is unwinding"][c.entry as usize];
    json!({
        "kind": "pump",
        "tier": tier.name(),
        "index": i,
        "word": c.word.iter().map(|f| form_name(*f, c.width)).collect::<Vec<_>>(),
        "width": c.width,
        "ending": ending,
        "record": [c.rec.0, c.rec.1],
        "entry": entry,
        "depth": c.depth,
        "stack_kib": c.stack_kib,
    })
}

/// Runs cases [start, end) in child processes; a dead child identifies the case that killed it.
fn run_range(tier: Tier, start: usize, end: usize, cs: &[Case], t: &mut Tally) {
    let exe = std::env::current_exe().expect("current_exe");
    let mut next = start;
    while next < end {
        let mut child = Command::new(&exe)
            .args(["C03", "--pump-child", tier.name(), &next.to_string(), &end.to_string()])
            .env("VERIF_SYSTEM_ALLOC", "1")
            .stdout(Stdio::piped())
            .stderr(Stdio::null())
            .spawn()
            .expect("spawn pump child");
        let rd = BufReader::new(child.stdout.take().unwrap());
        let mut started: Option<usize> = None;
        for line in rd.lines().map_while(Result::ok) {
            let mut it = line.splitn(4, ' ');
            match (it.next(), it.next().and_then(|x| x.parse::<usize>().ok())) {
                (Some("S"), Some(i)) => started = Some(i),
                (Some("D"), Some(i)) => {
                    t.evals += 1;
                    t.states += 1;
                    t.transitions += cs[i].depth as u64;
                    started = None;
                    next = i + 1;
                    let status = it.next().unwrap_or("");
                    if status == "ok" {
                        t.outcome(["pump:closed ok", "pump:unclosed rejected at end", "pump:wrong closer rejected in place", "pump:trailing garbage rejected in place", "pump:wrong outermost closer rejected in place", "pump:bad sibling of a deep item rejected in place", "pump:bad sibling of a deep member rejected in place", "pump:ill-formed byte after the value reported in place", "pump:truncated sequence after the value reported in place", "pump:source failure after the value reported in place"][(cs[i].ending as usize).min(9)]);
                        t.nontrivial(&i);
                    } else {
                        t.violation("", format!("pumped document mishandled: {}", it.next().unwrap_or("")), case_json(i, &cs[i], tier));
                    }
                }
                _ => {}
            }
        }
        let status = child.wait().expect("wait");
        if let Some(i) = started {
            // the child died inside case i: a stack overflow shows as SIGSEGV / SIGABRT / SIGBUS;
            // anything else (e.g. SIGKILL from the kernel's OOM killer) is a machinery problem
            use std::os::unix::process::ExitStatusExt;
            let sig = status.signal().unwrap_or(0);
            t.evals += 1;
            t.states += 1;
            if ![6, 7, 11].contains(&sig) {
                t.violation("MACHINERY-pump", format!("pump child killed by signal {sig} in case {i} (not a stack overflow)"), case_json(i, &cs[i], tier));
                next = i + 1;
                continue;
            }
            t.violation(
                "",
                if cs[i].word[0] >= FLAT {
                    format!("parsing/traversing a flat document - {} - in a {} KiB stack killed the process ({status})", form_name(cs[i].word[0], cs[i].width), cs[i].stack_kib)
                } else {
                    format!("parsing/traversing a document nested {} deep in a {} KiB stack killed the process ({status})", cs[i].depth, cs[i].stack_kib)
                },
                case_json(i, &cs[i], tier),
            );
            next = i + 1;
        } else if !status.success() && next < end {
            t.violation("MACHINERY-pump", format!("pump child failed outside a case: {status}"), json!({}));
            return;
        }
    }
}

pub fn run(rep: &mut Report, tier: Tier) {
    let cs = cases(tier);
    let n = cs.len();
    // small-stack cases in 16 parallel ranges; the huge ones (1-3 GB each) at most 6 at a time
    let small: Vec<usize> = (0..n).filter(|&i| cs[i].depth <= 200_000).collect();
    let big: Vec<usize> = (0..n).filter(|&i| cs[i].depth > 200_000).collect();
    let mut ranges: Vec<(usize, usize)> = Vec::new();
    if !small.is_empty() {
        let lo = small[0];
        let hi = small[small.len() - 1] + 1;
        let k = 16;
        let step = (hi - lo + k - 1) / k;
        let mut s = lo;
        while s < hi {
            ranges.push((s, (s + step).min(hi)));
            s += step;
        }
    }
    let t = std::sync::Mutex::new(Tally::new());
    std::thread::scope(|sc| {
        for (s, e) in ranges.clone() {
            let t = &t;
            let cs = &cs;
            sc.spawn(move || {
                let mut local = Tally::new();
                run_range(tier, s, e, cs, &mut local);
                t.lock().unwrap().absorb(local);
            });
        }
    });
    if !big.is_empty() {
        let lo = big[0];
        let hi = big[big.len() - 1] + 1;
        let k = 6;
        let step = (hi - lo + k - 1) / k;
        std::thread::scope(|sc| {
            let mut s = lo;
            while s < hi {
                let e = (s + step).min(hi);
                let t = &t;
                let cs = &cs;
                sc.spawn(move || {
                    let mut local = Tally::new();
                    run_range(tier, s, e, cs, &mut local);
                    t.lock().unwrap().absorb(local);
                });
                s = e;
            }
        });
    }
    let mut t = t.into_inner().unwrap();
    t.sample(case_json(0, &cs[0], tier));
    t.sample(case_json(n - 1, &cs[n - 1], tier));
    rep.bounds["pump"] = json!({"cases": n, "words": "all words of length 1..3 over {[, [1,, {\"k\":, {\"a\":1,\"k\":}; all words of length 1..2 with a wide container (array, object, array with the nested value in the middle) over widths on both sides of the power-of-two thresholds",
        "widths": cs.iter().map(|c| c.width).collect::<std::collections::BTreeSet<_>>(), "endings": ["closed", "unclosed", "wrong innermost closer", "closed + trailing garbage", "wrong outermost closer", "deep first item then a bad item", "deep first member then a bad key", "closed + ill-formed byte", "closed + whitespace + truncated UTF-8", "closed + failing character source", "the same three source failures after the deep value inside an outer array / an outer object / after the following comma"],
        "depths": cs.iter().map(|c| c.depth).collect::<std::collections::BTreeSet<_>>(), "stack_kib": cs.iter().map(|c| c.stack_kib).collect::<std::collections::BTreeSet<_>>()});
    rep.absorb(t);
}

pub fn replay(case: &J) -> i32 {
    let tier = if case["tier"] == "thorough" { Tier::Thorough } else { Tier::Quick };
    let i = case["index"].as_u64().unwrap_or(0) as usize;
    let cs = cases(tier);
    let mut t = Tally::new();
    run_range(tier, i, i + 1, &cs, &mut t);
    if t.violation_count == 0 {
        println!("replay: the case passes on the current tree");
        0
    } else {
        for v in &t.violations {
            println!("replay: {}", v.what);
        }
        println!("VIOLATION property=C03 replay=(pump case {i})");
        1
    }
}
