//! Expectations derived from the reference models, and the comparison of results.

use crate::drive::{Out, EK};
use refmodel::pda::{Fault, FaultKind, Machine};

#[derive(Clone, Debug, PartialEq, Eq)]
pub enum Expect {
    Accept,
    Unexpected(usize, Option<char>),
    Fault(Fault),
    InvalidUtf8(usize),
}

impl Expect {
    pub fn class(&self) -> &'static str {
        match self {
            Expect::Accept => "accept",
            Expect::Unexpected(_, Some(_)) => "unexpected-char",
            Expect::Unexpected(_, None) => "unexpected-end",
            Expect::Fault(f) => match f.kind {
                FaultKind::UnpairedHighByChar => "unpaired-high-by-char",
                FaultKind::UnpairedHighByUnit => "unpaired-high-by-unit",
                FaultKind::LoneLow => "lone-low",
            },
            Expect::InvalidUtf8(_) => "invalid-utf8",
        }
    }
}

/// Expectation for a text, given the machine state reached after its longest viable
/// prefix, and the death point (offset, character) if the automaton died.
pub fn expect_from(m: &Machine, text_len: usize, dead: Option<(usize, char)>, rec: (bool, bool)) -> Expect {
    if let Some(f) = m.first_untolerated(rec.0, rec.1) {
        return Expect::Fault(*f);
    }
    match dead {
        Some((p, c)) => Expect::Unexpected(p, Some(c)),
        None => {
            if m.pda.is_accepting() {
                Expect::Accept
            } else {
                Expect::Unexpected(text_len, None)
            }
        }
    }
}

pub fn expect_text(text: &str, rec: (bool, bool)) -> Expect {
    let mut m = Machine::new();
    let v = m.feed(text);
    let dead = if v < text.len() { Some((v, text[v..].chars().next().unwrap())) } else { None };
    expect_from(&m, text.len(), dead, rec)
}

/// Expectation for byte input (`parse_slice`): well-formedness by `core::str::from_utf8`,
/// "a syntax error strictly before the first ill-formed sequence wins".
pub fn expect_bytes(bytes: &[u8], rec: (bool, bool)) -> Expect {
    match std::str::from_utf8(bytes) {
        Ok(t) => expect_text(t, rec),
        Err(e) => {
            let u = e.valid_up_to();
            let prefix = std::str::from_utf8(&bytes[..u]).unwrap();
            let mut m = Machine::new();
            let v = m.feed(prefix);
            if let Some(f) = m.first_untolerated(rec.0, rec.1) {
                return Expect::Fault(*f);
            }
            if v < u {
                Expect::Unexpected(v, prefix[v..].chars().next())
            } else {
                Expect::InvalidUtf8(u)
            }
        }
    }
}

/// Character boundary of the input: a boundary of its well-formed prefix (which includes the
/// offset of the first ill-formed sequence); nothing can be reported beyond that.
fn boundary(input: &[u8], p: usize) -> bool {
    let valid = match std::str::from_utf8(input) {
        Ok(t) => t,
        Err(e) => std::str::from_utf8(&input[..e.valid_up_to()]).unwrap(),
    };
    p <= valid.len() && valid.is_char_boundary(p)
}

/// Compares one result with the expectation; `Err` describes the disagreement.
pub fn check(out: &Out, exp: &Expect, input: &[u8]) -> Result<(), String> {
    let fail = |why: &str| Err(format!("{why}: expected {exp:?}, observed {}", out.brief()));
    match out {
        Out::Broken(_) => return fail("entry point broken"),
        Out::Err(e) => {
            let (a, b) = e.span();
            if a > b || b > input.len() || !boundary(input, a) || !boundary(input, b) {
                return fail("reported span is not made of character boundaries inside the input");
            }
        }
        Out::Ok(..) => {}
    }
    match (exp, out) {
        (Expect::Accept, Out::Ok(..)) => Ok(()),
        (Expect::Accept, _) => fail("valid text rejected"),
        (_, Out::Ok(..)) => fail("invalid text accepted"),
        (Expect::Unexpected(p, c), Out::Err(EK::Unexpected(q, d))) => {
            if p == q && c == d {
                Ok(())
            } else {
                fail("wrong offset/character in Unexpected")
            }
        }
        (Expect::Unexpected(..), _) => fail("wrong error variant"),
        (Expect::InvalidUtf8(u), Out::Err(EK::InvalidUtf8(p))) => {
            if u == p {
                Ok(())
            } else {
                fail("wrong InvalidUtf8 offset")
            }
        }
        (Expect::InvalidUtf8(_), _) => fail("ill-formed UTF-8 after a viable prefix must be reported as InvalidUtf8"),
        (Expect::Fault(f), Out::Err(e)) => {
            let limit = if f.by_quote { f.detect - 1 } else { f.detect };
            let (a, b) = e.span();
            let units_ok = match (f.kind, e) {
                (FaultKind::UnpairedHighByChar, EK::MissingLowSurrogate(_, _, hi)) => *hi == f.hi,
                (FaultKind::UnpairedHighByUnit, EK::InvalidLowSurrogate(_, _, hi, cp)) => *hi == f.hi && *cp == f.unit as u32,
                (FaultKind::LoneLow, EK::InvalidUnicodeCodePoint(_, _, cp)) => *cp == f.unit as u32,
                _ => return fail("wrong error variant for the surrogate fault"),
            };
            if !units_ok {
                return fail("surrogate error carries the wrong code units");
            }
            if a < f.start || b > limit {
                return fail("surrogate error span lies outside the offending escape sequence(s)");
            }
            Ok(())
        }
        (Expect::Fault(_), Out::Broken(_)) => unreachable!(),
    }
}
