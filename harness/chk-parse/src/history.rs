//! Operation sequences on one thread: the outcome of a parse must not depend on the parses that
//! came before it on the same thread (no state survives a call: scratch buffers, recycled
//! stacks, whatever an earlier error left behind).
//!
//! Alphabet: (document, entry point) pairs over a small set of documents chosen to leave as much
//! behind as a parse can - deep, wide, long-string and long-key documents, each valid, cut short,
//! wrongly closed, followed by garbage, ill-formed UTF-8. Every sequence up to a length bound is
//! run on a *fresh* thread; every step must produce exactly what the same operation produces as
//! the first call of a fresh thread (differential oracle), and that in turn must satisfy the
//! reference expectation of the property.

use crate::drive::*;
use crate::oracle::{check, expect_bytes, Expect};
use crate::props::Mode;
use explore::serde_json::{json, Value as J};
use explore::{Report, Tally, Tier};

#[derive(Clone, Debug, PartialEq)]
pub struct Op {
    pub doc: usize,
    /// 0 parse_slice_with, 1 parse_str_with, 2 observed iterator (parse_utf8_with), 3 FromStr
    pub entry: u8,
    pub rec: (bool, bool),
}

fn rep(s: &str, n: usize) -> String {
    s.repeat(n)
}

/// (name, bytes, in the core alphabet)
pub fn documents() -> Vec<(String, Vec<u8>, bool)> {
    let mut d: Vec<(String, Vec<u8>, bool)> = Vec::new();
    let mut add = |name: &str, text: String, core: bool| d.push((name.to_string(), text.into_bytes(), core));
    add("number", "2".into(), true);
    add("empty array", "[]".into(), true);
    add("small object", "{\"a\":1}".into(), false);
    add("array cut after a comma", "[1,".into(), true);
    add("object cut after a colon", "{\"a\":".into(), true);
    add("lone closer", "]".into(), false);
    add("empty", "".into(), false);
    add("string", "\"abc\"".into(), false);
    add("string cut", "\"abc".into(), true);
    add("unpaired surrogate escape", "[\"\\uD800\"]".into(), false);
    add("escape cut", "\"ab\\u12".into(), false);
    let long = rep("x", 40);
    add("long string", format!("[\"{long}\"]"), true);
    add("long string cut", format!("[\"{long}"), true);
    add("long string, bad escape", format!("\"{long}\\q\""), false);
    add("long key", format!("{{\"{long}\":1}}"), false);
    add("long key twice then garbage", format!("{{\"{long}\":1,\"{long}\":x"), false);
    add("long number", "123456789012345678901234567890.5e10".into(), false);
    add("long number then garbage", "1234567890123456789012345x".into(), false);
    add("wide array", format!("[{}0]", rep("0,", 100)), false);
    add("wide array cut", format!("[{}", rep("0,", 100)), false);
    add("number then 40 closers", format!("2{}", rep("]", 40)), true);
    add("number then 40 closers (object)", format!("2{}", rep("}", 40)), false);
    for depth in [8usize, 33, 40, 100, 1000] {
        let core = depth == 40;
        add(&format!("arrays {depth} deep"), format!("{}{}", rep("[", depth), rep("]", depth)), core);
        add(&format!("arrays {depth} deep, unclosed"), rep("[", depth), core);
        add(&format!("arrays {depth} deep, cut after an item"), format!("{}1,", rep("[", depth)), core);
        add(&format!("arrays {depth} deep, wrong outer closer"), format!("{}{}}}", rep("[", depth), rep("]", depth - 1)), core);
        add(&format!("arrays {depth} deep then garbage"), format!("{}{} x", rep("[", depth), rep("]", depth)), false);
        add(&format!("objects {depth} deep"), format!("{}0{}", rep("{\"k\":", depth), rep("}", depth)), false);
        add(&format!("objects {depth} deep, unclosed"), rep("{\"k\":", depth), core);
        add(&format!("mixed {depth} deep, cut in a string"), format!("{}\"{long}", rep("[{\"k\":", depth / 2)), false);
    }
    let mut bad = |name: &str, bytes: Vec<u8>, core: bool| d.push((name.to_string(), bytes, core));
    bad("ill-formed UTF-8 in a string", b"\"\xff\"".to_vec(), true);
    bad("truncated UTF-8 sequence", b"[\"ab\xc3\"]".to_vec(), false);
    let mut deep_bad = rep("[", 40).into_bytes();
    deep_bad.push(0xff);
    bad("arrays 40 deep then an ill-formed byte", deep_bad, false);
    d
}

fn run_op(docs: &[(String, Vec<u8>, bool)], op: &Op) -> Out {
    let bytes = &docs[op.doc].1;
    let o = options(op.rec.0, op.rec.1);
    match op.entry {
        0 => slice_entry(bytes, o),
        1 => str_entry(std::str::from_utf8(bytes).expect("utf8 op"), o),
        2 => observed(std::str::from_utf8(bytes).expect("utf8 op"), o).0,
        _ => {
            use json_syntax::Value;
            let text = std::str::from_utf8(bytes).expect("utf8 op");
            match explore::guard(|| text.parse::<Value>()) {
                Ok(Ok(v)) => Out::Ok(v, Vec::new()),
                Ok(Err(e)) => match ek(&e) {
                    Ok(k) => Out::Err(k),
                    Err(s) => Out::Broken(s),
                },
                Err(p) => Out::Broken(format!("panic: {p}")),
            }
        }
    }
}

/// Runs a sequence on a fresh thread and returns the outcome of every step.
fn run_sequence(docs: &[(String, Vec<u8>, bool)], seq: &[Op]) -> Vec<Out> {
    std::thread::scope(|s| {
        std::thread::Builder::new()
            .stack_size(8 << 20)
            .spawn_scoped(s, || seq.iter().map(|op| run_op(docs, op)).collect::<Vec<_>>())
            .expect("spawn")
            .join()
            .unwrap_or_else(|_| vec![Out::Broken("the thread running the sequence died".into())])
    })
}

const ENTRY_NAMES: [&str; 4] = ["parse_slice_with", "parse_str_with", "parse_utf8_with(observed)", "FromStr"];

fn op_json(docs: &[(String, Vec<u8>, bool)], op: &Op) -> J {
    let entry = ENTRY_NAMES[op.entry as usize];
    json!({
        "document": docs[op.doc].0,
        "bytes": explore::show_bytes(&docs[op.doc].1),
        "entry": entry,
        "record": [op.rec.0, op.rec.1],
        "doc_index": op.doc,
        "entry_index": op.entry,
    })
}

fn ops_for(docs: &[(String, Vec<u8>, bool)], core_only: bool, entries: &[u8], lenient: bool) -> Vec<Op> {
    let mut ops = Vec::new();
    for (i, (_, bytes, core)) in docs.iter().enumerate() {
        if core_only && !core {
            continue;
        }
        let utf8 = std::str::from_utf8(bytes).is_ok();
        for &e in entries {
            if e != 0 && !utf8 {
                continue;
            }
            ops.push(Op { doc: i, entry: e, rec: (false, false) });
        }
        if lenient {
            ops.push(Op { doc: i, entry: 0, rec: (true, true) });
        }
    }
    ops
}

fn check_sequence(docs: &[(String, Vec<u8>, bool)], base: &std::collections::HashMap<(usize, u8, bool), Out>, seq: &[Op], t: &mut Tally) {
    let outs = run_sequence(docs, seq);
    t.evals += seq.len() as u64;
    t.states += 1;
    t.transitions += seq.len() as u64;
    for (i, op) in seq.iter().enumerate() {
        let want = &base[&(op.doc, op.entry, op.rec.0)];
        match outs.get(i) {
            Some(got) if got == want => {}
            got => {
                t.violation(
                    "",
                    format!(
                        "history-dependent result: step {} ({} through {}) gives {} after {} earlier call(s) on the thread, but {} as the first call of a fresh thread",
                        i + 1,
                        docs[op.doc].0,
                        ["parse_slice_with", "parse_str_with", "parse_utf8_with", "FromStr"][op.entry as usize],
                        got.map(|o| o.brief()).unwrap_or_else(|| "nothing (the thread died)".into()).chars().take(120).collect::<String>(),
                        i,
                        want.brief().chars().take(120).collect::<String>()
                    ),
                    json!({"kind": "history", "sequence": seq.iter().map(|o| op_json(docs, o)).collect::<Vec<_>>()}),
                );
                return;
            }
        }
    }
    t.outcome("history: every step equals its fresh-thread outcome");
}

fn baselines(docs: &[(String, Vec<u8>, bool)], ops: &[Op], mode: Mode, t: &mut Tally) -> std::collections::HashMap<(usize, u8, bool), Out> {
    let mut base = std::collections::HashMap::new();
    for op in ops {
        let a = run_sequence(docs, std::slice::from_ref(op)).remove(0);
        let b = run_sequence(docs, std::slice::from_ref(op)).remove(0);
        if a != b {
            t.violation("", format!("the same first call on two fresh threads gives different results: {} / {}", a.brief(), b.brief()), json!({"kind": "history", "sequence": [op_json(docs, op)]}));
        }
        // the baseline itself must satisfy the property's reference (verdict, error, position)
        let exp = expect_bytes(&docs[op.doc].1, op.rec);
        t.evals += 1;
        let ok = match mode {
            Mode::C01 | Mode::C03 | Mode::C02 | Mode::C05 => matches!(a, Out::Ok(..)) == (exp == Expect::Accept) && !matches!(a, Out::Broken(_)),
            _ => check(&a, &exp, &docs[op.doc].1).is_ok() || op.entry == 3,
        };
        if !ok {
            t.violation("", format!("{}: first call on a fresh thread gives {}, the reference expects {:?}", docs[op.doc].0, a.brief().chars().take(160).collect::<String>(), exp), json!({"kind": "history", "sequence": [op_json(docs, op)]}));
        }
        t.outcome(match &a {
            Out::Ok(..) => "history alphabet: accepted document",
            _ => "history alphabet: rejected document",
        });
        base.insert((op.doc, op.entry, op.rec.0), a);
    }
    base
}

pub fn run(rep: &mut Report, mode: Mode, tier: Tier) {
    let docs = documents();
    let all_ops = ops_for(&docs, false, &[0, 1, 2, 3], true);
    let mut t = Tally::new();
    let base = baselines(&docs, &all_ops, mode, &mut t);
    rep.absorb(t);
    // length 2: the full alphabet; length 3 (and 4, thorough): the core alphabet
    let full = ops_for(&docs, false, if tier == Tier::Quick { &[0, 1] } else { &[0, 1, 2, 3] }, tier == Tier::Thorough);
    let core = ops_for(&docs, true, &[0, 1], false);
    let mid = ops_for(&docs, false, &[0], false);
    let mut seqs: Vec<Vec<Op>> = Vec::new();
    for a in &full {
        for b in &full {
            seqs.push(vec![a.clone(), b.clone()]);
        }
    }
    let n2 = seqs.len();
    for a in &core {
        for b in &core {
            for c in &core {
                seqs.push(vec![a.clone(), b.clone(), c.clone()]);
            }
        }
    }
    let n3 = seqs.len() - n2;
    let mut n3_wide = 0;
    let mut n4 = 0;
    if tier == Tier::Thorough {
        for a in &mid {
            for b in &mid {
                for c in &mid {
                    seqs.push(vec![a.clone(), b.clone(), c.clone()]);
                    n3_wide += 1;
                }
            }
        }
        let core4 = ops_for(&docs, true, &[0], false);
        for a in &core4 {
            for b in &core4 {
                for c in &core4 {
                    for d in &core4 {
                        seqs.push(vec![a.clone(), b.clone(), c.clone(), d.clone()]);
                        n4 += 1;
                    }
                }
            }
        }
    }
    let chunks: Vec<Vec<Vec<Op>>> = seqs.chunks(64).map(|c| c.to_vec()).collect();
    let t = explore::par_tally(chunks, |chunk, t| {
        for seq in chunk {
            check_sequence(&docs, &base, &seq, t);
            t.nontrivial(&seq.iter().map(|o| (o.doc, o.entry, o.rec.0)).collect::<Vec<_>>());
        }
    });
    rep.bounds["history"] = json!({
        "documents": docs.len(), "core_documents": docs.iter().filter(|d| d.2).count(),
        "operations_full_alphabet": full.len(), "operations_core_alphabet": core.len(),
        "sequences_length_2": n2, "sequences_length_3_core": n3, "sequences_length_3_all_documents_byte_entry": n3_wide, "sequences_length_4_core_byte_entry": n4,
        "oracle": "every step equals the outcome of the same call made first on a fresh thread; that outcome satisfies the reference",
    });
    rep.absorb(t);
}

pub fn replay(case: &J) -> Result<(), String> {
    let docs = documents();
    let mut seq = Vec::new();
    for o in case["sequence"].as_array().ok_or("no sequence")? {
        let doc = o["doc_index"].as_u64().ok_or("doc_index")? as usize;
        if doc >= docs.len() {
            return Err("unknown document".into());
        }
        seq.push(Op {
            doc,
            entry: o["entry_index"].as_u64().unwrap_or(0) as u8,
            rec: (o["record"][0].as_bool().unwrap_or(false), o["record"][1].as_bool().unwrap_or(false)),
        });
    }
    let mut t = Tally::new();
    let base = baselines(&docs, &seq, Mode::C01, &mut t);
    check_sequence(&docs, &base, &seq, &mut t);
    match t.violations.first() {
        None => Ok(()),
        Some(v) => Err(v.what.clone()),
    }
}

/// A character source that lies about (or truthfully reports) an extreme length.
struct Hinted<I> {
    inner: I,
    hint: (usize, Option<usize>),
}

impl<I: Iterator> Iterator for Hinted<I> {
    type Item = I::Item;
    fn next(&mut self) -> Option<I::Item> {
        self.inner.next()
    }
    fn size_hint(&self) -> (usize, Option<usize>) {
        self.hint
    }
}

/// The metadata of the source is part of the parser's environment: `size_hint()` may be huge
/// (an endless or very long stream) or useless; the outcome must be the one of the plain source.
/// Also truly endless sources, which must be rejected at the first offending character.
pub fn source_hints(rep: &mut Report) {
    use json_syntax::{Parse, Value};
    use std::convert::Infallible;
    let docs = documents();
    let hints: [(usize, Option<usize>); 6] = [(usize::MAX, None), (usize::MAX, Some(usize::MAX)), (1 << 62, Some(1 << 62)), (usize::MAX / 24 + 1, None), (isize::MAX as usize, None), (0, Some(0))];
    let mut t = Tally::new();
    for (name, bytes, _) in &docs {
        let text = match std::str::from_utf8(bytes) {
            Ok(s) if s.len() <= 2000 => s,
            _ => continue,
        };
        let want = observed(text, STRICT).0;
        for hint in hints {
            t.evals += 1;
            let got = explore::guard(|| {
                let src = Hinted {
                    inner: text.chars().map(Ok::<char, Infallible>),
                    hint,
                };
                match Value::parse_utf8_with(src, STRICT) {
                    Ok((v, m)) => Out::Ok(v, map_of(&m)),
                    Err(e) => ek(&e).map(Out::Err).unwrap_or_else(Out::Broken),
                }
            })
            .unwrap_or_else(|p| Out::Broken(format!("panic: {p}")));
            if got != want {
                t.violation("", format!("{name}: from a source whose size_hint() is {hint:?} the result is {}, from the plain source {}", got.brief().chars().take(120).collect::<String>(), want.brief().chars().take(120).collect::<String>()), json!({"kind": "source-hint", "document": name, "hint": format!("{hint:?}")}));
            }
        }
        t.nontrivial(&name);
    }
    // sources that are not fused: after their first `None` they answer again - with an error,
    // with the document once more, or with one more character. Nothing is said about *what* the
    // parser returns then (the input of a non-fused iterator is not well defined); it has to
    // return, without panicking, and must not pull without bound
    for (name, bytes, _) in &docs {
        let text = match std::str::from_utf8(bytes) {
            Ok(s) if s.len() <= 2000 => s,
            _ => continue,
        };
        for behaviour in 0..3u8 {
            t.evals += 1;
            let r = explore::guard(|| {
                let mut first = text.chars();
                let mut nones = 0u32;
                let mut again = text.chars();
                let mut pulls = 0usize;
                let src = std::iter::from_fn(|| {
                    pulls += 1;
                    if pulls > 3 * text.len() + 64 {
                        panic!("the parser keeps pulling a source that has answered None {nones} times");
                    }
                    if let Some(c) = first.next() {
                        return Some(Ok(c));
                    }
                    nones += 1;
                    match (nones, behaviour) {
                        (1, _) => None,
                        (_, 0) => Some(Err(7u8)),
                        (_, 1) => again.next().map(Ok),
                        (2, _) => Some(Ok(']')),
                        _ => None,
                    }
                });
                if let Ok((v, _)) = Value::parse_utf8_with(src, STRICT) {
                    crate::pump::release(v);
                }
            });
            if let Err(p) = r {
                t.violation("", format!("{name}: from a source that is not fused (behaviour {behaviour} after its first None) the parser panicked: {p}"), json!({"kind": "source-hint", "document": name, "non_fused": behaviour}));
            }
        }
    }
    // endless sources
    let endless: Vec<(&str, Box<dyn Fn() -> Box<dyn Iterator<Item = char>>>, EK)> = vec![
        ("an endless run of x", Box::new(|| Box::new(std::iter::repeat('x'))), EK::Unexpected(0, Some('x'))),
        ("[1] repeated for ever", Box::new(|| Box::new("[1] ".chars().cycle())), EK::Unexpected(4, Some('['))),
        ("] then endless spaces", Box::new(|| Box::new(std::iter::once(']').chain(std::iter::repeat(' ')))), EK::Unexpected(0, Some(']'))),
        ("\"a\" then endless quotes", Box::new(|| Box::new("\"a\"".chars().chain(std::iter::repeat('"')))), EK::Unexpected(3, Some('"'))),
    ];
    for (name, make, want) in &endless {
        t.evals += 1;
        let got = explore::guard(|| match Value::parse_infallible_utf8(make()) {
            Ok((v, m)) => Out::Ok(v, map_of(&m)),
            Err(e) => ek(&e).map(Out::Err).unwrap_or_else(Out::Broken),
        })
        .unwrap_or_else(|p| Out::Broken(format!("panic: {p}")));
        if got != Out::Err(want.clone()) {
            t.violation("", format!("{name}: expected Err({want:?}), got {}", got.brief()), json!({"kind": "source-hint", "document": name}));
        }
    }
    t.outcome("sources with extreme size hints");
    rep.bounds["source-hints"] = json!({"documents": docs.len(), "hints": hints.len(), "endless_sources": endless.len()});
    rep.absorb(t);
}

/// Re-entrancy: the character source is the caller's code and may itself parse JSON on the same
/// thread while the outer parse is suspended inside `next()` - at every pull position of the
/// outer document. Both parses must give what they give when run alone.
pub fn reentrancy(rep: &mut Report) {
    use json_syntax::{Parse, Value};
    let outers = ["\"abc\"", "{\"key\":\"value\",\"k2\":[1,\"s\\n\"]}", "[\"a-string-longer-than-sixteen-bytes\",12.5e3,null]", "[1,", "{\"a\":", "\"ab", "[[[[\"x\"]]]]", "\"\\uD83D\\uDE00\""];
    let inners = ["\"inner\"", "{\"k\":[1,\"s\"],\"k\":\"t\"}", "[", "12", "[\"another-string-longer-than-sixteen-bytes\"]"];
    let norm = |r: Result<(Value, json_syntax::CodeMap), json_syntax::parse::Error>| match r {
        Ok((v, m)) => Out::Ok(v, map_of(&m)),
        Err(e) => ek(&e).map(Out::Err).unwrap_or_else(Out::Broken),
    };
    let mut t = Tally::new();
    let mut cases = 0usize;
    for outer in outers {
        let outer_want = norm(Value::parse_str(outer));
        let n = outer.chars().count();
        for inner in inners {
            let inner_want = norm(Value::parse_str(inner));
            for at in 0..=n {
                cases += 1;
                t.evals += 2;
                let r = explore::guard(|| {
                    let mut pulled = 0usize;
                    let mut nested: Option<Out> = None;
                    let mut chars = outer.chars();
                    let src = std::iter::from_fn(|| {
                        if pulled == at && nested.is_none() {
                            nested = Some(match explore::guard(|| norm(Value::parse_str(inner))) {
                                Ok(o) => o,
                                Err(p) => Out::Broken(format!("panic: {p}")),
                            });
                        }
                        pulled += 1;
                        chars.next()
                    });
                    let o = norm(Value::parse_infallible_utf8(src));
                    (o, nested)
                });
                let case = json!({"kind": "reentrancy", "outer": outer, "inner": inner, "nested_parse_at_pull": at});
                match r {
                    Ok((o, nested)) => {
                        if o != outer_want {
                            t.violation("", format!("the outer parse of {outer} gives {} when its source parses {inner} at pull {at}; alone it gives {}", o.brief(), outer_want.brief()), case.clone());
                        }
                        match nested {
                            Some(x) if x == inner_want => {}
                            Some(x) => t.violation("", format!("the nested parse of {inner} (started from the source of an outer parse of {outer}, at pull {at}) gives {}; alone it gives {}", x.brief(), inner_want.brief()), case),
                            None => {} // the outer parser stopped before that pull
                        }
                    }
                    Err(p) => t.violation("", format!("outer parse panicked: {p}"), case),
                }
            }
        }
    }
    t.outcome("re-entrant parse from the character source");
    rep.bounds["reentrancy"] = json!({"outer_documents": outers.len(), "inner_documents": inners.len(), "cases": cases, "positions": "every pull of the outer source"});
    rep.absorb(t);
}

/// Free-running concurrency pass over the history alphabet (sampled schedules).
pub fn concurrent(rep: &mut Report) {
    let docs = documents();
    let ops = ops_for(&docs, false, &[0, 1], false);
    let mut t = Tally::new();
    match explore::concurrent_agreement(8, 6, ops.len(), |i| run_op(&docs, &ops[i])) {
        Ok(n) => {
            t.evals += n;
            t.outcome("concurrent calls agree with sequential ones (sampled schedules)");
        }
        Err(e) => t.violation("", format!("results differ when 8 threads call the parser at the same time: {e}"), json!({"kind": "concurrent"})),
    }
    rep.bounds["concurrent"] = json!({"threads": 8, "rounds": 6, "operations": ops.len(), "schedules": "free-running (sampled, not enumerated)"});
    rep.absorb(t);
}

/// A value parsed on one thread and *used* on another (values are `Send`): the decoded content,
/// every key lookup and the traversal must be what they are on the parsing thread (C02). Each
/// accepted document of the history alphabet, through both text entry points; the using thread is
/// fresh, and so is the parsing thread.
pub fn cross_thread(rep: &mut Report) {
    use json_syntax::{Parse, Value};
    let docs = documents();
    let mut t = Tally::new();
    let mut used = 0usize;
    // (hash mode 3 of the hook: every key index gets a seed of its own, as in a build without
    // the hook - under the fixed seed of mode 0 two hashers made on two threads would agree)
    let mode_before = json_syntax::object::verif::HASH_MODE.swap(3, std::sync::atomic::Ordering::SeqCst);
    for (name, bytes, _) in &docs {
        let Ok(text) = std::str::from_utf8(bytes) else { continue };
        let Ok(doc) = refmodel::dec::decode(text) else { continue };
        if !doc.faults.is_empty() {
            continue;
        }
        used += 1;
        for entry in 0..2u8 {
            t.evals += 1;
            let text2 = text.to_string();
            let parsed = std::thread::spawn(move || if entry == 0 { Value::parse_str(&text2).ok().map(|x| x.0) } else { Value::parse_slice(text2.as_bytes()).ok().map(|x| x.0) }).join();
            let case = json!({"kind": "cross-thread", "document": name, "entry": entry});
            let Ok(Some(v)) = parsed else {
                t.violation("", format!("{name}: a valid document is rejected on a fresh thread"), case);
                continue;
            };
            let want = doc.value.clone();
            let r = std::thread::spawn(move || {
                let r = explore::guard(|| crate::props::check_value(&v, &refmodel::dec::Doc { value: want.clone(), map: Vec::new(), faults: Vec::new() }));
                crate::pump::release(v);
                r
            })
            .join();
            match r {
                Ok(Ok(Ok(()))) => t.outcome("value parsed on one thread, used on another"),
                Ok(Ok(Err(e))) => t.violation("", format!("{name}: parsed on one thread and used on another: {e}"), case),
                Ok(Err(p)) => t.violation("", format!("{name}: using the value on another thread panicked: {p}"), case),
                Err(_) => t.violation("", format!("{name}: the using thread died"), case),
            }
        }
    }
    json_syntax::object::verif::HASH_MODE.store(mode_before, std::sync::atomic::Ordering::SeqCst);
    rep.bounds["cross_thread"] = json!({"documents": used, "entry_points": 2, "hash_mode": "a seed per key index"});
    rep.absorb(t);
}

/// Thread life cycle: parsing from the destructor of a thread-local while the thread exits.
pub fn at_thread_exit(rep: &mut Report) {
    use json_syntax::{Parse, Value};
    let docs = ["{\"key\":[\"a-string-longer-than-sixteen-bytes\",1.5e3,null]}", "[1,", "\"\\uD800\""];
    let mut t = Tally::new();
    for doc in docs {
        for hook_first in [true, false] {
            for warm in [true, false] {
                t.evals += 1;
                let want = str_entry(doc, STRICT);
                let got = explore::run_at_thread_exit(
                    hook_first,
                    move || {
                        if warm {
                            let _ = Value::parse_str("{\"w\":[\"warm\"]}");
                            let _ = Value::parse_slice(b"[\"x");
                        }
                    },
                    move || (str_entry(doc, STRICT), slice_entry(doc.as_bytes(), STRICT)),
                );
                match got {
                    Ok((a, b)) if a == want && b == want => {}
                    other => t.violation("", format!("parsing {doc} from a thread-local destructor at thread exit gives {:?}", other.map(|(a, b)| (a.brief(), b.brief()))), json!({"kind": "thread-exit", "document": doc, "hook_first": hook_first, "warm": warm})),
                }
            }
        }
    }
    t.outcome("parsing at thread exit");
    rep.bounds["thread-exit"] = json!({"documents": docs.len(), "hook_order": 2, "thread_had_parsed": 2});
    rep.absorb(t);
}
