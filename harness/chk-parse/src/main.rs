//! chk-parse: C01 C02 C03 C05 C07 C11 C12 — stateless exploration of the parser's execution
//! tree (E-TREE) plus the complete finite families.

mod history;
mod drive;
mod nav;
mod oracle;
mod props;
mod pump;
mod tree;

#[global_allocator]
static ALLOC: explore::ThreadCache = explore::ThreadCache;

use explore::serde_json::{json, Value as J};
use explore::{Args, Report, Tally, Tier};
use props::*;

fn trees_for(rep: &mut Report, mode: Mode, tier: Tier, which: &[&str], scale: f64, prune: (bool, bool), all_entries: bool) {
    let vis = TextVisitor { mode, all_entries, short_all: tier.pick(9, 11) };
    for plan in plans(tier, which, scale, mode) {
        run_tree(rep, &plan, prune, &vis);
    }
}

fn replay(args: &Args, path: &std::path::Path) -> i32 {
    let j: J = explore::serde_json::from_str(&std::fs::read_to_string(path).expect("read replay")).expect("parse replay");
    let case = &j["case"];
    let rec = (case["record"][0].as_bool().unwrap_or(false), case["record"][1].as_bool().unwrap_or(false));
    let bytes: Vec<u8> = match case["kind"].as_str() {
        Some("text") => case["text"].as_str().unwrap_or("").as_bytes().to_vec(),
        Some("bytes") => case["bytes"].as_array().map(|a| a.iter().map(|x| x.as_u64().unwrap_or(0) as u8).collect()).unwrap_or_default(),
        Some("pump") => return pump::replay(case),
        Some("history") => {
            return match history::replay(case) {
                Ok(()) => {
                    println!("replay: the case passes on the current tree");
                    0
                }
                Err(e) => {
                    println!("replay: {e}");
                    println!("VIOLATION property={} replay={}", args.property, path.display());
                    1
                }
            };
        }
        other => {
            println!("replay of case kind {other:?} is not supported by chk-parse");
            return 2;
        }
    };
    let mode = match args.property.as_str() {
        "C01" => Mode::C01,
        "C02" => Mode::C02,
        "C03" => Mode::C03,
        "C05" => Mode::C05,
        "C07" => Mode::C07,
        "C12" => Mode::C12,
        "C11" => {
            let mut t = Tally::new();
            if let Ok(text) = std::str::from_utf8(&bytes) {
                nav::check_document(text, &mut t);
            }
            return finish_replay(args, path, t);
        }
        _ => return 2,
    };
    let mut t = Tally::new();
    // re-run the whole oracle of the property on this one input, all entry points
    if let Ok(text) = std::str::from_utf8(&bytes) {
        let mut m = refmodel::pda::Machine::new();
        let v = m.feed(text);
        let prune = if mode == Mode::C12 { (true, true) } else { (false, false) };
        // rebuild the node the way the walker would have seen it
        let dead = if v < text.len() { Some((v, text[v..].chars().next().unwrap())) } else { None };
        let vis = TextVisitor { mode, all_entries: true, short_all: 0 };
        let fault_dead = m.first_untolerated(prune.0, prune.1).is_some();
        vis.visit(
            &tree::Node {
                text,
                mach: &m,
                dead,
                fault_dead,
                post: false,
                devs: 0,
                depth: 0,
            },
            &mut t,
        );
    }
    ByteVisitor { mode }.visit(&bytes, &mut t);
    let _ = rec;
    finish_replay(args, path, t)
}

fn finish_replay(args: &Args, path: &std::path::Path, t: Tally) -> i32 {
    let real: Vec<_> = t.violations.iter().filter(|v| !v.class.starts_with("MACHINERY")).collect();
    if real.is_empty() {
        println!("replay: the case passes on the current tree");
        0
    } else {
        for v in &real {
            println!("replay: {}", v.what);
        }
        println!("VIOLATION property={} replay={}", args.property, path.display());
        1
    }
}

fn main() {
    if std::env::args().nth(2).as_deref() == Some("--pump-child") {
        std::process::exit(pump::child_main());
    }
    let args = Args::parse();
    explore::quiet_panics();
    explore::init_threads();
    if let Some(path) = &args.replay {
        std::process::exit(replay(&args, path));
    }
    explore::start_watchdog(&args.property, 10);
    let tier = args.tier;
    let q = tier == Tier::Quick;
    let strict = (false, false);
    let code = match args.property.as_str() {
        "C01" => {
            let mut rep = Report::new(&args, "model_checking", "E-TREE: stateless DFS of the parser's execution tree over 8 alphabets + complete byte families");
            trees_for(&mut rep, Mode::C01, tier, &["T-struct", "T-mixed", "T-num", "T-lit", "T-str", "T-tok", "T-sur"], 1.0, strict, true);
            t_byte(&mut rep, Mode::C01, if q { 5 } else { 6 });
            u_all(&mut rep, Mode::C01, tier, !q);
            t_corpus(&mut rep, Mode::C01, tier);
            x_all(&mut rep, Mode::C01, tier);
            pump_family(&mut rep, Mode::C01, tier);
            history::run(&mut rep, Mode::C01, tier);
            history::concurrent(&mut rep);
            history::reentrancy(&mut rep);
            history::at_thread_exit(&mut rep);
            deep_family(&mut rep, Mode::C01, tier);
            option_presets(&mut rep);
            rep.rule = "a state is an input prefix (node of the execution tree); every node is executed on the real parser through every entry point (13 text entry points on core nodes; parse_str/parse_slice/observed iterator on deviation nodes; parse_slice/parse_slice_with on byte nodes) and the verdict compared with R-pda (+ surrogate well-formedness, + core::str::from_utf8 for bytes); children only below viable prefixes, post-mortem horizon 2 below dead nodes; non-trivial = distinct inputs".into();
            rep.assumptions.push("strict acceptance = RFC 8259 grammar AND every \\u escape sequence denotes scalar values (no unpaired surrogate), the reading under which C01, C07 and C12 are mutually consistent".into());
            rep.assumptions.push("reference models R-pda / R-dec / core::str::from_utf8; cross-checked against each other and against serde_json on every explored node (a disagreement is a machinery error)".into());
            rep.finish()
        }
        "C07" => {
            let mut rep = Report::new(&args, "model_checking", "E-TREE: every rejected node of the execution trees vs. the viable-prefix recogniser");
            trees_for(&mut rep, Mode::C07, tier, &["T-struct", "T-mixed", "T-num", "T-lit", "T-str", "T-tok", "T-sur"], 1.0, strict, true);
            t_byte(&mut rep, Mode::C07, if q { 5 } else { 6 });
            u_all(&mut rep, Mode::C07, tier, !q);
            t_corpus(&mut rep, Mode::C07, tier);
            x_all(&mut rep, Mode::C07, tier);
            pump_family(&mut rep, Mode::C07, tier);
            history::run(&mut rep, Mode::C07, tier);
            history::reentrancy(&mut rep);
            deep_family(&mut rep, Mode::C07, tier);
            rep.rule = "every rejected node (including post-mortem nodes) of the trees: Unexpected(p,c) must carry the longest viable prefix length and the character there; InvalidUtf8 the offset of the first ill-formed sequence unless a syntax error lies strictly before it; surrogate errors the offending code units and a span inside the escape sequence(s) up to the detection point; all offsets character boundaries within the input; non-trivial = distinct rejected inputs".into();
            rep.assumptions.push("span of a surrogate error may extend to the point where the fault becomes detectable (DESIGN A.7.1)".into());
            rep.finish()
        }
        "C02" => {
            let mut rep = Report::new(&args, "model_checking", "E-TREE leaves + complete escape/scalar families vs. R-dec");
            trees_for(&mut rep, Mode::C02, tier, &["T-struct", "T-mixed", "T-num", "T-str", "T-tok"], 0.8, strict, false);
            x_all(&mut rep, Mode::C02, tier);
            spill_family(&mut rep, Mode::C02);
            huge_strings(&mut rep, Mode::C02);
            duplicate_key_family(&mut rep, Mode::C02, tier);
            pump_family(&mut rep, Mode::C02, tier);
            history::run(&mut rep, Mode::C02, tier);
            history::cross_thread(&mut rep);
            history::concurrent(&mut rep);
            history::reentrancy(&mut rep);
            t_corpus(&mut rep, Mode::C02, Tier::Quick);
            rep.rule = "every accepted node of the trees and every member of the complete families (65 536 \\uXXXX in both hex cases, 1 048 576 surrogate pairs, 1 112 064 raw scalars, 128 backslash+ASCII) is parsed through parse_str, parse_slice and the observed iterator; the value, observed through the public accessors, must equal R-dec's abstract value; every key lookup on every object must equal a linear scan; non-trivial = distinct accepted inputs".into();
            rep.finish()
        }
        "C05" => {
            let mut rep = Report::new(&args, "model_checking", "E-TREE leaves vs. R-dec's expected code map");
            trees_for(&mut rep, Mode::C05, tier, &["T-struct", "T-mixed", "T-str", "T-tok"], 1.2, strict, false);
            // documents that only a lenient record accepts have a code map as well
            trees_for(&mut rep, Mode::C05, tier, &["T-sur"], 0.5, (true, true), false);
            spill_family(&mut rep, Mode::C05);
            huge_strings(&mut rep, Mode::C05);
            duplicate_key_family(&mut rep, Mode::C05, tier);
            pump_family(&mut rep, Mode::C05, tier);
            history::run(&mut rep, Mode::C05, tier);
            history::concurrent(&mut rep);
            history::reentrancy(&mut rep);
            whitespace_family(&mut rep, Mode::C05);
            t_corpus(&mut rep, Mode::C05, Tier::Quick);
            rep.rule = "every accepted node: the returned code map must equal R-dec's pre-order list of (start, end, volume) exactly, through parse_str, parse_slice and the observed iterator; root volume = length, volumes >= 1, one entry per traversal fragment; non-trivial = distinct accepted inputs".into();
            rep.finish()
        }
        "C12" => {
            let mut rep = Report::new(&args, "model_checking", "E-TREE under all four option records (surrogate macro-symbol tree + C01 trees)");
            trees_for(&mut rep, Mode::C12, tier, &["T-sur"], 3.0, (true, true), true);
            trees_for(&mut rep, Mode::C12, tier, &["T-struct", "T-num", "T-lit", "T-str", "T-tok", "T-mixed"], 0.5, (true, true), false);
            x_all(&mut rep, Mode::C12, tier);
            pump_family(&mut rep, Mode::C12, tier);
            history::run(&mut rep, Mode::C12, tier);
            history::reentrancy(&mut rep);
            option_presets(&mut rep);
            if !q {
                u_all(&mut rep, Mode::C12, Tier::Quick, false);
            }
            rep.rule = "every node is parsed under the four option records; acceptance must equal (grammar-valid AND every surrogate fault tolerated by the record), each fault decodes to one U+FFFD, pairs combine, strict-valid documents give identical value and code map under every record; rejected nodes must carry the error of the first untolerated fault or the syntax error; non-trivial = distinct inputs containing at least one surrogate fault".into();
            rep.finish()
        }
        "C03" => {
            let mut rep = Report::new(&args, "model_checking", "E-TREE totality under four option records + full byte alphabet + container-transition pump in fixed-stack child threads");
            trees_for(&mut rep, Mode::C03, tier, &["T-struct", "T-mixed", "T-str", "T-sur", "T-tok", "T-num", "T-lit"], 0.5, (true, true), false);
            t_byte(&mut rep, Mode::C03, if q { 4 } else { 6 });
            u_all(&mut rep, Mode::C03, tier, true);
            t_corpus(&mut rep, Mode::C03, tier);
            pump_family(&mut rep, Mode::C03, tier);
            history::run(&mut rep, Mode::C03, tier);
            history::reentrancy(&mut rep);
            history::at_thread_exit(&mut rep);
            history::source_hints(&mut rep);
            pump::run(&mut rep, tier);
            rep.rule = "totality: every node of the trees, every byte string of length <= 3 over all 256 values, every <=4-byte sequence family inside strings and every truncation / byte substitution of the corpus is parsed under all four option records inside catch_unwind with a watchdog and an iterator that aborts after 1000 polls past the end; stack: every nesting word of length <= 3 over the 4 container-entry forms, pumped to depth N, closed / unclosed / wrongly closed, parsed and traversed in a thread with a small fixed stack".into();
            rep.assumptions.push("dropping a deeply nested Value is recursive (observed; outside C03, which speaks of parsing and traversal): the pump leaks the value".into());
            rep.finish()
        }
        "C11" => {
            let mut rep = Report::new(&args, "model_checking", "E-TREE leaves of the token tree: code-map navigation vs. a traversal table");
            nav::run(&mut rep, tier);
            rep.finish()
        }
        other => {
            eprintln!("chk-parse does not serve {other}");
            2
        }
    };
    let _ = json!(null);
    std::process::exit(code);
}
