//! C11 — code-map navigation: mapped iterators, mapped key lookups, fragment index,
//! volume/count, and kind-mismatch offsets of the code-map-carrying conversions.

use crate::tree::*;
use explore::serde_json::json;
use explore::{Budget, Report, Tally, Tier};
use json_syntax::array::JsonArray;
use json_syntax::code_map::Mapped;
use json_syntax::object::Duplicate;
use json_syntax::{CodeMap, FragmentRef, Parse, TryFromJson, Unexpected, Value};
use std::collections::BTreeMap;
use std::convert::Infallible;

#[derive(Clone, Copy, PartialEq, Eq, Debug)]
enum FK {
    Value,
    Entry,
    Key,
}

fn addr(f: &FragmentRef) -> (FK, usize) {
    match f {
        FragmentRef::Value(v) => (FK::Value, *v as *const Value as usize),
        FragmentRef::Entry(e) => (FK::Entry, *e as *const json_syntax::object::Entry as usize),
        FragmentRef::Key(k) => (FK::Key, *k as *const json_syntax::object::Key as usize),
    }
}

fn case(text: &str) -> explore::serde_json::Value {
    json!({"kind": "text", "text": text, "record": [false, false], "entry": "parse_str"})
}

/// The whole C11 oracle on one document.
pub fn check_document(text: &str, t: &mut Tally) {
    let (value, map) = match Value::parse_str(text) {
        Ok(x) => x,
        Err(_) => return,
    };
    t.evals += 1;
    if let Err(e) = explore::guard(|| check_parsed(text, &value, &map)).unwrap_or_else(|p| Err(format!("panic: {p}"))) {
        t.violation("", e, case(text));
    }
    // a caller that announces other character lengths (a UTF-16 document: 2 or 4 bytes per
    // character) must get the same value and, position for position, the same code map in its
    // own metric - the offsets handed out by the navigation API index that map
    if text.len() <= 64 {
        t.evals += 1;
        match crate::drive::utf16_entry(text, crate::drive::STRICT) {
            crate::drive::Out::Ok(v16, m16) => {
                if v16 != value || m16 != crate::drive::map_of(&map) {
                    t.violation("", "parsed from characters announced with their UTF-16 lengths, the code map (translated back) differs from the UTF-8 one".to_string(), case(text));
                }
            }
            other => t.violation("", format!("parsed from characters announced with their UTF-16 lengths: {}", other.brief()), case(text)),
        }
    }
    // the byte-slice entry point must navigate identically
    if let Ok((v2, m2)) = Value::parse_slice(text.as_bytes()) {
        t.evals += 1;
        if let Err(e) = explore::guard(|| check_parsed(text, &v2, &m2)).unwrap_or_else(|p| Err(format!("panic: {p}"))) {
            t.violation("", format!("(parse_slice) {e}"), case(text));
        }
    }
}

fn span_text<'a>(text: &'a str, map: &CodeMap, i: usize) -> Result<&'a str, String> {
    let e = map.get(i).ok_or_else(|| format!("offset {i} is outside the code map (len {})", map.len()))?;
    text.get(e.span.start()..e.span.end()).ok_or_else(|| format!("span {:?} of entry {i} is not a slice of the source", (e.span.start(), e.span.end())))
}

fn value_at(text: &str, map: &CodeMap, i: usize, v: &Value, what: &str) -> Result<(), String> {
    let s = span_text(text, map, i)?;
    match Value::parse_str(s) {
        Ok((p, _)) if p == *v => Ok(()),
        _ => Err(format!("{what}: offset {i} has span text {s:?}, which is not the source text of the element {v}")),
    }
}

fn key_at(text: &str, map: &CodeMap, i: usize, k: &str, what: &str) -> Result<(), String> {
    let s = span_text(text, map, i)?;
    match Value::parse_str(s) {
        Ok((Value::String(p), _)) if p.as_str() == k => Ok(()),
        _ => Err(format!("{what}: key offset {i} has span text {s:?}, which is not the source text of key {k:?}")),
    }
}

fn entry_at(text: &str, map: &CodeMap, i: usize, k: &str, v: &Value, what: &str) -> Result<(), String> {
    let s = span_text(text, map, i)?;
    match Value::parse_str(&format!("{{{s}}}")) {
        Ok((Value::Object(o), _)) if o.len() == 1 && o.entries()[0].key.as_str() == k && o.entries()[0].value == *v => Ok(()),
        _ => Err(format!("{what}: entry offset {i} has span text {s:?}, which is not the source text of the entry {k:?}: {v}")),
    }
}

fn check_parsed(text: &str, value: &Value, map: &CodeMap) -> Result<(), String> {
    let table: Vec<FragmentRef> = value.traverse().map(|(_, f)| f).collect();
    for (j, (i, _)) in value.traverse().enumerate() {
        if i != j {
            return Err(format!("traverse() yields index {i} at position {j}"));
        }
    }
    let n = table.len();
    let find = |k: FK, p: usize| -> Result<usize, String> {
        table.iter().position(|f| addr(f) == (k, p)).ok_or_else(|| "element not found in the traversal".to_string())
    };
    // fragment index
    for (i, f) in table.iter().enumerate() {
        match value.get_fragment(i) {
            Ok(g) if addr(&g) == addr(f) => {}
            Ok(_) => return Err(format!("get_fragment({i}) is not the {i}-th fragment of the traversal")),
            Err(r) => return Err(format!("get_fragment({i}) = Err({r}) although the value has {n} fragments")),
        }
    }
    for k in 0..3 {
        match value.get_fragment(n + k) {
            Err(r) if r == k => {}
            Err(r) => return Err(format!("get_fragment({}) = Err({r}), expected Err({k}) (value has {n} fragments)", n + k)),
            Ok(_) => return Err(format!("get_fragment({}) returned a fragment, the value has only {n}", n + k)),
        }
    }
    // volume / count
    let nvalues = table.iter().filter(|f| f.is_value()).count();
    if value.volume() != nvalues {
        return Err(format!("volume() = {}, traversal has {nvalues} value fragments", value.volume()));
    }
    let c_all = value.count(|_, _| true);
    let c_keys = value.count(|_, f| f.is_key());
    let c_idx = value.count(|i, _| i % 2 == 0);
    if c_all != n || c_keys != table.iter().filter(|f| f.is_key()).count() || c_idx != (n + 1) / 2 {
        return Err(format!("count() disagrees with the traversal: all={c_all} keys={c_keys} even-indexed={c_idx}, n={n}"));
    }
    if map.len() != n {
        return Err(format!("code map has {} entries, traversal {n} fragments", map.len()));
    }
    // traverse() through the protocol (on small documents)
    if n <= 9 {
        let want: Vec<(usize, (FK, usize))> = value.traverse().map(|(i, f)| (i, addr(&f))).collect();
        bridge::iterator_protocol("traverse()", || value.traverse().map(|(i, f)| (i, addr(&f))), &want)?;
    }
    // sub_fragments(): the direct children of fragment i are the fragments i+1, then each
    // following sibling one volume further, up to the end of i's own volume - forwards,
    // backwards, and alternating from both ends
    let entries = map.as_slice();
    for (i, f) in table.iter().enumerate() {
        let mut children = Vec::new();
        let end = i + entries[i].volume;
        let mut c = i + 1;
        while c < end {
            children.push(c);
            c += entries[c].volume.max(1);
        }
        let want: Vec<(FK, usize)> = children.iter().map(|&c| addr(&table[c])).collect();
        let fwd: Vec<(FK, usize)> = f.sub_fragments().map(|g| addr(&g)).collect();
        if fwd != want {
            return Err(format!("sub_fragments() of fragment {i} yields {} fragments forwards, its children in the traversal are {:?}", fwd.len(), children));
        }
        let mut bwd: Vec<(FK, usize)> = f.sub_fragments().rev().map(|g| addr(&g)).collect();
        bwd.reverse();
        if bwd != want {
            return Err(format!("sub_fragments().rev() of fragment {i} disagrees with its children in the traversal"));
        }
        let mut it = f.sub_fragments();
        let (mut front, mut back) = (Vec::new(), Vec::new());
        loop {
            match it.next() {
                Some(g) => front.push(addr(&g)),
                None => break,
            }
            match it.next_back() {
                Some(g) => back.push(addr(&g)),
                None => break,
            }
        }
        back.reverse();
        front.extend(back);
        if front != want {
            return Err(format!("sub_fragments() of fragment {i} consumed alternately from both ends disagrees with its children"));
        }
    }

    for (i, f) in table.iter().enumerate() {
        match f {
            FragmentRef::Value(Value::Array(a)) => {
                let mut count = 0;
                for (j, m) in a.iter_mapped(map, i).enumerate() {
                    let want = find(FK::Value, &a[j] as *const Value as usize)?;
                    if m.offset != want || !std::ptr::eq(m.value, &a[j]) {
                        return Err(format!("array at {i}: iter_mapped item {j} has offset {}, its fragment index is {want}", m.offset));
                    }
                    value_at(text, map, m.offset, m.value, "array iter_mapped")?;
                    count += 1;
                }
                if count != a.len() {
                    return Err(format!("array at {i}: iter_mapped yields {count} of {} items", a.len()));
                }
                // the mapped iterator through the whole Iterator protocol (offsets are summed
                // incrementally: skipping must sum the same volumes as stepping)
                if a.len() > 6 {
                    // a long array: spot positions instead of the full protocol
                    let want: Vec<usize> = a.iter_mapped(map, i).map(|m| m.offset).collect();
                    let len = a.len();
                    for k in [1, len / 2, len - 1, len] {
                        if a.iter_mapped(map, i).nth(k).map(|m| m.offset) != want.get(k).copied() {
                            return Err(format!("array at {i}: iter_mapped().nth({k}) disagrees with stepping"));
                        }
                    }
                    let st = len / 3 + 1;
                    if a.iter_mapped(map, i).step_by(st).map(|m| m.offset).collect::<Vec<_>>() != want.iter().step_by(st).copied().collect::<Vec<_>>() {
                        return Err(format!("array at {i}: iter_mapped().step_by({st}) disagrees with stepping"));
                    }
                }
                if a.len() <= 6 && n <= 9 {
                    let want: Vec<usize> = a.iter_mapped(map, i).map(|m| m.offset).collect();
                    bridge::iterator_protocol(&format!("array at {i}: iter_mapped offsets"), || a.iter_mapped(map, i).map(|m| m.offset), &want)?;
                    bridge::iterator_protocol(&format!("array at {i}: iter_mapped"), || a.iter_mapped(map, i), &a.iter_mapped(map, i).collect::<Vec<_>>())?;
                }
                // the slice impl
                let sl: &[Value] = a.as_slice();
                let offs: Vec<usize> = sl.iter_mapped(map, i).map(|m| m.offset).collect();
                let offs2: Vec<usize> = a.iter_mapped(map, i).map(|m| m.offset).collect();
                if offs != offs2 {
                    return Err(format!("array at {i}: [Value]::iter_mapped and Vec::iter_mapped differ"));
                }
            }
            FragmentRef::Value(Value::Object(o)) => {
                let ents = o.entries();
                let mut count = 0;
                let mut entry_offsets = Vec::new();
                for (j, m) in o.iter_mapped(map, i).enumerate() {
                    let e = &ents[j];
                    let we = find(FK::Entry, e as *const _ as usize)?;
                    let wk = find(FK::Key, &e.key as *const _ as usize)?;
                    let wv = find(FK::Value, &e.value as *const _ as usize)?;
                    if m.offset != we || m.value.key.offset != wk || m.value.value.offset != wv {
                        return Err(format!(
                            "object at {i}: iter_mapped entry {j} has offsets ({},{},{}), fragment indices are ({we},{wk},{wv})",
                            m.offset, m.value.key.offset, m.value.value.offset
                        ));
                    }
                    if !std::ptr::eq(m.value.key.value, &e.key) || !std::ptr::eq(m.value.value.value, &e.value) {
                        return Err(format!("object at {i}: iter_mapped entry {j} refers to the wrong entry"));
                    }
                    entry_at(text, map, we, e.key.as_str(), &e.value, "object iter_mapped")?;
                    key_at(text, map, wk, e.key.as_str(), "object iter_mapped")?;
                    value_at(text, map, wv, &e.value, "object iter_mapped")?;
                    entry_offsets.push((we, wk, wv));
                    count += 1;
                }
                if count != ents.len() {
                    return Err(format!("object at {i}: iter_mapped yields {count} of {} entries", ents.len()));
                }
                let mut keys: Vec<&str> = ents.iter().map(|e| e.key.as_str()).collect();
                keys.push("\u{2}absent");
                keys.dedup();
                for k in keys {
                    let pos: Vec<usize> = ents.iter().enumerate().filter(|(_, e)| e.key.as_str() == k).map(|(j, _)| j).collect();
                    let want_e: Vec<(usize, (usize, usize, usize))> = pos.iter().map(|&j| (j, entry_offsets[j])).collect();
                    let fail = |what: &str, got: String| Err(format!("object at {i}: {what}({k:?}) = {got}, linear scan gives {want_e:?}"));
                    let got: Vec<(usize, usize, usize)> = o.get_mapped_entries(map, i, k).map(|m| (m.offset, m.value.key.offset, m.value.value.offset)).collect();
                    if got != want_e.iter().map(|x| x.1).collect::<Vec<_>>() {
                        return fail("get_mapped_entries", format!("{got:?}"));
                    }
                    let got: Vec<(usize, (usize, usize, usize))> =
                        o.get_mapped_entries_with_index(map, i, k).map(|(j, m)| (j, (m.offset, m.value.key.offset, m.value.value.offset))).collect();
                    if got != want_e {
                        return fail("get_mapped_entries_with_index", format!("{got:?}"));
                    }
                    if pos.len() <= 5 && n <= 9 {
                        bridge::iterator_protocol(&format!("object at {i}: get_mapped({k:?})"), || o.get_mapped(map, i, k), &o.get_mapped(map, i, k).collect::<Vec<_>>())?;
                        bridge::iterator_protocol(&format!("object at {i}: get_mapped_entries({k:?})"), || o.get_mapped_entries(map, i, k).map(|m| m.offset), &o.get_mapped_entries(map, i, k).map(|m| m.offset).collect::<Vec<_>>())?;
                        bridge::iterator_protocol(&format!("object at {i}: get_mapped_with_index({k:?})"), || o.get_mapped_with_index(map, i, k).map(|(j, m)| (j, m.offset)), &o.get_mapped_with_index(map, i, k).map(|(j, m)| (j, m.offset)).collect::<Vec<_>>())?;
                    }
                    let got: Vec<usize> = o.get_mapped(map, i, k).map(|m| m.offset).collect();
                    if got != want_e.iter().map(|x| x.1 .2).collect::<Vec<_>>() {
                        return fail("get_mapped", format!("{got:?}"));
                    }
                    for (m, &j) in o.get_mapped(map, i, k).zip(&pos) {
                        if !std::ptr::eq(m.value, &ents[j].value) {
                            return fail("get_mapped", "a value of another entry".to_string());
                        }
                    }
                    let got: Vec<(usize, usize)> = o.get_mapped_with_index(map, i, k).map(|(j, m)| (j, m.offset)).collect();
                    if got != want_e.iter().map(|x| (x.0, x.1 .2)).collect::<Vec<_>>() {
                        return fail("get_mapped_with_index", format!("{got:?}"));
                    }
                    // the four unique lookups
                    let want_u: Result<Option<(usize, (usize, usize, usize))>, ((usize, (usize, usize, usize)), (usize, (usize, usize, usize)))> = match want_e.len() {
                        0 => Ok(None),
                        1 => Ok(Some(want_e[0])),
                        _ => Err((want_e[0], want_e[1])),
                    };
                    let tri = |m: &json_syntax::object::MappedEntry| (m.offset, m.value.key.offset, m.value.value.offset);
                    let got = match o.get_unique_mapped_entry(map, i, k) {
                        Ok(x) => Ok(x.map(|m| tri(&m))),
                        Err(Duplicate(a, b)) => Err((tri(&a), tri(&b))),
                    };
                    if got != want_u.map(|x| x.map(|y| y.1)).map_err(|(a, b)| (a.1, b.1)) {
                        return fail("get_unique_mapped_entry", format!("{got:?}"));
                    }
                    let got = match o.get_unique_mapped_entry_with_index(map, i, k) {
                        Ok(x) => Ok(x.map(|(j, m)| (j, tri(&m)))),
                        Err(Duplicate((ja, a), (jb, b))) => Err(((ja, tri(&a)), (jb, tri(&b)))),
                    };
                    if got != want_u {
                        return fail("get_unique_mapped_entry_with_index", format!("{got:?}"));
                    }
                    let got = match o.get_unique_mapped(map, i, k) {
                        Ok(x) => Ok(x.map(|m| m.offset)),
                        Err(Duplicate(a, b)) => Err((a.offset, b.offset)),
                    };
                    if got != want_u.map(|x| x.map(|y| y.1 .2)).map_err(|(a, b)| (a.1 .2, b.1 .2)) {
                        return fail("get_unique_mapped", format!("{got:?}"));
                    }
                    let got = match o.get_unique_mapped_with_index(map, i, k) {
                        Ok(x) => Ok(x.map(|(j, m)| (j, m.offset))),
                        Err(Duplicate((ja, a), (jb, b))) => Err(((ja, a.offset), (jb, b.offset))),
                    };
                    if got != want_u.map(|x| x.map(|y| (y.0, y.1 .2))).map_err(|(a, b)| ((a.0, a.1 .2), (b.0, b.1 .2))) {
                        return fail("get_unique_mapped_with_index", format!("{got:?}"));
                    }
                }
            }
            _ => {}
        }
    }
    Ok(())
}

// ---------------------------------------------------------------------------------------------
// conversions that carry code-map information

#[derive(Debug, PartialEq, Eq, PartialOrd, Ord, Clone)]
struct Leaf(String);

#[derive(Debug)]
struct LeafErr {
    offset: usize,
}

impl From<Mapped<Unexpected>> for LeafErr {
    fn from(m: Mapped<Unexpected>) -> Self {
        LeafErr { offset: m.offset }
    }
}

impl From<Mapped<Infallible>> for LeafErr {
    fn from(m: Mapped<Infallible>) -> Self {
        LeafErr { offset: m.offset }
    }
}

impl TryFromJson for Leaf {
    type Error = LeafErr;
    fn try_from_json_at(json: &Value, _code_map: &CodeMap, offset: usize) -> Result<Self, LeafErr> {
        match json {
            Value::String(s) => Ok(Leaf(s.to_string())),
            _ => Err(LeafErr { offset }),
        }
    }
}

/// A leaf whose error type also accepts a key-parsing error (for `BTreeMap<u8, _>`).
#[derive(Debug, PartialEq, Eq, PartialOrd, Ord, Clone)]
struct KeyedLeaf(String);

impl From<Mapped<std::num::ParseIntError>> for LeafErr {
    fn from(m: Mapped<std::num::ParseIntError>) -> Self {
        LeafErr { offset: m.offset }
    }
}

impl TryFromJson for KeyedLeaf {
    type Error = LeafErr;
    fn try_from_json_at(json: &Value, _code_map: &CodeMap, offset: usize) -> Result<Self, LeafErr> {
        match json {
            Value::String(s) => Ok(KeyedLeaf(s.to_string())),
            _ => Err(LeafErr { offset }),
        }
    }
}

/// An object-level conversion: every member must be a string.
#[derive(Debug)]
struct ObjLeaf;

impl json_syntax::TryFromJsonObject for ObjLeaf {
    type Error = LeafErr;
    fn try_from_json_object_at(object: &json_syntax::Object, code_map: &CodeMap, offset: usize) -> Result<Self, LeafErr> {
        for e in object.iter_mapped(code_map, offset) {
            Leaf::try_from_json_at(e.value.value.value, code_map, e.value.value.offset)?;
        }
        Ok(ObjLeaf)
    }
}

/// Shapes of nested arrays: a shape is a list of inner lengths.
fn shapes(max_outer: usize, max_inner: usize) -> Vec<Vec<usize>> {
    let mut out = vec![vec![]];
    for _ in 0..max_outer {
        let mut next = Vec::new();
        for s in &out {
            if s.len() < max_outer {
                for l in 0..=max_inner {
                    let mut s2: Vec<usize> = s.clone();
                    s2.push(l);
                    next.push(s2);
                }
            }
        }
        out.extend(next);
    }
    out.sort();
    out.dedup();
    out
}

fn conversions(rep: &mut Report, tier: Tier) {
    let mut t = Tally::new();
    let good = ["\"s\"", "\"\"", "\"\\u00e9x\""];
    let wrong = ["1", "null", "[]", "{}", "true"];
    let (mo, mi) = tier.pick((3, 2), (4, 3));
    // Vec<Vec<String>> with a wrong-kind value planted at every leaf position, and a
    // wrong-kind value in place of every inner array
    for shape in shapes(mo, mi) {
        let nleaves: usize = shape.iter().sum();
        // plant position: None = no plant; Some(p) = leaf p; inner arrays: Some(nleaves + k)
        for plant in (0..=nleaves + shape.len()).map(|p| if p == 0 { None } else { Some(p - 1) }) {
            for w in wrong {
                let mut text = String::from("[ ");
                let mut leaf = 0;
                let mut expected_offset = None;
                let mut index = 1; // fragment index of the next fragment (0 is the outer array)
                for (k, &len) in shape.iter().enumerate() {
                    if k > 0 {
                        text.push_str(" , ");
                    }
                    if plant == Some(nleaves + k) {
                        // a wrong kind instead of this inner array (but an array `[]` is not wrong here)
                        let w2 = if w == "[]" { "{}" } else { w };
                        text.push_str(w2);
                        expected_offset.get_or_insert(index);
                        index += 1;
                        leaf += len;
                        continue;
                    }
                    text.push('[');
                    index += 1;
                    for j in 0..len {
                        if j > 0 {
                            text.push(',');
                        }
                        if plant == Some(leaf) {
                            text.push_str(w);
                            expected_offset.get_or_insert(index);
                        } else {
                            text.push_str(good[(leaf + j) % good.len()]);
                        }
                        index += 1;
                        leaf += 1;
                    }
                    text.push(']');
                }
                text.push_str(" ]");
                let (v, m) = match Value::parse_str(&text) {
                    Ok(x) => x,
                    Err(_) => {
                        t.violation("MACHINERY-gen", "conversion family produced invalid JSON".to_string(), json!({"text": text}));
                        continue;
                    }
                };
                t.evals += 1;
                t.nontrivial(&text);
                let r = explore::guard(|| Vec::<Vec<String>>::try_from_json(&v, &m));
                let got = match r {
                    Ok(Ok(_)) => None,
                    Ok(Err(e)) => Some(e.offset),
                    Err(p) => {
                        t.violation("", format!("Vec<Vec<String>>::try_from_json panicked: {p}"), case(&text));
                        continue;
                    }
                };
                t.outcome(if expected_offset.is_some() { "conversion:mismatch-planted" } else { "conversion:clean" });
                if got != expected_offset {
                    t.violation("", format!("Vec<Vec<String>>::try_from_json reports offset {got:?}, the offending fragment has index {expected_offset:?}"), case(&text));
                }
                // the same through the harness leaf type (different error type, same offsets)
                let got2 = match explore::guard(|| Vec::<Vec<Leaf>>::try_from_json(&v, &m)) {
                    Ok(Ok(_)) => None,
                    Ok(Err(e)) => Some(e.offset),
                    Err(_) => Some(usize::MAX),
                };
                if got2 != expected_offset {
                    t.violation("", format!("Vec<Vec<Leaf>>::try_from_json reports offset {got2:?}, expected {expected_offset:?}"), case(&text));
                }
                if plant.is_none() {
                    break;
                }
            }
        }
    }
    // BTreeMap<String, Vec<Leaf>> and Option / Box / scalar conversions at an offset
    // (key patterns: all distinct; all the same key; two alternating keys; the last key repeats
    // the first - a wrong-kind value under a key that a later entry redefines is still a mismatch)
    for nkeys in 0..=tier.pick(3, 4) {
      for pattern in 0..(if nkeys >= 2 { 4usize } else { 1 }) {
        let key_name = |k: usize| match pattern {
            0 => format!("k{k}"),
            1 => "k0".to_string(),
            2 => format!("k{}", k % 2),
            _ => if k + 1 == nkeys { "k0".to_string() } else { format!("k{k}") },
        };
        for inner in 0..=2usize {
            let total = nkeys * inner;
            for plant in (0..=total + nkeys).map(|p| if p == 0 { None } else { Some(p - 1) }) {
                let mut text = String::from("{");
                let mut index = 1;
                let mut expected = None;
                let mut leaf = 0;
                for k in 0..nkeys {
                    if k > 0 {
                        text.push(',');
                    }
                    text.push_str(&format!(" \"{}\" : ", key_name(k)));
                    index += 2; // entry + key
                    if plant == Some(total + k) {
                        text.push_str("7");
                        expected.get_or_insert(index);
                        index += 1;
                        leaf += inner;
                        continue;
                    }
                    text.push('[');
                    index += 1;
                    for j in 0..inner {
                        if j > 0 {
                            text.push(',');
                        }
                        if plant == Some(leaf) {
                            text.push_str("{}");
                            expected.get_or_insert(index);
                        } else {
                            text.push_str("\"v\"");
                        }
                        index += 1;
                        leaf += 1;
                    }
                    text.push(']');
                }
                text.push('}');
                let (v, m) = match Value::parse_str(&text) {
                    Ok(x) => x,
                    Err(_) => {
                        t.violation("MACHINERY-gen", "conversion family produced invalid JSON".to_string(), json!({"text": text}));
                        continue;
                    }
                };
                t.evals += 1;
                t.nontrivial(&text);
                let got = match explore::guard(|| BTreeMap::<String, Vec<Leaf>>::try_from_json(&v, &m)) {
                    Ok(Ok(_)) => None,
                    Ok(Err(e)) => Some(e.offset),
                    Err(_) => Some(usize::MAX),
                };
                t.outcome(if expected.is_some() { "conversion:map-mismatch-planted" } else { "conversion:map-clean" });
                if got != expected {
                    t.violation("", format!("BTreeMap<String, Vec<Leaf>>::try_from_json reports offset {got:?}, the offending fragment has index {expected:?}"), case(&text));
                }
            }
        }
      }
    }
    // maps where an object is expected and something else is found (root and nested), keys that
    // do not parse as the key type, and the object-level entry points
    {
        use json_syntax::TryFromJsonObject;
        let wrongs = ["1", "null", "[]", "\"s\"", "true"];
        for w in wrongs {
            // root
            let (v, m) = Value::parse_str(&format!(" {w} ")).unwrap();
            t.evals += 1;
            let got = explore::guard(|| BTreeMap::<String, Leaf>::try_from_json(&v, &m).err().map(|e| e.offset));
            if got != Ok(Some(0)) {
                t.violation("", format!("BTreeMap::try_from_json on the non-object {w}: error offset {got:?}, expected Some(0)"), case(w));
            }
            // nested: the k-th item of an array of objects is not an object
            for n in 1..=3usize {
                for k in 0..n {
                    let mut text = String::from("[");
                    let mut index = 1;
                    let mut expected = 0;
                    for j in 0..n {
                        if j > 0 {
                            text.push_str(", ");
                        }
                        if j == k {
                            expected = index;
                            text.push_str(w);
                            index += 1;
                        } else {
                            text.push_str("{\"a\": \"x\", \"b\": \"y\"}");
                            index += 1 + 2 * 3;
                        }
                    }
                    text.push(']');
                    let (v, m) = Value::parse_str(&text).unwrap();
                    t.evals += 1;
                    t.nontrivial(&text);
                    let got = explore::guard(|| Vec::<BTreeMap<String, Leaf>>::try_from_json(&v, &m).err().map(|e| e.offset));
                    if got != Ok(Some(expected)) {
                        t.violation("", format!("Vec<BTreeMap<String, Leaf>>::try_from_json: error offset {got:?}, the offending fragment has index {expected}"), case(&text));
                    }
                    let got = explore::guard(|| Vec::<Box<BTreeMap<String, Leaf>>>::try_from_json(&v, &m).err().map(|e| e.offset));
                    if got != Ok(Some(expected)) {
                        t.violation("", format!("Vec<Box<BTreeMap<String, Leaf>>>::try_from_json: error offset {got:?}, the offending fragment has index {expected}"), case(&text));
                    }
                    t.outcome("conversion:non-object where a map is expected");
                }
            }
        }
        // maps of maps (and maps of vectors of maps): earlier members hold non-empty objects - whose
        // fragments are values, entries *and* keys - and a later leaf has the wrong kind; every
        // position of the planted leaf, outer sizes 1..=3, inner sizes 0..=2, root and nested
        for outer in 1..=3usize {
            for inner in 0..=2usize {
                for plant in 0..outer * inner.max(1) {
                    for nested in [false, true] {
                        let mut text = String::new();
                        if nested {
                            text.push_str("[null, ");
                        }
                        text.push('{');
                        let mut leaf = 0usize;
                        let mut planted_at = None;
                        for a in 0..outer {
                            if a > 0 {
                                text.push_str(", ");
                            }
                            text.push_str(&format!("\"o{a}\": "));
                            if inner == 0 {
                                // the outer value itself is the wrong-kind fragment
                                if leaf == plant {
                                    planted_at = Some(text.len());
                                    text.push_str("7");
                                } else {
                                    text.push_str("{}");
                                }
                                leaf += 1;
                                continue;
                            }
                            text.push('{');
                            for b in 0..inner {
                                if b > 0 {
                                    text.push_str(", ");
                                }
                                text.push_str(&format!("\"i{b}\": "));
                                if leaf == plant {
                                    planted_at = Some(text.len());
                                    text.push_str("[7]");
                                } else {
                                    text.push_str("\"v\"");
                                }
                                leaf += 1;
                            }
                            text.push('}');
                        }
                        text.push('}');
                        if nested {
                            text.push(']');
                        }
                        let Some(at) = planted_at else { continue };
                        let Ok(doc) = refmodel::dec::decode(&text) else {
                            t.violation("MACHINERY-gen", "conversion family produced invalid JSON".to_string(), json!({"text": text}));
                            continue;
                        };
                        // (index of the value fragment that starts at the planted position; an entry
                        // starts at its key, so only the value starts there)
                        let expected = doc.map.iter().position(|(s, _, _)| *s == at).unwrap();
                        let (v, m) = Value::parse_str(&text).unwrap();
                        t.evals += 1;
                        t.nontrivial(&text);
                        let got = if nested {
                            explore::guard(|| Vec::<Option<BTreeMap<String, BTreeMap<String, Leaf>>>>::try_from_json(&v, &m).err().map(|e| e.offset))
                        } else {
                            explore::guard(|| BTreeMap::<String, BTreeMap<String, Leaf>>::try_from_json(&v, &m).err().map(|e| e.offset))
                        };
                        if got != Ok(Some(expected)) {
                            t.violation("", format!("map of maps: error offset {got:?}, the offending fragment has index {expected}"), case(&text));
                        }
                        t.outcome("conversion:map of maps, planted mismatch");
                    }
                }
            }
        }
        // a key that does not parse as the key type is reported at the key's fragment
        for n in 1..=3usize {
            for k in 0..n {
                let mut text = String::from("[0, {");
                let mut expected = 0;
                for j in 0..n {
                    if j > 0 {
                        text.push_str(", ");
                    }
                    // fragments: array 0, number 1, object 2, then entry/key/value triples
                    if j == k {
                        expected = 2 + 3 * j + 2;
                        text.push_str("\"x\": \"v\"");
                    } else {
                        text.push_str(&format!("\"{j}\": \"v\""));
                    }
                }
                text.push_str("}]");
                let (v, m) = Value::parse_str(&text).unwrap();
                let obj = &v.as_array().unwrap()[1];
                t.evals += 1;
                t.nontrivial(&text);
                let got = explore::guard(|| BTreeMap::<u8, KeyedLeaf>::try_from_json_at(obj, &m, 2).err().map(|e| e.offset));
                if got != Ok(Some(expected)) {
                    t.violation("", format!("BTreeMap<u8, _>::try_from_json_at: a key that is not a u8 is reported at offset {got:?}, the key's fragment has index {expected}"), case(&text));
                }
                t.outcome("conversion:bad key reported at the key");
            }
        }
        // TryFromJsonObject: the provided method assumes offset 0; Box forwards the offset
        let text = "{\"a\": \"x\", \"b\": 7}";
        let (v, m) = Value::parse_str(text).unwrap();
        let obj = v.as_object().unwrap();
        t.evals += 2;
        let got = explore::guard(|| ObjLeaf::try_from_json_object(obj, &m).err().map(|e| e.offset));
        if got != Ok(Some(6)) {
            t.violation("", format!("TryFromJsonObject::try_from_json_object: error offset {got:?}, expected Some(6)"), case(text));
        }
        // (several placements: a forwarder that drops the offset can land on the right index
        // by coincidence in one document, not in all of them)
        for k in 0..=4usize {
            let text2 = format!("[{}{{\"a\": \"x\", \"b\": 7}}]", "[0, 0], ".repeat(k));
            let (v2, m2) = Value::parse_str(&text2).unwrap();
            let obj2 = v2.as_array().unwrap()[k].as_object().unwrap();
            let at = 1 + 3 * k;
            let want = at + 6;
            t.evals += 2;
            let got = explore::guard(|| Box::<ObjLeaf>::try_from_json_object_at(obj2, &m2, at).err().map(|e| e.offset));
            if got != Ok(Some(want)) {
                t.violation("", format!("Box<_>::try_from_json_object_at(…, {at}): error offset {got:?}, expected Some({want})"), case(&text2));
            }
            let got = explore::guard(|| Box::<Box<ObjLeaf>>::try_from_json_object_at(obj2, &m2, at).err().map(|e| e.offset));
            if got != Ok(Some(want)) {
                t.violation("", format!("Box<Box<_>>::try_from_json_object_at(…, {at}): error offset {got:?}, expected Some({want})"), case(&text2));
            }
        }
    }
    // scalar conversions report the offset they were given
    let (v, m) = Value::parse_str("[null, true, 1, \"s\", [], {}]").unwrap();
    let items: Vec<Mapped<&Value>> = v.as_array().unwrap().iter_mapped(&m, 0).collect();
    for it in &items {
        t.evals += 1;
        let off = it.offset;
        let kind = it.value.kind();
        use json_syntax::Kind as K;
        let checks: Vec<(&str, Option<usize>, bool)> = vec![
            ("()", <()>::try_from_json_at(it.value, &m, off).err().map(|e| e.offset), kind == K::Null),
            ("bool", bool::try_from_json_at(it.value, &m, off).err().map(|e| e.offset), kind == K::Boolean),
            ("String", String::try_from_json_at(it.value, &m, off).err().map(|e| e.offset), kind == K::String),
            ("u8", u8::try_from_json_at(it.value, &m, off).err().map(|e| e.offset), kind == K::Number),
            ("f64", f64::try_from_json_at(it.value, &m, off).err().map(|e| e.offset), kind == K::Number),
            ("Option<bool>", Option::<bool>::try_from_json_at(it.value, &m, off).err().map(|e| e.offset), kind == K::Boolean || kind == K::Null),
            ("Box<String>", Box::<String>::try_from_json_at(it.value, &m, off).err().map(|e| e.offset), kind == K::String),
            ("Vec<String>", Vec::<String>::try_from_json_at(it.value, &m, off).err().map(|e| e.offset), kind == K::Array),
        ];
        for (name, got, should_succeed) in checks {
            let want = if should_succeed { None } else { Some(off) };
            if got != want {
                t.violation("", format!("{name}::try_from_json_at on {} at offset {off}: error offset {got:?}, expected {want:?}", it.value), case("[null, true, 1, \"s\", [], {}]"));
            }
        }
    }
    rep.bounds["conversions"] = json!({"nested_array_shapes": shapes(mo, mi).len(), "max_outer": mo, "max_inner": mi});
    rep.absorb(t);
}

/// Objects with every pattern of duplicated keys: every value with at most N nodes over one
/// leaf and the keys {a, b} (so up to N - 1 entries with every key assignment, nested objects
/// and arrays), printed compactly and with spaces, then navigated.
fn duplicate_key_family(rep: &mut Report, tier: Tier) {
    use refmodel::value::Gen;
    use refmodel::RV;
    let leaves = [RV::num("0")];
    let keys = ["a", "b"];
    let n = tier.pick(6, 7);
    let g = Gen::new(&leaves, &keys, n);
    let vals = g.up_to(n);
    let count = vals.len();
    let t = explore::par_tally(vals.chunks(128).map(|c| c.to_vec()).collect(), |chunk, t| {
        for v in chunk {
            let compact = refmodel::print::compact(&v);
            check_document(&compact, t);
            let spaced = refmodel::print::print(&v, &refmodel::print::Opts::pretty());
            check_document(&spaced, t);
            t.nontrivial(&compact);
            t.outcome(if v.has_duplicate_keys() { "document:duplicate keys" } else { "document:generated, no duplicates" });
        }
    });
    rep.bounds["duplicate-key-family"] = json!({"values": count, "max_nodes": n, "keys": keys, "renderings": ["compact", "pretty"]});
    rep.absorb(t);
}

/// Navigation on pumped documents: long arrays, many distinct keys, many duplicates of one
/// key, long strings and keys (code-map indices and skip loops beyond u8 / u16 ranges).
fn pumped_documents(rep: &mut Report, tier: Tier) {
    use refmodel::pump::{thresholds, Family, FAMILIES};
    let mut items = Vec::new();
    for f in FAMILIES {
        let cap = match f {
            Family::Array | Family::NestedArray => tier.pick(1025, 4097),
            Family::DistinctKeys | Family::DistinctLongKeys => tier.pick(513, 2049),
            Family::DuplicateKey | Family::InterleavedDuplicates => tier.pick(257, 1025),
            _ => 4097,
        };
        for n in thresholds(cap) {
            items.push((f, n));
        }
    }
    let count = items.len();
    let t = explore::par_tally(items, |(f, n), t| {
        let v = f.build(n);
        // wrapped so that the pumped container sits at a non-zero offset after a sibling
        let text = format!("[{{\"pre\":[1,2]}},{}, \"post\"]", refmodel::print::compact(&v));
        check_document(&text, t);
        t.nontrivial(&(format!("{f:?}"), n));
        t.outcome(&format!("pumped:{f:?}"));
    });
    rep.bounds["pumped-documents"] = json!({"documents": count, "caps": "arrays 1025/4097, distinct keys 513/2049, duplicates 257/1025, strings 4097"});
    rep.absorb(t);
}

pub fn run(rep: &mut Report, tier: Tier) {
    // all documents of the token trees
    let vis = |n: &Node, t: &mut Tally| {
        if n.dead.is_none() && !n.fault_dead && n.mach.pda.is_accepting() {
            // (the second battery of iterator consumers on a deterministic quarter of the documents)
            bridge::SECOND_BATTERY_HERE.with(|c| c.set(bridge::fnv(n.text.as_bytes()) % 4 == 0));
            explore::watched(n.text.as_bytes(), || check_document(n.text, t));
            bridge::SECOND_BATTERY_HERE.with(|c| c.set(true));
            t.nontrivial(&n.text);
            t.outcome(if n.text.contains("{}") { "document:has-empty-object" } else if n.text.contains('{') { "document:has-object" } else { "document:no-object" });
        } else {
            t.outcome("node:not-a-document");
        }
    };
    let far = Budget::new(100_000);
    let share = tier.pick(35.0, 600.0);
    let start = std::time::Instant::now();
    // (quick: fixed depths, always completed - the same nodes on every machine)
    for (spec, min, max) in [(t_tok_small(), tier.pick(12, 7), tier.pick(12, 13)), (t_tok(), tier.pick(10, 6), tier.pick(10, 11))] {
        let mut done = 0;
        let mut last = None;
        let mut prev = 0u64;
        let mut d = min;
        while d <= max {
            let t0 = std::time::Instant::now();
            let budget = if d == min { far } else { Budget::new((share - start.elapsed().as_secs_f64()).max(1.0) as u64) };
            let (t, complete) = walk(
                &spec,
                WalkCfg {
                    depth: d,
                    max_dev: 0,
                    horizon: 0,
                    prune: (false, false),
                },
                budget,
                &vis,
            );
            if !complete {
                rep.note(format!("{}: depth {d} not completed within the time share; largest completed depth {done}", spec.name));
                break;
            }
            let secs = t0.elapsed().as_secs_f64();
            let states = t.states;
            let viol = t.violation_count > 0;
            last = Some(t);
            done = d;
            if viol {
                break;
            }
            let growth = if prev > 0 { states as f64 / prev as f64 } else { 6.0 };
            prev = states;
            if secs * growth.max(1.5) > (share - start.elapsed().as_secs_f64()) / 2.0 {
                break;
            }
            d += 1;
        }
        if let Some(mut t) = last {
            t.sample(json!({"tree": spec.name, "tokens_completed": done, "nodes": t.states, "alphabet": spec.alphabet}));
            rep.bounds[spec.name] = json!({"tokens_completed": done, "nodes": t.states});
            rep.absorb(t);
        }
    }
    duplicate_key_family(rep, tier);
    pumped_documents(rep, tier);
    conversions(rep, tier);
    rep.rule = "every accepted document of the token trees (all token sequences up to the bound: nested arrays and objects, empty containers in every position, duplicate and escaped keys, whitespace): a table index -> fragment address is built from traverse(); get_fragment, iter_mapped on every array and object, the eight mapped key lookups for every key and one absent key, volume and count are compared with it, and the span stored at every returned offset is cut out of the source and re-parsed; conversions: every nested-array / map shape up to a bound with a wrong-kind value planted at every position; non-trivial = distinct documents".into();
    rep.assumptions.push("relies on C05 (code map exact) for the meaning of spans; pointer identity is used to identify fragments".into());
}
