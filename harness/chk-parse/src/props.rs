//! Per-property visitors over the execution trees and the complete finite families.

use crate::drive::*;
use crate::oracle::*;
use crate::tree::*;
use explore::serde_json::{json, Value as J};
use explore::{Budget, Report, Tally, Tier};
use json_syntax::Value;
use refmodel::dec::{decode, Doc};
use refmodel::RV;

#[derive(Clone, Copy, PartialEq, Eq, Debug)]
pub enum Mode {
    C01,
    C02,
    C03,
    C05,
    C07,
    C12,
}

pub fn text_case(text: &str, rec: (bool, bool), entry: &str) -> J {
    json!({"kind": "text", "text": text, "record": [rec.0, rec.1], "entry": entry})
}

pub fn bytes_case(bytes: &[u8], rec: (bool, bool), entry: &str) -> J {
    json!({"kind": "bytes", "bytes": bytes, "lossy": String::from_utf8_lossy(bytes), "record": [rec.0, rec.1], "entry": entry})
}

/// serde_json is consulted as a second opinion on the verdict only for texts without `\u`
/// escapes and without exponents of three or more digits (it rejects numbers outside f64
/// range and lone surrogates, which RFC 8259's grammar allows).
fn serde_json_comparable(text: &str) -> bool {
    if text.contains("\\u") {
        return false;
    }
    let b = text.as_bytes();
    let mut i = 0;
    while i < b.len() {
        if b[i] == b'e' || b[i] == b'E' {
            let mut j = i + 1;
            if j < b.len() && (b[j] == b'+' || b[j] == b'-') {
                j += 1;
            }
            let st = j;
            while j < b.len() && b[j].is_ascii_digit() {
                j += 1;
            }
            if j - st >= 3 {
                return false;
            }
        }
        i += 1;
    }
    // digits: very long integers overflow to f64 fine; keep those
    true
}

/// Cross-checks between the reference models (machinery, never a verdict).
fn self_check(text: &str, exp: &Expect, t: &mut Tally) -> Option<Doc> {
    let doc = decode(text);
    match (&doc, exp) {
        (Ok(d), Expect::Accept) => {
            if !d.faults.is_empty() {
                t.violation("MACHINERY-ref", "R-dec found faults in a text R-pda accepts as strict".to_string(), json!({"text": text}));
            }
        }
        (Ok(d), Expect::Fault(f)) => {
            if !d.faults.contains(f) {
                t.violation("MACHINERY-ref", "R-dec and R-pda disagree on the surrogate faults".to_string(), json!({"text": text}));
            }
        }
        (Ok(_), _) => t.violation("MACHINERY-ref", format!("R-dec accepts, R-pda expects {exp:?}"), json!({"text": text})),
        (Err(off), Expect::Unexpected(p, _)) => {
            if off != p {
                t.violation("MACHINERY-ref", format!("R-dec fails at {off}, R-pda's viable prefix is {p}"), json!({"text": text}));
            }
        }
        (Err(_), Expect::Fault(_)) => {}
        (Err(off), _) => t.violation("MACHINERY-ref", format!("R-dec fails at {off}, R-pda expects {exp:?}"), json!({"text": text})),
    }
    if serde_json_comparable(text) && !matches!(exp, Expect::Fault(_)) {
        let sj = serde_json::from_str::<serde_json::Value>(text);
        if sj.is_ok() != (*exp == Expect::Accept) {
            t.violation("MACHINERY-ref", format!("serde_json verdict {} differs from the reference {exp:?}", sj.is_ok()), json!({"text": text}));
        }
        if let (Ok(sj), Ok(d)) = (&sj, &doc) {
            if !same_content(sj, &d.value) {
                t.violation("MACHINERY-ref", "serde_json decodes different content than R-dec".to_string(), json!({"text": text}));
            }
        }
    }
    doc.ok()
}

/// serde_json value vs abstract value, content only (strings, structure, last duplicate wins
/// in serde_json so objects with duplicate keys are compared key-set-wise).
fn same_content(sj: &serde_json::Value, v: &RV) -> bool {
    match (sj, v) {
        (serde_json::Value::Null, RV::Null) => true,
        (serde_json::Value::Bool(a), RV::Bool(b)) => a == b,
        (serde_json::Value::Number(_), RV::Num(_)) => true,
        (serde_json::Value::String(a), RV::Str(b)) => a == b,
        (serde_json::Value::Array(a), RV::Arr(b)) => a.len() == b.len() && a.iter().zip(b).all(|(x, y)| same_content(x, y)),
        (serde_json::Value::Object(a), RV::Obj(b)) => b.iter().all(|(k, _)| {
            // the last entry with this key is the one serde_json keeps
            let last = b.iter().rev().find(|(k2, _)| k2 == k).unwrap();
            a.get(k).map(|x| same_content(x, &last.1)).unwrap_or(false)
        }),
        _ => false,
    }
}

/// C02 oracle on one accepted value.
pub fn check_value(v: &Value, doc: &Doc) -> Result<(), String> {
    let got = bridge::from_value(v);
    if got != doc.value {
        return Err(format!("decoded value {} differs from the document's content {}", got.show(), doc.value.show()));
    }
    check_lookups(v, &doc.value)
}

/// Key lookups on every object of the parsed value against linear scans of the reference entries.
pub fn check_lookups(v: &Value, r: &RV) -> Result<(), String> {
    match (v, r) {
        (Value::Array(a), RV::Arr(b)) => {
            for (x, y) in a.iter().zip(b) {
                check_lookups(x, y)?;
            }
            Ok(())
        }
        (Value::Object(o), RV::Obj(e)) => {
            let mut keys: Vec<&str> = e.iter().map(|(k, _)| k.as_str()).collect();
            keys.sort();
            keys.dedup();
            if keys.len() > 96 {
                // a pumped object: every 1/64th key plus the extremes (each lookup is still
                // compared with a full linear scan)
                let step = keys.len() / 64;
                let mut sampled: Vec<&str> = keys.iter().step_by(step).copied().collect();
                sampled.push(keys[keys.len() - 1]);
                sampled.push(keys[1]);
                keys = sampled;
            }
            keys.push("\u{1}absent-key");
            for k in keys {
                let pos: Vec<usize> = e.iter().enumerate().filter(|(_, (k2, _))| k2 == k).map(|(i, _)| i).collect();
                let vals: Vec<RV> = pos.iter().map(|&i| e[i].1.clone()).collect();
                if o.get(k).map(bridge::from_value).collect::<Vec<_>>() != vals {
                    return Err(format!("get({k:?}) does not return the values of the entries carrying that key in source order"));
                }
                if o.get_entries(k).map(|en| (en.key.as_str().to_string(), bridge::from_value(&en.value))).collect::<Vec<_>>()
                    != pos.iter().map(|&i| e[i].clone()).collect::<Vec<_>>()
                {
                    return Err(format!("get_entries({k:?}) differs from a linear scan"));
                }
                if o.contains_key(k) != !pos.is_empty() || o.index_of(k) != pos.first().copied() || o.indexes_of(k).collect::<Vec<_>>() != pos {
                    return Err(format!("contains_key/index_of/indexes_of({k:?}) differ from a linear scan"));
                }
                // the lookup iterators through the whole Iterator protocol (nth, step_by, size_hint...)
                if pos.len() <= 6 {
                    let ents = o.entries();
                    let want_vals: Vec<&Value> = pos.iter().map(|&i| &ents[i].value).collect();
                    let want_ents: Vec<&json_syntax::object::Entry> = pos.iter().map(|&i| &ents[i]).collect();
                    let want_vi: Vec<(usize, &Value)> = pos.iter().map(|&i| (i, &ents[i].value)).collect();
                    let want_ei: Vec<(usize, &json_syntax::object::Entry)> = pos.iter().map(|&i| (i, &ents[i])).collect();
                    bridge::iterator_protocol(&format!("get({k:?})"), || o.get(k), &want_vals)?;
                    bridge::iterator_protocol(&format!("get_entries({k:?})"), || o.get_entries(k), &want_ents)?;
                    bridge::iterator_protocol(&format!("indexes_of({k:?})"), || o.indexes_of(k), &pos)?;
                    bridge::iterator_protocol(&format!("get_with_index({k:?})"), || o.get_with_index(k), &want_vi)?;
                    bridge::iterator_protocol(&format!("get_entries_with_index({k:?})"), || o.get_entries_with_index(k), &want_ei)?;
                }
            }
            for (en, (_, y)) in o.iter().zip(e) {
                check_lookups(&en.value, y)?;
            }
            Ok(())
        }
        _ => Ok(()),
    }
}

/// C05 oracle: the code map equals the reference list; one entry per fragment in traversal order.
pub fn check_map(v: &Value, map: &Map, doc: &Doc, text_len: usize) -> Result<(), String> {
    if *map != doc.map {
        let i = map.iter().zip(&doc.map).position(|(a, b)| a != b).unwrap_or(map.len().min(doc.map.len()));
        return Err(format!(
            "code map differs from the reference at entry {i}: got {:?}, expected {:?} (lengths {} / {})",
            map.get(i),
            doc.map.get(i),
            map.len(),
            doc.map.len()
        ));
    }
    // independent structural clauses of the statement
    let n = v.traverse().count();
    if map.len() != n {
        return Err(format!("code map has {} entries, traversal yields {n} fragments", map.len()));
    }
    if map[0].2 != map.len() {
        return Err(format!("root volume {} != map length {}", map[0].2, map.len()));
    }
    for (i, (s, e, vol)) in map.iter().enumerate() {
        if *vol < 1 || s > e || *e > text_len || i + vol > map.len() {
            return Err(format!("entry {i} = ({s},{e},{vol}) is ill-formed"));
        }
    }
    Ok(())
}

pub struct TextVisitor {
    pub mode: Mode,
    /// run every entry point on core nodes (otherwise a reduced set)
    pub all_entries: bool,
    /// nodes whose text is at most this long are run through every entry point even when
    /// `all_entries` is off (C02 / C05: the long tail of the trees uses three entry points)
    pub short_all: usize,
}

impl TextVisitor {
    pub fn visit(&self, n: &Node, t: &mut Tally) {
        let text = n.text;
        explore::watched(text.as_bytes(), || self.visit_inner(n, t));
    }

    fn visit_inner(&self, n: &Node, t: &mut Tally) {
        let text = n.text;
        let strict = (false, false);
        let exp = expect_from(n.mach, text.len(), n.dead, strict);
        let core = n.devs == 0;
        if (text.len() <= 4 || (text.len() <= 24 && !text.is_ascii())) && !n.post && matches!(self.mode, Mode::C01 | Mode::C02 | Mode::C05 | Mode::C07) {
            t.evals += 4;
            if let Err(e) = slice_alignment_sweep(text.as_bytes(), STRICT, &slice_entry(text.as_bytes(), STRICT)) {
                t.violation("", e, text_case(text, strict, "parse_slice_with"));
            }
        }
        match self.mode {
            Mode::C01 => {
                t.outcome(exp.class());
                if !n.post {
                    self_check(text, &exp, t);
                }
                let want = exp == Expect::Accept;
                let (out, _) = observed(text, STRICT);
                t.evals += 1;
                let verdict = |name: &str, out: &Out, t: &mut Tally| {
                    let got = matches!(out, Out::Ok(..));
                    if got != want || matches!(out, Out::Broken(_)) {
                        t.violation(
                            "",
                            format!("{name}: {} a text the reference {} ({})", if got { "accepts" } else { "rejects" }, if want { "accepts" } else { "rejects" }, out.brief()),
                            text_case(text, strict, name),
                        );
                    }
                };
                verdict("parse_utf8_with(observed)", &out, t);
                if core && self.all_entries {
                    for (name, o) in all_strict_text_entry_points(text) {
                        t.evals += 1;
                        verdict(name, &o, t);
                    }
                    for (name, r) in crate::drive::parse_in_verdicts(text, STRICT) {
                        t.evals += 1;
                        match r {
                            Ok(got) if got == want => {}
                            Ok(got) => t.violation("", format!("{name}: {} a text the reference {}", if got { "accepts" } else { "rejects" }, if want { "accepts" } else { "rejects" }), text_case(text, strict, name)),
                            Err(p) => t.violation("", format!("{name}: panic: {p}"), text_case(text, strict, name)),
                        }
                    }
                } else {
                    for (name, o) in [("parse_str", str_entry(text, STRICT)), ("parse_slice", slice_entry_default(text.as_bytes()))] {
                        t.evals += 1;
                        verdict(name, &o, t);
                    }
                }
                if want != matches!(exp, Expect::Accept) || (!n.post && want) {
                    t.nontrivial(&text);
                } else if !n.post {
                    t.nontrivial(&text);
                }
            }
            Mode::C07 => {
                // the environment answers an error after the last character of this prefix: an
                // error that occurs strictly before it wins, otherwise the stream error is reported
                // at the number of bytes consumed (the rule C07 states for ill-formed UTF-8, which
                // parse_slice implements with exactly this mechanism)
                if !n.post {
                    let (out, pulls, intact) = observed_failing(text, STRICT);
                    t.evals += 1;
                    let earlier = n.dead.is_some() || n.mach.first_untolerated(false, false).is_some();
                    let r = if earlier {
                        check(&out, &exp, text.as_bytes())
                    } else if out == Out::Err(EK::Stream(text.len())) {
                        Ok(())
                    } else {
                        Err(format!("expected Stream({}), observed {}", text.len(), out.brief()))
                    };
                    if let Err(e) = r {
                        t.violation("", format!("parse_utf8_with over a source that fails after this text: {e}"), text_case(text, strict, "parse_utf8_with(failing source)"));
                    }
                    if !intact {
                        t.violation("", "the stream error does not carry the source's error value".to_string(), text_case(text, strict, "parse_utf8_with(failing source)"));
                    }
                    if pulls.after_error {
                        t.violation("", "the parser pulled its input again after an error answer".to_string(), text_case(text, strict, "parse_utf8_with(failing source)"));
                    }
                    t.outcome(if earlier { "failing source: earlier error wins" } else { "failing source: stream error at the bytes consumed" });
                }
                if exp == Expect::Accept {
                    t.outcome("accepted (not in scope)");
                    return;
                }
                t.outcome(exp.class());
                t.nontrivial(&text);
                let (out, pulls) = observed(text, STRICT);
                t.evals += 1;
                if let Err(e) = check(&out, &exp, text.as_bytes()) {
                    t.violation("", format!("parse_utf8_with(observed): {e}"), text_case(text, strict, "parse_utf8_with"));
                }
                // the parser must not have looked past the offending character
                if let (Expect::Unexpected(p, Some(_)), Out::Err(EK::Unexpected(..))) = (&exp, &out) {
                    let needed = text[..*p].chars().count() + 1;
                    if pulls.items > needed {
                        t.violation("", format!("parser pulled {} characters, the offending one is number {needed}", pulls.items), text_case(text, strict, "parse_utf8_with"));
                    }
                }
                let entries = if core && self.all_entries {
                    all_strict_text_entry_points(text)
                } else {
                    vec![("parse_str", str_entry(text, STRICT)), ("parse_slice", slice_entry_default(text.as_bytes()))]
                };
                for (name, o) in entries {
                    t.evals += 1;
                    if let Err(e) = check(&o, &exp, text.as_bytes()) {
                        t.violation("", format!("{name}: {e}"), text_case(text, strict, name));
                    }
                }
            }
            Mode::C02 | Mode::C05 => {
                if exp != Expect::Accept {
                    // C05 speaks of every *successful* parse: a document that only a lenient
                    // record accepts has a code map too (same spans: the options change how
                    // escapes decode, not where fragments lie)
                    if self.mode == Mode::C05 && !n.mach.faults.is_empty() {
                        if let Ok(doc) = decode(text) {
                            for rec in RECORDS {
                                if expect_from(n.mach, text.len(), n.dead, rec) != Expect::Accept {
                                    continue;
                                }
                                t.nontrivial(&(text, rec));
                                t.outcome("leaf:accepted under a lenient record only");
                                for (name, o) in [("parse_str_with", str_entry(text, options(rec.0, rec.1))), ("parse_slice_with", slice_entry(text.as_bytes(), options(rec.0, rec.1)))] {
                                    t.evals += 1;
                                    match &o {
                                        Out::Ok(v, map) => {
                                            if let Err(e) = check_map(v, map, &doc, text.len()) {
                                                t.violation("", format!("{name} under record {rec:?}: {e}"), text_case(text, rec, name));
                                            }
                                        }
                                        other => t.violation("", format!("{name} under record {rec:?}: rejected ({}) although the record tolerates every fault", other.brief()), text_case(text, rec, name)),
                                    }
                                }
                            }
                            return;
                        }
                    }
                    t.outcome("rejected (not in scope)");
                    return;
                }
                let doc = match decode(text) {
                    Ok(d) => d,
                    Err(_) => {
                        t.violation("MACHINERY-ref", "R-dec rejects a text R-pda accepts".to_string(), json!({"text": text}));
                        return;
                    }
                };
                t.nontrivial(&text);
                t.outcome(match &doc.value {
                    RV::Arr(a) if a.is_empty() => "leaf:empty-array",
                    RV::Obj(o) if o.is_empty() => "leaf:empty-object",
                    RV::Arr(_) => "leaf:array",
                    RV::Obj(_) if doc.value.has_duplicate_keys() => "leaf:object-with-duplicates",
                    RV::Obj(_) => "leaf:object",
                    RV::Str(_) => "leaf:string",
                    RV::Num(_) => "leaf:number",
                    _ => "leaf:literal",
                });
                let mut entries = vec![
                    ("parse_utf8_with(observed)", observed(text, STRICT).0),
                    ("parse_str", str_entry(text, STRICT)),
                    ("parse_slice", slice_entry_default(text.as_bytes())),
                ];
                if self.all_entries || text.len() <= self.short_all {
                    entries.extend(all_strict_text_entry_points(text));
                }
                for (name, o) in entries {
                    t.evals += 1;
                    match &o {
                        Out::Ok(v, map) => {
                            let r = if self.mode == Mode::C02 {
                                check_value(v, &doc)
                            } else if name == "FromStr" {
                                Ok(())
                            } else {
                                check_map(v, map, &doc, text.len())
                            };
                            if let Err(e) = r {
                                t.violation("", format!("{name}: {e}"), text_case(text, strict, name));
                            }
                        }
                        other => {
                            // verdicts are C01's business; note it and move on
                            t.outcome("leaf rejected by an entry point (see C01)");
                            let _ = other;
                        }
                    }
                }
            }
            Mode::C12 => {
                let doc = decode(text).ok();
                let strict_out = str_entry(text, STRICT);
                for rec in RECORDS {
                    let exp = expect_from(n.mach, text.len(), n.dead, rec);
                    t.outcome(&format!("({},{}):{}", rec.0 as u8, rec.1 as u8, exp.class()));
                    let entries = if self.all_entries && !n.post {
                        let mut e = all_text_entry_points_with(text, options(rec.0, rec.1));
                        e.push(("parse_utf8_with(observed)", observed(text, options(rec.0, rec.1)).0));
                        e
                    } else {
                        vec![("parse_str_with", str_entry(text, options(rec.0, rec.1)))]
                    };
                    for (name, out) in entries {
                        t.evals += 1;
                        if let Err(e) = check(&out, &exp, text.as_bytes()) {
                            t.violation("", format!("{name} under record {rec:?}: {e}"), text_case(text, rec, name));
                            continue;
                        }
                        if let (Out::Ok(v, map), Some(doc)) = (&out, &doc) {
                            // every fault decodes to exactly one U+FFFD, pairs combine, nothing else changes
                            if bridge::from_value(v) != doc.value {
                                t.violation(
                                    "",
                                    format!("{name} under record {rec:?}: decoded {} but the reference decodes {}", bridge::from_value(v).show(), doc.value.show()),
                                    text_case(text, rec, name),
                                );
                            } else if *map != doc.map {
                                t.violation("", format!("{name} under record {rec:?}: code map differs from the reference"), text_case(text, rec, name));
                            }
                            // (a) strict-accepted => identical value and code map under every record
                            if let Out::Ok(sv, sm) = &strict_out {
                                if sv != v || sm != map {
                                    t.violation("", format!("{name}: record {rec:?} changes the result of a strict-valid document"), text_case(text, rec, name));
                                }
                            }
                        }
                    }
                }
                if !n.mach.faults.is_empty() {
                    t.nontrivial(&text);
                }
            }
            Mode::C03 => {
                for rec in RECORDS {
                    let (out, pulls) = observed(text, options(rec.0, rec.1));
                    t.evals += 1;
                    t.outcome(out.class());
                    let nchars = text.chars().count();
                    if let Out::Broken(why) = &out {
                        t.violation("", format!("parse_utf8_with under {rec:?} did not return: {why}"), text_case(text, rec, "parse_utf8_with"));
                    }
                    if pulls.items > nchars {
                        t.violation("", format!("pulled {} items from an input of {nchars} characters", pulls.items), text_case(text, rec, "parse_utf8_with"));
                    }
                    // the same input from a source that answers an error after the last character
                    let (fo, fp, _) = observed_failing(text, options(rec.0, rec.1));
                    t.evals += 1;
                    if !matches!(fo, Out::Err(_)) {
                        t.violation("", format!("parse_utf8_with over a failing source under {rec:?} did not return an error: {}", fo.brief()), text_case(text, rec, "parse_utf8_with(failing source)"));
                    }
                    if fp.after_error || fp.items > nchars + 1 {
                        t.violation("", format!("failing source: pulled {} items (after the error answer: {}) from {nchars} characters", fp.items, fp.after_error), text_case(text, rec, "parse_utf8_with(failing source)"));
                    }
                    let o2 = slice_entry(text.as_bytes(), options(rec.0, rec.1));
                    t.evals += 1;
                    if let Out::Broken(why) = &o2 {
                        t.violation("", format!("parse_slice_with under {rec:?} did not return: {why}"), text_case(text, rec, "parse_slice_with"));
                    }
                }
                t.nontrivial(&text);
            }
        }
    }
}

pub struct ByteVisitor {
    pub mode: Mode,
}

impl ByteVisitor {
    pub fn visit(&self, bytes: &[u8], t: &mut Tally) {
        explore::watched(bytes, || self.visit_inner(bytes, t));
    }

    fn visit_inner(&self, bytes: &[u8], t: &mut Tally) {
        let strict = (false, false);
        match self.mode {
            Mode::C03 => {
                for rec in RECORDS {
                    let o = slice_entry(bytes, options(rec.0, rec.1));
                    t.evals += 1;
                    t.outcome(o.class());
                    if let Out::Broken(why) = &o {
                        t.violation("", format!("parse_slice_with under {rec:?} did not return: {why}"), bytes_case(bytes, rec, "parse_slice_with"));
                    }
                }
                t.nontrivial(&bytes);
            }
            Mode::C12 => {
                for rec in RECORDS {
                    let exp = expect_bytes(bytes, rec);
                    let o = slice_entry(bytes, options(rec.0, rec.1));
                    t.evals += 1;
                    t.outcome(exp.class());
                    if let Err(e) = check(&o, &exp, bytes) {
                        t.violation("", format!("parse_slice_with under {rec:?}: {e}"), bytes_case(bytes, rec, "parse_slice_with"));
                    }
                }
            }
            _ => {
                let exp = expect_bytes(bytes, strict);
                t.outcome(exp.class());
                let outs = [("parse_slice", slice_entry_default(bytes)), ("parse_slice_with", slice_entry(bytes, STRICT))];
                if bytes.len() <= 64 {
                    t.evals += 4;
                    if let Err(e) = slice_alignment_sweep(bytes, STRICT, &outs[1].1) {
                        t.violation("", e, bytes_case(bytes, strict, "parse_slice_with"));
                    }
                }
                for (name, o) in outs {
                    t.evals += 1;
                    match self.mode {
                        Mode::C01 => {
                            let got = matches!(o, Out::Ok(..));
                            if got != (exp == Expect::Accept) || matches!(o, Out::Broken(_)) {
                                t.violation(
                                    "",
                                    format!("{name}: {} byte input the reference {} ({:?}; {})", if got { "accepts" } else { "does not accept" }, if exp == Expect::Accept { "accepts" } else { "rejects" }, exp, o.brief()),
                                    bytes_case(bytes, strict, name),
                                );
                            }
                            t.nontrivial(&bytes);
                        }
                        Mode::C07 => {
                            if exp != Expect::Accept {
                                t.nontrivial(&bytes);
                                if let Err(e) = check(&o, &exp, bytes) {
                                    t.violation("", format!("{name}: {e}"), bytes_case(bytes, strict, name));
                                }
                            }
                        }
                        Mode::C02 | Mode::C05 => {
                            if exp == Expect::Accept {
                                let text = std::str::from_utf8(bytes).unwrap();
                                if let (Ok(doc), Out::Ok(v, map)) = (decode(text), &o) {
                                    t.nontrivial(&bytes);
                                    let r = if self.mode == Mode::C02 { check_value(v, &doc) } else { check_map(v, map, &doc, bytes.len()) };
                                    if let Err(e) = r {
                                        t.violation("", format!("{name}: {e}"), bytes_case(bytes, strict, name));
                                    }
                                }
                            }
                        }
                        _ => {}
                    }
                }
                // valid UTF-8: the string entry point must agree with the slice entry point
                if let (Mode::C01, Ok(text)) = (self.mode, std::str::from_utf8(bytes)) {
                    let a = str_entry(text, STRICT);
                    let b = slice_entry_default(bytes);
                    t.evals += 1;
                    if matches!(a, Out::Ok(..)) != matches!(b, Out::Ok(..)) {
                        t.violation("", "parse_str and parse_slice give different verdicts on the same text".to_string(), bytes_case(bytes, strict, "parse_str"));
                    }
                }
            }
        }
    }
}

// ---------------------------------------------------------------------------------------------
// tree scheduling: iterate the depth upward inside the time budget and report the largest
// depth completed

pub struct TreePlan {
    pub spec: TreeSpec,
    /// guaranteed minimum depth (always completed, whatever it costs)
    pub min_depth: usize,
    /// maximum depth to attempt
    pub max_depth: usize,
    /// depth of the pass with one wide deviation (0 = none)
    pub wide_depth: usize,
    pub max_dev: usize,
    pub horizon: usize,
    /// share of the budget (seconds)
    pub share: f64,
}

pub fn run_tree(rep: &mut Report, plan: &TreePlan, prune: (bool, bool), vis: &TextVisitor) {
    let t_start = std::time::Instant::now();
    let far = Budget::new(100_000);
    let mut done_depth = 0;
    let mut last: Option<(Tally, f64)> = None;
    let mut d = plan.min_depth;
    let mut prev_states = 0u64;
    while d <= plan.max_depth {
        let t0 = std::time::Instant::now();
        let budget = if d == plan.min_depth { far } else { Budget::new((plan.share - t_start.elapsed().as_secs_f64()).max(1.0) as u64) };
        let cfg = WalkCfg {
            depth: d,
            max_dev: 0,
            horizon: plan.horizon,
            prune,
        };
        let (t, complete) = walk(&plan.spec, cfg, budget, &|n, t| vis.visit(n, t));
        let secs = t0.elapsed().as_secs_f64();
        if !complete {
            rep.note(format!("{}: depth {d} not completed within the time share ({} nodes explored, discarded); largest completed depth {done_depth}", plan.spec.name, t.states));
            break;
        }
        let states = t.states;
        let had_violation = t.violation_count > 0;
        last = Some((t, secs));
        done_depth = d;
        if had_violation {
            break;
        }
        // estimate the next depth from the observed growth
        let growth = if prev_states > 0 { states as f64 / prev_states as f64 } else { plan.spec.alphabet.len() as f64 / 2.0 };
        prev_states = states;
        let remaining = plan.share - t_start.elapsed().as_secs_f64();
        if secs * growth.max(1.5) > remaining {
            break;
        }
        d += 1;
    }
    if let Some((t, secs)) = last {
        let mut t = t;
        t.sample(json!({"tree": plan.spec.name, "depth_completed": done_depth, "nodes": t.states, "wall_s": secs, "roots": plan.spec.roots, "alphabet": plan.spec.alphabet}));
        rep.bounds[plan.spec.name] = json!({"depth_completed": done_depth, "min_depth": plan.min_depth, "nodes": t.states, "post_mortem_horizon": plan.horizon, "wall_s": secs});
        rep.absorb(t);
    }
    // the deviation pass: at most `max_dev` wide symbols per input
    if plan.wide_depth > 0 && plan.max_dev > 0 && !plan.spec.wide.is_empty() {
        let t0 = std::time::Instant::now();
        let cfg = WalkCfg {
            depth: plan.wide_depth,
            max_dev: plan.max_dev,
            horizon: plan.horizon,
            prune,
        };
        let (t, complete) = walk(&plan.spec, cfg, far, &|n, t| vis.visit(n, t));
        assert!(complete);
        rep.bounds[format!("{}+wide", plan.spec.name)] =
            json!({"depth_completed": plan.wide_depth, "max_wide_symbols_per_input": plan.max_dev, "wide_alphabet": plan.spec.wide.len(), "nodes": t.states, "wall_s": t0.elapsed().as_secs_f64()});
        rep.absorb(t);
    }
}

/// The standard tree plans for a tier; `scale` stretches every time share.
/// Quick-tier depths are fixed per property and tree (the depths a 16-core machine completes
/// in 1-4 s each), so that a quick run explores the same nodes on every machine and its
/// evidence is reproducible; the time share only matters in the thorough tier, where the depth
/// is iterated upward.
fn quick_depth(mode: Mode, tree: &str) -> Option<usize> {
    let d = match (mode, tree) {
        (Mode::C01 | Mode::C07 | Mode::C03, "T-struct") => 7,
        (Mode::C01 | Mode::C07 | Mode::C03, "T-mixed") => 6,
        (Mode::C01 | Mode::C07 | Mode::C03, "T-num") => 6,
        (Mode::C01 | Mode::C07, "T-str") => 5,
        (Mode::C03, "T-str") => 4,
        (Mode::C01 | Mode::C07 | Mode::C03, "T-tok") => 6,
        (Mode::C02, "T-struct") => 8,
        (Mode::C02, "T-mixed") => 7,
        (Mode::C02, "T-num") => 9,
        (Mode::C02, "T-str") => 5,
        (Mode::C02, "T-tok") => 9,
        (Mode::C05, "T-struct") => 8,
        (Mode::C05, "T-mixed") => 7,
        (Mode::C05, "T-str") => 5,
        (Mode::C05, "T-tok") => 8,
        (Mode::C12, "T-struct") => 7,
        (Mode::C12, "T-mixed") => 6,
        (Mode::C12, "T-num") => 7,
        (Mode::C12, "T-str") => 5,
        (Mode::C12, "T-tok") => 7,
        (_, "T-lit") => 8,
        (_, "T-sur") => 6,
        _ => return None,
    };
    Some(d)
}

pub fn plans(tier: Tier, which: &[&str], scale: f64, mode: Mode) -> Vec<TreePlan> {
    let q = tier == Tier::Quick;
    let mut v = Vec::new();
    let mut add = |spec: TreeSpec, min: usize, max: usize, wide: usize, dev: usize, share: f64| {
        let (min, max) = match (q, quick_depth(mode, spec.name)) {
            (true, Some(d)) => (d, d),
            _ => (min, max),
        };
        if which.contains(&spec.name) {
            v.push(TreePlan {
                spec,
                min_depth: min,
                max_depth: max,
                wide_depth: wide,
                max_dev: dev,
                horizon: 2,
                share: share * scale,
            });
        }
    };
    if q {
        add(t_struct(), 5, 10, 4, 1, 6.0);
        add(t_mixed(), 4, 8, 3, 1, 6.0);
        add(t_num(), 5, 9, 4, 1, 5.0);
        add(t_lit(), 5, 8, 4, 1, 3.0);
        add(t_str(), 3, 7, 3, 1, 6.0);
        add(t_sur(), 3, 6, 0, 0, 4.0);
        add(t_tok(), 4, 9, 0, 0, 6.0);
    } else {
        add(t_struct(), 7, 12, 5, 2, 100.0);
        add(t_mixed(), 6, 10, 4, 2, 100.0);
        add(t_num(), 7, 11, 4, 2, 80.0);
        add(t_lit(), 6, 10, 4, 2, 40.0);
        add(t_str(), 5, 8, 3, 2, 100.0);
        add(t_sur(), 4, 7, 0, 0, 60.0);
        add(t_tok(), 6, 10, 0, 0, 100.0);
    }
    v
}

// ---------------------------------------------------------------------------------------------
// complete finite families

/// X-all: every `\uXXXX` (lower and upper case hex), every high x low pair, every scalar value
/// as a raw character, every backslash + ASCII pair — in value and (sampled) key position.
pub fn x_all(rep: &mut Report, mode: Mode, tier: Tier) {
    // 1. all 65 536 code units, both hex cases, value position and key position
    let units: Vec<u32> = (0..0x10000u32).collect();
    let t = explore::par_tally(units.chunks(256).map(|c| c.to_vec()).collect(), |chunk, t| {
        for u in chunk {
            for upper in [false, true] {
                let esc = if upper { format!("\\u{:04X}", u) } else { format!("\\u{:04x}", u) };
                for text in [format!("\"{esc}\""), format!("{{\"{esc}\":\"{esc}\"}}")] {
                    x_case(&text, mode, t);
                }
            }
        }
        t.outcome_n("x-all:units", 0);
    });
    rep.absorb(t);
    // 1b. the *edges of the hex-digit class*: each of the four digits of an escape replaced by the
    // characters just outside '0'-'9', 'A'-'F', 'a'-'f' ('/', ':', '@', 'G', '`', 'g'), by other
    // letters, by digits of other scripts and full-width forms, by the characters that end or
    // continue a string - a digit test written with the wrong radix or with `is_alphanumeric`
    // accepts some of them
    {
        let outsiders = ['/', ':', '@', 'G', '`', 'g', 'h', 'z', 'Z', 'x', 'u', ' ', '"', '\\', '-', '+', '.', '\u{e9}', '\u{663}', '\u{ff11}', '\u{ff21}', '\u{ff46}', '\u{1d7ce}'];
        let mut t = Tally::new();
        for base in ["0041", "d83d", "DFFF", "00e9", "ffff"] {
            for pos in 0..4 {
                for c in outsiders {
                    let mut digits: Vec<char> = base.chars().collect();
                    digits[pos] = c;
                    let esc: String = digits.into_iter().collect();
                    for text in [format!("\"\\u{esc}\""), format!("{{\"\\u{esc}\":0}}"), format!("[\"a\\u{esc}\\u0041\"]")] {
                        x_case(&text, mode, &mut t);
                    }
                }
            }
        }
        t.outcome_n("x-all:hex class edges", 0);
        rep.absorb(t);
    }
    // 1c. the edges of every other character class of the grammar: in a dozen short documents each
    // character in turn is replaced by its two neighbours in code-point order, by its other
    // case, and by look-alikes (no-break and other Unicode spaces, vertical tab and form feed for
    // whitespace; full-width and other-script digits, letters and punctuation)
    {
        let bases = ["-12.50e+3", "0.5E-7", "10", "true", "false", "null", " [ 1 , 2 ] ", "\t{\n\"a\" : 1\r}", "[true,false,null]", "\"a\\n\\\"b\"", "{\"k\":[]}", "-0"];
        let lookalikes = ['\u{a0}', '\u{b}', '\u{c}', '\u{85}', '\u{2028}', '\u{3000}', '\u{feff}', '\u{ff10}', '\u{ff11}', '\u{661}', '\u{ff0d}', '\u{2212}', '\u{ff0b}', '\u{ff0e}', '\u{ff45}', '\u{ff3b}', '\u{ff5b}', '\u{ff1a}', '\u{ff0c}', '\u{201c}', '\u{ff02}', '\u{2044}'];
        let mut t = Tally::new();
        for base in bases {
            let chars: Vec<char> = base.chars().collect();
            for pos in 0..chars.len() {
                let c = chars[pos];
                let mut subs: Vec<char> = Vec::new();
                for d in [-1i32, 1] {
                    if let Some(n) = char::from_u32((c as i32 + d) as u32) {
                        subs.push(n);
                    }
                }
                if c.is_ascii_alphabetic() {
                    subs.push(if c.is_ascii_lowercase() { c.to_ascii_uppercase() } else { c.to_ascii_lowercase() });
                }
                subs.extend(lookalikes);
                for sub in subs {
                    let mut v = chars.clone();
                    v[pos] = sub;
                    let text: String = v.into_iter().collect();
                    x_case(&text, mode, &mut t);
                }
            }
        }
        t.outcome_n("x-all:character class edges", 0);
        rep.absorb(t);
    }
    // 2. all 1 048 576 high x low pairs
    let highs: Vec<u32> = (0xD800..0xDC00u32).collect();
    let t = explore::par_tally(highs, |h, t| {
        for l in 0xDC00..0xE000u32 {
            let text = format!("\"\\u{:04x}\\u{:04X}\"", h, l);
            x_case(&text, mode, t);
        }
    });
    rep.absorb(t);
    // 2b. an escape next to *every* other escape: three high and two low surrogate escapes (and
    // an ordinary one), each followed and preceded by all 65 536 code units - the classification
    // of the second escape, whatever it is, while a surrogate is pending
    let units: Vec<u32> = (0..0x10000u32 / 0x100).collect();
    let t = explore::par_tally(units, |hi8, t| {
        for lo8 in 0..0x100u32 {
            let x = (hi8 << 8) | lo8;
            for fixed in [0xD800u32, 0xD83D, 0xDBFF, 0xDC00, 0xDFFF, 0x0041] {
                let text = format!("\"\\u{fixed:04X}\\u{x:04x}\"");
                x_case(&text, mode, t);
                let text = format!("\"\\u{x:04X}\\u{fixed:04x}z\"");
                x_case(&text, mode, t);
            }
        }
    });
    rep.absorb(t);
    // 3. all 1 112 064 scalar values as a raw character
    let planes: Vec<u32> = (0..0x110000u32 / 0x400).collect();
    let t = explore::par_tally(planes, |p, t| {
        for cp in p * 0x400..(p + 1) * 0x400 {
            if let Some(c) = char::from_u32(cp) {
                let text = format!("\"{c}\"");
                x_case(&text, mode, t);
                if tier == Tier::Thorough || cp % 64 == 0 || cp < 0x800 {
                    let text = format!("{{\"{c}\":[\"{c}{c}\"]}}");
                    x_case(&text, mode, t);
                }
            }
        }
    });
    rep.absorb(t);
    // 4. all backslash + ASCII pairs
    let mut t = Tally::new();
    for b in 0u8..128 {
        let text = format!("\"\\{}\"", b as char);
        x_case(&text, mode, &mut t);
    }
    rep.absorb(t);
    rep.bounds["X-all"] = json!({"code_units": 65536, "hex_cases": 2, "surrogate_pairs": 1048576, "escape_next_to_every_escape": 6 * 2 * 65536, "raw_scalars": 1112064, "backslash_ascii": 128, "complete": true});
}

fn x_case(text: &str, mode: Mode, t: &mut Tally) {
    let strict = (false, false);
    let exp = expect_text(text, strict);
    t.outcome(exp.class());
    match mode {
        Mode::C02 => {
            if exp != Expect::Accept {
                return;
            }
            let doc = match decode(text) {
                Ok(d) => d,
                Err(_) => {
                    t.violation("MACHINERY-ref", "R-dec rejects what R-pda accepts".to_string(), json!({"text": text}));
                    return;
                }
            };
            for (name, o) in [("parse_str", str_entry(text, STRICT)), ("parse_slice", slice_entry_default(text.as_bytes()))] {
                t.evals += 1;
                if let Out::Ok(v, _) = &o {
                    if let Err(e) = check_value(v, &doc) {
                        t.violation("", format!("{name}: {e}"), text_case(text, strict, name));
                    }
                }
            }
            t.nontrivial(&text);
        }
        Mode::C01 | Mode::C07 => {
            for (name, o) in [("parse_str", str_entry(text, STRICT)), ("parse_slice", slice_entry_default(text.as_bytes()))] {
                t.evals += 1;
                let r = if mode == Mode::C07 {
                    if exp == Expect::Accept {
                        Ok(())
                    } else {
                        check(&o, &exp, text.as_bytes())
                    }
                } else if matches!(o, Out::Ok(..)) == (exp == Expect::Accept) && !matches!(o, Out::Broken(_)) {
                    Ok(())
                } else {
                    Err(format!("verdict differs: expected {exp:?}, observed {}", o.brief()))
                };
                if let Err(e) = r {
                    t.violation("", format!("{name}: {e}"), text_case(text, strict, name));
                }
            }
            t.nontrivial(&text);
        }
        Mode::C12 => {
            let doc = decode(text).ok();
            for rec in RECORDS {
                let exp = expect_text(text, rec);
                let o = str_entry(text, options(rec.0, rec.1));
                t.evals += 1;
                if let Err(e) = check(&o, &exp, text.as_bytes()) {
                    t.violation("", format!("parse_str_with under {rec:?}: {e}"), text_case(text, rec, "parse_str_with"));
                } else if let (Out::Ok(v, _), Some(d)) = (&o, &doc) {
                    if bridge::from_value(v) != d.value {
                        t.violation("", format!("parse_str_with under {rec:?}: decoded {} but the reference decodes {}", bridge::from_value(v).show(), d.value.show()), text_case(text, rec, "parse_str_with"));
                    }
                }
            }
            t.nontrivial(&text);
        }
        Mode::C03 => {
            for rec in RECORDS {
                let o = str_entry(text, options(rec.0, rec.1));
                t.evals += 1;
                if let Out::Broken(w) = o {
                    t.violation("", format!("parse_str_with under {rec:?} did not return: {w}"), text_case(text, rec, "parse_str_with"));
                }
            }
        }
        Mode::C05 => {}
    }
}

/// U-all: every byte sequence of length 1..=3 (and, thorough, every 4-byte sequence with a
/// lead byte 0xF0..=0xFF; quick: 11 boundary values per trailing byte), inside a string and
/// at top level.
pub fn u_all(rep: &mut Report, mode: Mode, tier: Tier, top_level_full: bool) {
    let vis = ByteVisitor { mode };
    let firsts: Vec<u32> = (0..256u32).collect();
    // inside a string: " + seq + "
    let t = explore::par_tally(firsts.clone(), |a, t| {
        let a = a as u8;
        let mut buf = vec![b'"', a, b'"'];
        vis.visit(&buf, t);
        // lengths 2 and 3
        for b in 0..=255u8 {
            buf = vec![b'"', a, b, b'"'];
            vis.visit(&buf, t);
            if a < 0x80 && b < 0x80 && !(a == b'\\' || b == b'\\' || a == b'"' || b == b'"') && tier == Tier::Quick {
                // two ASCII characters followed by anything: covered by the one- and two-byte cases
                continue;
            }
            for c in 0..=255u8 {
                let buf = [b'"', a, b, c, b'"'];
                vis.visit(&buf, t);
            }
        }
    });
    rep.absorb(t);
    // 4-byte sequences with lead F0..FF
    let trail: Vec<u8> = if tier == Tier::Thorough { (0..=255u8).collect() } else { vec![0x00, 0x22, 0x7F, 0x80, 0x8F, 0x90, 0x9F, 0xA0, 0xBF, 0xC0, 0xFF] };
    let leads: Vec<u32> = (0xF0..=0xFFu32).collect();
    let t = explore::par_tally(leads.iter().flat_map(|&l| trail.iter().map(move |&b| (l as u8, b))).collect::<Vec<_>>(), |(l, b), t| {
        for &c in &trail {
            for &d in &trail {
                let buf = [b'"', l, b, c, d, b'"'];
                vis.visit(&buf, t);
                let buf = [b'[', b'"', b'a', l, b, c, d, b'b', b'"', b']'];
                vis.visit(&buf, t);
            }
        }
    });
    rep.absorb(t);
    // at top level: every byte string of length <= 3 (full) or <= 2 plus boundary third bytes
    let t = explore::par_tally(firsts, |a, t| {
        let a = a as u8;
        vis.visit(&[a], t);
        for b in 0..=255u8 {
            vis.visit(&[a, b], t);
            if top_level_full {
                for c in 0..=255u8 {
                    vis.visit(&[a, b, c], t);
                }
            } else {
                for &c in &[0x00u8, b' ', b'"', b'1', b']', 0x7F, 0x80, 0xBF, 0xC0, 0xE0, 0xFF] {
                    vis.visit(&[a, b, c], t);
                }
            }
        }
    });
    rep.absorb(t);
    rep.bounds["U-all"] = json!({"in_string": "all byte sequences of length 1..3", "four_byte_trailing_values": trail.len(), "top_level_len3_full": top_level_full});
}

/// T-byte: the byte-alphabet tree through `parse_slice`.
pub fn t_byte(rep: &mut Report, mode: Mode, depth: usize) {
    let vis = ByteVisitor { mode };
    let (t, complete) = walk_bytes(&t_byte_alphabet(), &[b']', b'"', b'x', 0xFF], depth, 2, Budget::new(100_000), &|n: &ByteNode, t: &mut Tally| vis.visit(n.bytes, t));
    assert!(complete);
    rep.bounds["T-byte"] = json!({"depth_completed": depth, "alphabet_bytes": t_byte_alphabet().len(), "nodes": t.states});
    rep.absorb(t);
}

/// T-corpus: the small files of tests/inputs as non-initial states: every truncation and
/// every single-byte substitution (all 256 values) at every offset.
pub fn t_corpus(rep: &mut Report, mode: Mode, tier: Tier) {
    let vis = ByteVisitor { mode };
    let repo = std::env::var("VERIF_REPO").unwrap_or_else(|_| "/repo".into());
    let dir_buf = std::path::PathBuf::from(repo).join("tests/inputs");
    let dir = dir_buf.as_path();
    let mut files: Vec<(String, Vec<u8>)> = Vec::new();
    if let Ok(rd) = std::fs::read_dir(dir) {
        for e in rd.flatten() {
            if let Ok(b) = std::fs::read(e.path()) {
                if b.len() <= 600 {
                    files.push((e.file_name().to_string_lossy().to_string(), b));
                }
            }
        }
    }
    files.sort();
    if files.is_empty() {
        rep.note("T-corpus: tests/inputs of the repository not readable; family skipped");
        return;
    }
    let nfiles = files.len();
    let subst: Vec<u8> = if tier == Tier::Thorough { (0..=255u8).collect() } else { vec![0x00, b' ', b'"', b'\\', b',', b':', b'[', b']', b'{', b'}', b'0', b'e', b'-', b'u', 0x7F, 0x80, 0xBF, 0xC0, 0xE0, 0xED, 0xF4, 0xFF] };
    let t = explore::par_tally(files, |(_name, b), t| {
        vis.visit(&b, t);
        for cut in 0..b.len() {
            vis.visit(&b[..cut], t);
        }
        let mut m = b.clone();
        for i in 0..b.len() {
            let orig = m[i];
            for &x in &subst {
                if x != orig {
                    m[i] = x;
                    vis.visit(&m, t);
                }
            }
            m[i] = orig;
        }
        // insertions: one byte inserted at every offset (whitespace in every gap of a realistic
        // document must be accepted; anything else is judged by the reference)
        let ins: &[u8] = if subst.len() > 64 { &subst } else { &[b' ', b'\n', b'\t', b'\r', b',', b':', b'"', b'0', b'x', b'\\', 0x00, 0x0B, 0x0C, 0xA0, 0xC2, 0xEF, 0xFF] };
        let mut m: Vec<u8> = Vec::with_capacity(b.len() + 1);
        for i in 0..=b.len() {
            for &x in ins {
                m.clear();
                m.extend_from_slice(&b[..i]);
                m.push(x);
                m.extend_from_slice(&b[i..]);
                vis.visit(&m, t);
            }
        }
        // deletions: one byte removed at every offset
        for i in 0..b.len() {
            m.clear();
            m.extend_from_slice(&b[..i]);
            m.extend_from_slice(&b[i + 1..]);
            vis.visit(&m, t);
        }
        t.states += 1;
    });
    rep.bounds["T-corpus"] = json!({"files": nfiles, "substitution_values_per_offset": subst.len(), "edits": "every truncation, every single-byte substitution, every single-byte insertion (17 values quick / 256 thorough) and every single-byte deletion at every offset"});
    rep.absorb(t);
}

/// Strings and numbers pushed through the inline -> heap spill: every length 0..40 of
/// 1-, 2-, 3-, 4-byte characters; numbers of 1..40 digits (C02).
pub fn spill_family(rep: &mut Report, mode: Mode) {
    let mut t = Tally::new();
    for c in ['a', '\u{e9}', '\u{20ac}', '\u{1f600}'] {
        for len in 0..=40 {
            let s: String = std::iter::repeat(c).take(len).collect();
            for text in [format!("\"{s}\""), format!("{{\"{s}\":\"{s}\",\"{s}\":1}}"), format!("[\"{s}\",\"x{s}\"]")] {
                x_case_struct(&text, mode, &mut t);
            }
        }
    }
    for len in 1..=40 {
        let digits: String = (0..len).map(|i| char::from(b'1' + (i % 9) as u8)).collect();
        for text in [digits.clone(), format!("-{digits}"), format!("0.{digits}"), format!("[{digits}e{digits}]"), format!("{{\"k\":-{digits}.{digits}E-{digits}}}")] {
            x_case_struct(&text, mode, &mut t);
        }
    }
    rep.bounds["spill-family"] = json!({"string_lengths": "0..=40 of 1-,2-,3-,4-byte characters", "number_digits": "1..=40"});
    rep.absorb(t);
}

fn x_case_struct(text: &str, mode: Mode, t: &mut Tally) {
    let doc = match decode(text) {
        Ok(d) => d,
        Err(_) => {
            t.violation("MACHINERY-ref", "spill family text is not valid".to_string(), json!({"text": text}));
            return;
        }
    };
    t.outcome("spill");
    let mut entries = vec![("parse_utf8_with(observed)", observed(text, STRICT).0)];
    if text.len() <= 256 {
        t.evals += 4;
        if let Err(e) = slice_alignment_sweep(text.as_bytes(), STRICT, &slice_entry(text.as_bytes(), STRICT)) {
            t.violation("", e, text_case(text, (false, false), "parse_slice_with"));
        }
    }
    if text.len() <= 4096 {
        entries.extend(all_strict_text_entry_points(text));
    } else {
        entries.push(("parse_str", str_entry(text, STRICT)));
        entries.push(("parse_slice", slice_entry_default(text.as_bytes())));
    }
    for (name, o) in entries {
        t.evals += 1;
        match &o {
            Out::Ok(v, map) => {
                let r = match mode {
                    Mode::C02 => check_value(v, &doc),
                    Mode::C05 if name == "FromStr" => Ok(()),
                    Mode::C05 => check_map(v, map, &doc, text.len()),
                    _ => Ok(()),
                };
                if let Err(e) = r {
                    t.violation("", format!("{name}: {e}"), text_case(text, (false, false), name));
                }
            }
            other => t.violation("", format!("{name}: valid text rejected: {}", other.brief()), text_case(text, (false, false), name)),
        }
    }
    t.nontrivial(&text);
}

/// Strings and keys beyond a megabyte, *followed by other strings* (C02, C05): a scratch buffer
/// that is reused between strings and trimmed above some size limit has its boundary far above
/// the pumped families (65 537); the document after the long string is what shows a stale buffer.
pub fn huge_strings(rep: &mut Report, mode: Mode) {
    let mut t = Tally::new();
    let sizes = [(1usize << 20) - 1, 1 << 20, (1 << 20) + 1, (1 << 21) + 3];
    for n in sizes {
        for unit in ["a", "\u{e9}", "\\n"] {
            let body = unit.repeat(n / unit.len().min(2).max(1));
            for doc in [format!("[\"{body}\",\"b\",{{\"k\":\"v\"}}]"), format!("{{\"{body}\":\"first\",\"x\":\"y\",\"z\":[\"w\"]}}"), format!("[\"p\",\"{body}\",\"q\",\"{body}\",\"r\"]")] {
                x_case_struct(&doc, mode, &mut t);
            }
        }
    }
    t.outcome("huge strings followed by other strings");
    rep.bounds["huge_strings"] = json!({"string_lengths": sizes, "string_kinds": ["ASCII", "two-byte characters", "escapes"], "documents_per_length_and_kind": 3});
    rep.absorb(t);
}

/// Objects with every pattern of duplicated keys (C02, C05): every value with at most N nodes
/// over one leaf and the keys {a, b}; every second occurrence of a key is spelled with a
/// \u escape, so that lookups and deduplication are seen to act on decoded keys.
pub fn duplicate_key_family(rep: &mut Report, mode: Mode, tier: Tier) {
    use refmodel::value::Gen;
    let leaves = [RV::num("0")];
    let keys = ["a", "b"];
    let n = tier.pick(6, 7);
    let g = Gen::new(&leaves, &keys, n);
    let vals = g.up_to(n);
    let count = vals.len();
    fn render(v: &RV, out: &mut String, flip: &mut bool) {
        match v {
            RV::Arr(a) => {
                out.push('[');
                for (i, x) in a.iter().enumerate() {
                    if i > 0 {
                        out.push_str(", ");
                    }
                    render(x, out, flip);
                }
                out.push(']');
            }
            RV::Obj(o) => {
                out.push('{');
                for (i, (k, x)) in o.iter().enumerate() {
                    if i > 0 {
                        out.push(',');
                    }
                    *flip = !*flip;
                    if *flip {
                        out.push_str(&format!("\"\\u00{:02x}\" :", k.as_bytes()[0]));
                    } else {
                        out.push_str(&format!("\"{k}\":"));
                    }
                    render(x, out, flip);
                }
                out.push('}');
            }
            other => out.push_str(&other.show()),
        }
    }
    let t = explore::par_tally(vals.chunks(128).map(|c| c.to_vec()).collect(), |chunk, t| {
        for v in chunk {
            let mut text = String::new();
            render(&v, &mut text, &mut false);
            x_case_struct(&text, mode, t);
            if let Ok(d) = decode(&text) {
                if d.value != v {
                    t.violation("MACHINERY-gen", "duplicate-key family: rendered text does not decode to the generated value".to_string(), json!({"text": text}));
                }
            }
        }
    });
    rep.bounds["duplicate-key-family"] = json!({"values": count, "max_nodes": n, "keys": keys, "spelling": "every second key occurrence escaped as \\u00XX"});
    rep.absorb(t);
}

/// Pumped linear families (refmodel::pump): strings, keys, numbers, arrays, objects with
/// distinct / duplicated keys pushed through the size thresholds (16, 2^k +- 1 up to 65 537),
/// compact and pretty renderings, plus long whitespace runs and damaged variants.
pub fn pump_family(rep: &mut Report, mode: Mode, tier: Tier) {
    let all = refmodel::pump::all(tier == Tier::Thorough);
    let count = all.len();
    let t = explore::par_tally(all, |(fam, n, v), t| {
        let compact = refmodel::print::compact(&v);
        let texts = if compact.len() < 300_000 { vec![compact.clone(), refmodel::print::print(&v, &refmodel::print::Opts::pretty())] } else { vec![compact.clone()] };
        for text in &texts {
            match mode {
                Mode::C02 | Mode::C05 => x_case_struct(text, mode, t),
                Mode::C01 | Mode::C07 | Mode::C03 => {
                    // the intact document, the document cut one byte short, and with one byte appended
                    let mut variants: Vec<String> = vec![text.clone()];
                    let mut cut = text.clone();
                    cut.pop();
                    variants.push(cut);
                    variants.push(format!("{text}]"));
                    variants.push(format!("{text} \n"));
                    for d in variants {
                        let exp = expect_text(&d, (false, false));
                        for (name, o) in [("parse_str", str_entry(&d, STRICT)), ("parse_slice", slice_entry_default(d.as_bytes()))] {
                            t.evals += 1;
                            let r = match mode {
                                Mode::C07 => {
                                    if exp == Expect::Accept {
                                        Ok(())
                                    } else {
                                        check(&o, &exp, d.as_bytes())
                                    }
                                }
                                Mode::C03 => match &o {
                                    Out::Broken(w) => Err(format!("did not return: {w}")),
                                    _ => Ok(()),
                                },
                                _ => {
                                    if matches!(o, Out::Ok(..)) == (exp == Expect::Accept) && !matches!(o, Out::Broken(_)) {
                                        Ok(())
                                    } else {
                                        Err(format!("verdict differs: expected {exp:?}, observed {}", o.class()))
                                    }
                                }
                            };
                            if let Err(e) = r {
                                let shown: String = d.chars().take(60).collect();
                                t.violation("", format!("{name} on pumped {fam:?}({n}): {e}"), json!({"kind": "pump-doc", "family": format!("{fam:?}"), "n": n, "starts": shown, "len": d.len()}));
                            }
                        }
                    }
                }
                _ => {}
            }
        }
        t.nontrivial(&(format!("{fam:?}"), n));
        t.outcome(&format!("pumped:{fam:?}"));
    });
    // errors and surrogate escapes far into a long string: offsets beyond the inline capacity
    // and beyond u8 / u16 ranges
    let cap = if tier == Tier::Thorough { 65537 } else { 4097 };
    let t3 = explore::par_tally(refmodel::pump::thresholds(cap), |n, t| {
        let a = "a".repeat(n);
        let e = "\u{e9}".repeat(n / 2);
        let mut texts: Vec<Vec<u8>> = Vec::new();
        for body in [&a, &e] {
            for tail in [
                "\u{1}", "\\q", "\\u12", "\\uD800", "\\uDC00x", "\\uD800\\uDC00", "\\uD800\\uD800\\uDC00", "\\uD800\\n", "\n", "\\uD800b", "\\uD800b\\uDC00", "\\uDBFF\u{e9}c", "\\uD834x\\uDD1E", "b\\uDC00\\uD800",
            ] {
                texts.push(format!("\"{body}{tail}\"").into_bytes());
                texts.push(format!("{{\"{body}{tail}\":[\"{tail}{body}\"]}}").into_bytes());
            }
            // ill-formed UTF-8 after n well-formed bytes
            for bad in [&[0xFFu8][..], &[0xC0, 0x80], &[0xED, 0xA0, 0x80], &[0xE2, 0x82]] {
                let mut b = format!("[\"{body}").into_bytes();
                b.extend_from_slice(bad);
                b.extend_from_slice(b"\"]");
                texts.push(b);
                // two defects in one long input, in both orders and at both ends: the first one
                // must be reported (whole-input pre-validation reports the ill-formed byte even
                // when a syntax error comes first)
                let mut b = format!("[\"{body}\" x, \"").into_bytes();
                b.extend_from_slice(bad);
                b.extend_from_slice(b"\"]");
                texts.push(b);
                let mut b = b"[1 \x01, \"".to_vec();
                b.extend_from_slice(body.as_bytes());
                b.extend_from_slice(bad);
                b.extend_from_slice(b"\"]");
                texts.push(b);
                let mut b = b"[\"".to_vec();
                b.extend_from_slice(bad);
                b.extend_from_slice(format!("{body}\", x]").as_bytes());
                texts.push(b);
                let mut b = format!("[\"{body}\u{1}").into_bytes();
                b.extend_from_slice(bad);
                b.extend_from_slice(b"\"]");
                texts.push(b);
            }
        }
        for b in texts {
            match std::str::from_utf8(&b) {
                Ok(text) if mode == Mode::C12 || mode == Mode::C02 => x_case(text, mode, t),
                _ => {
                    let recs: &[(bool, bool)] = if mode == Mode::C12 { &RECORDS } else { &[(false, false)] };
                    for &rec in recs {
                        let exp = expect_bytes(&b, rec);
                        let o = slice_entry(&b, options(rec.0, rec.1));
                        t.evals += 1;
                        let r = match mode {
                            Mode::C01 => {
                                if matches!(o, Out::Ok(..)) == (exp == Expect::Accept) && !matches!(o, Out::Broken(_)) {
                                    Ok(())
                                } else {
                                    Err(format!("verdict differs: expected {exp:?}, observed {}", o.class()))
                                }
                            }
                            Mode::C03 => match &o {
                                Out::Broken(w) => Err(format!("did not return: {w}")),
                                _ => Ok(()),
                            },
                            Mode::C05 => Ok(()),
                            _ => check(&o, &exp, &b),
                        };
                        if let Err(e) = r {
                            t.violation("", format!("long string ({n} characters) then a fault: {e}"), json!({"kind": "pump-fault", "n": n, "tail": String::from_utf8_lossy(&b[b.len().saturating_sub(24)..]), "len": b.len()}));
                        }
                    }
                }
            }
        }
        t.nontrivial(&("fault-after", n));
        t.outcome("pumped:fault after a long prefix");
    });
    rep.absorb(t3);
    // long whitespace runs at every token boundary of a small document
    let mut t2 = Tally::new();
    let toks = ["[", "1", ",", "{", "\"a\"", ":", "\"b\"", "}", "]"];
    for n in refmodel::pump::thresholds(if tier == Tier::Thorough { 65537 } else { 4097 }) {
        if n < 2 {
            continue;
        }
        for pos in 0..=toks.len() {
            for ws in [" ", "\n", "\t", "\r"] {
                let mut text = String::new();
                for (i, tk) in toks.iter().enumerate() {
                    if i == pos {
                        text.push_str(&ws.repeat(n));
                    }
                    text.push_str(tk);
                }
                if pos == toks.len() {
                    text.push_str(&ws.repeat(n));
                }
                match mode {
                    Mode::C02 | Mode::C05 => x_case_struct(&text, mode, &mut t2),
                    _ => {
                        let exp = expect_text(&text, (false, false));
                        let o = slice_entry_default(text.as_bytes());
                        t2.evals += 1;
                        if matches!(o, Out::Ok(..)) != (exp == Expect::Accept) {
                            t2.violation("", format!("whitespace run of {n} x {ws:?} at boundary {pos}: verdict differs"), json!({"kind": "pump-ws", "n": n, "pos": pos}));
                        }
                    }
                }
            }
        }
    }
    rep.bounds["pumped-families"] = json!({"values": count, "families": refmodel::pump::FAMILIES.iter().map(|f| format!("{f:?}")).collect::<Vec<_>>(), "thresholds": "0..=40 and 2^k +- 1 up to the family's cap (65 537 for strings / arrays in the thorough tier)", "renderings": ["compact", "pretty"], "whitespace_runs": "every threshold >= 2 at each of 10 token boundaries x 4 whitespace characters"});
    rep.absorb(t);
    rep.absorb(t2);
}

/// Whitespace variants between any two tokens (C05): documents from a small token grammar
/// with each of the four JSON whitespace characters inserted at every token boundary.
pub fn whitespace_family(rep: &mut Report, mode: Mode) {
    let docs: [&[&str]; 12] = [
        &["{", "\"a\"", ":", "{", "\"b\"", ":", "1", "}", "}"],
        &["{", "\"a\"", ":", "{", "\"b\"", ":", "[", "1", "]", "}", ",", "\"c\"", ":", "[", "{", "\"d\"", ":", "2", "}", "]", "}"],
        &["[", "{", "\"a\"", ":", "[", "1", ",", "2", "]", "}", ",", "[", "[", "3", "]", "]", "]"],
        &["{", "\"k\"", ":", "\"v\"", ",", "\"k\"", ":", "-0.5e1", ",", "\"l\"", ":", "null", "}"],
        &["[", "]"],
        &["{", "}"],
        &["[", "1", ",", "\"a\"", "]"],
        &["{", "\"a\"", ":", "1", "}"],
        &["{", "\"a\"", ":", "[", "]", ",", "\"\u{e9}\"", ":", "{", "}", "}"],
        &["[", "[", "null", "]", ",", "{", "\"k\"", ":", "true", "}", "]"],
        &["\"x\""],
        &["-1.5E+2"],
    ];
    let ws = [" ", "\n", "\t", "\r", "\r\n ", ""];
    let mut t = Tally::new();
    for d in docs {
        // one whitespace choice per boundary position (all positions same) and single-position variants
        for w in ws {
            let text: String = std::iter::once(w.to_string()).chain(d.iter().map(|tok| format!("{tok}{w}"))).collect();
            x_case_struct(&text, mode, &mut t);
        }
        for pos in 0..=d.len() {
            for w in &ws[..4] {
                let mut text = String::new();
                for (i, tok) in d.iter().enumerate() {
                    if i == pos {
                        text.push_str(w);
                    }
                    text.push_str(tok);
                }
                if pos == d.len() {
                    text.push_str(w);
                }
                x_case_struct(&text, mode, &mut t);
            }
        }
    }
    rep.bounds["whitespace-family"] = json!({"documents": docs.len(), "whitespace": ws});
    rep.absorb(t);
}

/// The named option records: `strict()` and `Default` relax nothing, `flexible()` relaxes both
/// surrogate checks (C01 speaks of "explicit strict options", C12 of the four combinations).
pub fn option_presets(rep: &mut Report) {
    use json_syntax::parse::Options;
    let mut t = Tally::new();
    t.evals += 3;
    let s = Options::strict();
    let d = Options::default();
    let f = Options::flexible();
    for (name, o, want) in [("Options::strict()", s, (false, false)), ("Options::default()", d, (false, false)), ("Options::flexible()", f, (true, true))] {
        if (o.accept_truncated_surrogate_pair, o.accept_invalid_codepoints) != want {
            t.violation("", format!("{name} is {:?}, documented as {want:?}", (o.accept_truncated_surrogate_pair, o.accept_invalid_codepoints)), json!({"kind": "preset", "name": name}));
        }
    }
    // and they behave accordingly on the two kinds of surrogate fault
    for (text, which) in [("\"\\uD800\"", 0usize), ("\"\\uDC00\"", 1)] {
        for (name, o, rec) in [("strict()", Options::strict(), (false, false)), ("default()", Options::default(), (false, false)), ("flexible()", Options::flexible(), (true, true))] {
            t.evals += 1;
            let got = matches!(str_entry(text, o), Out::Ok(..));
            let want = if which == 0 { rec.0 } else { rec.1 };
            if got != want {
                t.violation("", format!("Options::{name} {} {text}", if got { "accepts" } else { "rejects" }), text_case(text, rec, "parse_str_with"));
            }
        }
    }
    t.outcome("option presets");
    rep.absorb(t);
}

/// Deep documents (C01 verdicts, C07 positions): RFC 8259 knows no nesting limit. Arrays,
/// objects and mixed nesting at depths around every size an implementation might hard-code as a
/// "reasonable" limit; closed (accept), unclosed (reject at the end), closed with one closer too
/// many (reject at that closer). Values are dismantled iteratively (dropping is recursive).
pub fn deep_family(rep: &mut Report, mode: Mode, tier: Tier) {
    use json_syntax::Parse;
    let mut depths = vec![1_000usize, 1_024, 9_999, 10_000, 10_001, 65_535, 65_537, 99_999, 100_000, 100_001, 100_002, 100_003, 131_073];
    if tier == Tier::Thorough {
        depths.extend([262_145, 524_289, 1_000_000, 1_000_001, 1_048_577]);
    } else {
        depths.push(1_000_001);
    }
    let mut items = Vec::new();
    for &d in &depths {
        for form in 0..3u8 {
            items.push((d, form));
        }
    }
    let count = items.len();
    let t = explore::par_tally(items, |(d, form), t| {
        let mut s = String::new();
        let mut closers = String::new();
        for i in 0..d {
            let obj = form == 1 || (form == 2 && i % 2 == 1);
            if obj {
                s.push_str("{\"k\":");
                closers.push('}');
            } else {
                s.push('[');
                closers.push(']');
            }
        }
        let closers: String = closers.chars().rev().collect();
        let open_len = s.len();
        let mut closed = s.clone();
        closed.push('0');
        closed.push_str(&closers);
        let unclosed = &closed[..open_len + 1];
        let extra = format!("{closed}]");
        let cases: [(&str, &str, Option<EK>); 3] = [
            ("closed", &closed, None),
            ("unclosed", unclosed, Some(EK::Unexpected(open_len + 1, None))),
            ("closed with one closer too many", &extra, Some(EK::Unexpected(closed.len(), Some(']')))),
        ];
        for (what, text, want) in cases {
            for (name, r) in [("parse_str", explore::guard(|| Value::parse_str(text).map_err(|e| ek(&e)))), ("parse_slice", explore::guard(|| Value::parse_slice(text.as_bytes()).map_err(|e| ek(&e))))] {
                t.evals += 1;
                let got: Result<(), Result<EK, String>> = match r {
                    Ok(Ok((v, _))) => {
                        crate::pump::release(v);
                        Ok(())
                    }
                    Ok(Err(e)) => Err(e),
                    Err(p) => Err(Err(format!("panic: {p}"))),
                };
                let ok = match (&got, &want) {
                    (Ok(()), None) => true,
                    (Err(Ok(e)), Some(w)) => mode == Mode::C01 || e == w,
                    _ => false,
                };
                if !ok {
                    let forms = ["arrays", "objects", "arrays and objects alternating"];
                    t.violation("", format!("{name}: {} nested {d} deep, {what}: got {got:?}, expected {}", forms[form as usize], if let Some(w) = &want { format!("Err({w:?})") } else { "Ok".to_string() }), json!({"kind": "deep", "depth": d, "form": form, "what": what}));
                }
            }
        }
        t.nontrivial(&(d, form));
        t.outcome("deep documents");
    });
    rep.bounds["deep"] = json!({"depths": depths, "forms": 3, "variants": ["closed", "unclosed", "one closer too many"], "documents": count * 3});
    rep.absorb(t);
}
