//! The driver that closes the parser: it owns the character iterator (the parser's whole
//! environment), records what the parser pulled, and normalises results of every entry point.

use decoded_char::DecodedChar;
use json_syntax::parse::{Error, Options};
use json_syntax::{CodeMap, Parse, Value};
use std::convert::Infallible;

/// Normalised parse error.
#[derive(Clone, Debug, PartialEq, Eq, Hash)]
pub enum EK {
    Stream(usize),
    Unexpected(usize, Option<char>),
    InvalidUnicodeCodePoint(usize, usize, u32),
    MissingLowSurrogate(usize, usize, u16),
    InvalidLowSurrogate(usize, usize, u16, u32),
    InvalidUtf8(usize),
}

impl EK {
    pub fn name(&self) -> &'static str {
        match self {
            EK::Stream(_) => "Stream",
            EK::Unexpected(_, Some(_)) => "Unexpected(char)",
            EK::Unexpected(_, None) => "Unexpected(end)",
            EK::InvalidUnicodeCodePoint(..) => "InvalidUnicodeCodePoint",
            EK::MissingLowSurrogate(..) => "MissingLowSurrogate",
            EK::InvalidLowSurrogate(..) => "InvalidLowSurrogate",
            EK::InvalidUtf8(_) => "InvalidUtf8",
        }
    }

    /// (start, end) of the reported span
    pub fn span(&self) -> (usize, usize) {
        match *self {
            EK::Stream(p) | EK::Unexpected(p, _) | EK::InvalidUtf8(p) => (p, p),
            EK::InvalidUnicodeCodePoint(a, b, _) | EK::MissingLowSurrogate(a, b, _) | EK::InvalidLowSurrogate(a, b, _, _) => (a, b),
        }
    }
}

/// Normalises an error and cross-checks its `position()` / `span()` accessors.
pub fn ek<E>(e: &Error<E>) -> Result<EK, String> {
    let k = match e {
        Error::Stream(p, _) => EK::Stream(*p),
        Error::Unexpected(p, c) => EK::Unexpected(*p, *c),
        Error::InvalidUnicodeCodePoint(s, c) => EK::InvalidUnicodeCodePoint(s.start(), s.end(), *c),
        Error::MissingLowSurrogate(s, h) => EK::MissingLowSurrogate(s.start(), s.end(), *h),
        Error::InvalidLowSurrogate(s, h, c) => EK::InvalidLowSurrogate(s.start(), s.end(), *h, *c),
        Error::InvalidUtf8(p) => EK::InvalidUtf8(*p),
    };
    let (a, b) = k.span();
    if e.position() != a || e.span().start() != a || e.span().end() != b {
        return Err(format!("accessors disagree with the variant: position()={} span()=({},{}) variant {k:?}", e.position(), e.span().start(), e.span().end()));
    }
    Ok(k)
}

pub type Map = Vec<(usize, usize, usize)>;

pub fn map_of(m: &CodeMap) -> Map {
    m.iter().map(|(_, e)| (e.span.start(), e.span.end(), e.volume)).collect()
}

/// Normalised result of one entry point.
#[derive(Clone, Debug, PartialEq)]
pub enum Out {
    Ok(Value, Map),
    Err(EK),
    /// the entry point panicked, or its error accessors are inconsistent
    Broken(String),
}

impl Out {
    pub fn brief(&self) -> String {
        match self {
            Out::Ok(v, m) => format!("Ok({}, map {:?})", v, m),
            Out::Err(e) => format!("Err({e:?})"),
            Out::Broken(s) => format!("Broken({s})"),
        }
    }
    pub fn class(&self) -> &'static str {
        match self {
            Out::Ok(..) => "accepted",
            Out::Err(e) => e.name(),
            Out::Broken(_) => "broken",
        }
    }
}

/// The routes to the entries of a code map must agree (`iter`, `as_slice`, `Deref`, `AsRef`,
/// `Borrow`, `&CodeMap: IntoIterator`, `CodeMap: IntoIterator`).
fn map_routes_agree(m: &CodeMap) -> Result<Map, String> {
    let by_iter = map_of(m);
    let t = |e: &json_syntax::code_map::Entry| (e.span.start(), e.span.end(), e.volume);
    let by_slice: Map = m.as_slice().iter().map(t).collect();
    let by_deref: Map = m[..].iter().map(t).collect();
    let by_asref: Map = AsRef::<[json_syntax::code_map::Entry]>::as_ref(m).iter().map(t).collect();
    let by_borrow: Map = std::borrow::Borrow::<[json_syntax::code_map::Entry]>::borrow(m).iter().map(t).collect();
    let mut by_ref_into: Map = Vec::new();
    for (i, e) in m {
        if i != by_ref_into.len() {
            return Err("&CodeMap: IntoIterator yields wrong indices".into());
        }
        by_ref_into.push(t(e));
    }
    if by_slice != by_iter || by_deref != by_iter || by_asref != by_iter || by_borrow != by_iter || by_ref_into != by_iter || m.len() != by_iter.len() {
        return Err("the routes to the code map's entries disagree".into());
    }
    if by_iter.len() <= 32 {
        let mut owned: Map = Vec::new();
        for (i, e) in m.clone() {
            if i != owned.len() {
                return Err("CodeMap: IntoIterator yields wrong indices".into());
            }
            owned.push(t(&e));
        }
        if owned != by_iter {
            return Err("CodeMap: IntoIterator disagrees with iter()".into());
        }
    }
    Ok(by_iter)
}

fn norm<E>(r: Result<(Value, CodeMap), Error<E>>) -> Out {
    match r {
        Ok((v, m)) => match map_routes_agree(&m) {
            Ok(map) => Out::Ok(v, map),
            Err(why) => Out::Broken(why),
        },
        Err(e) => match ek(&e) {
            Ok(k) => Out::Err(k),
            Err(s) => Out::Broken(s),
        },
    }
}

/// What the parser did to its environment.
#[derive(Clone, Copy, Debug, Default, PartialEq, Eq)]
pub struct Pulls {
    /// items pulled (characters or error answers)
    pub items: usize,
    /// times end-of-input was answered
    pub eof: usize,
    /// pulled again after an error answer
    pub after_error: bool,
}

/// The observed character source: answers characters, then end-of-input forever.
pub struct Obs<'a> {
    chars: std::str::Chars<'a>,
    pub pulls: Pulls,
}

impl<'a> Obs<'a> {
    pub fn new(s: &'a str) -> Self {
        Obs {
            chars: s.chars(),
            pulls: Pulls::default(),
        }
    }
}

impl<'a> Iterator for Obs<'a> {
    type Item = Result<char, Infallible>;
    fn next(&mut self) -> Option<Self::Item> {
        match self.chars.next() {
            Some(c) => {
                self.pulls.items += 1;
                Some(Ok(c))
            }
            None => {
                self.pulls.eof += 1;
                if self.pulls.eof > 1000 {
                    panic!("the parser polled its input more than 1000 times after end of input");
                }
                None
            }
        }
    }
}

/// The payload of the environment's error answer.
#[derive(Clone, Copy, Debug, PartialEq, Eq)]
pub struct Tag(pub u32);
pub const TAG: Tag = Tag(0xE44);

/// A character source that answers the characters of `s` and then *an error* (once); being
/// pulled again after that is recorded.
pub struct FailingObs<'a> {
    chars: std::str::Chars<'a>,
    failed: bool,
    pub pulls: Pulls,
}

impl<'a> Iterator for FailingObs<'a> {
    type Item = Result<char, Tag>;
    fn next(&mut self) -> Option<Self::Item> {
        self.pulls.items += 1;
        if self.failed {
            self.pulls.after_error = true;
            if self.pulls.items > 100_000 {
                panic!("the parser keeps polling its input after an error answer");
            }
            return None;
        }
        match self.chars.next() {
            Some(c) => Some(Ok(c)),
            None => {
                self.failed = true;
                Some(Err(TAG))
            }
        }
    }
}

/// `parse_utf8_with` over a source that fails after the last character of `text`. Returns the
/// normalised result, what was pulled, and whether a `Stream` error carried the payload intact.
pub fn observed_failing(text: &str, o: Options) -> (Out, Pulls, bool) {
    let mut obs = FailingObs {
        chars: text.chars(),
        failed: false,
        pulls: Pulls::default(),
    };
    let r = explore::guard(|| {
        let r = Value::parse_utf8_with(&mut obs, o);
        let intact = match &r {
            Err(Error::Stream(_, e)) => *e == TAG,
            _ => true,
        };
        (norm(r), intact)
    });
    match r {
        Ok((out, intact)) => (out, obs.pulls, intact),
        Err(p) => (Out::Broken(format!("panic: {p}")), obs.pulls, true),
    }
}

/// The primary, observed entry point: `parse_utf8_with` over an iterator the driver owns.
pub fn observed(text: &str, o: Options) -> (Out, Pulls) {
    let mut obs = Obs::new(text);
    let r = explore::guard(|| norm(Value::parse_utf8_with(&mut obs, o)));
    let out = match r {
        Ok(o) => o,
        Err(p) => Out::Broken(format!("panic: {p}")),
    };
    (out, obs.pulls)
}

pub const STRICT: Options = Options {
    accept_truncated_surrogate_pair: false,
    accept_invalid_codepoints: false,
};

pub fn options(truncated: bool, invalid: bool) -> Options {
    Options {
        accept_truncated_surrogate_pair: truncated,
        accept_invalid_codepoints: invalid,
    }
}

pub const RECORDS: [(bool, bool); 4] = [(false, false), (true, false), (false, true), (true, true)];

fn g(f: impl FnOnce() -> Out) -> Out {
    match explore::guard(f) {
        Ok(o) => o,
        Err(p) => Out::Broken(format!("panic: {p}")),
    }
}

/// `parse_with` over decoded characters whose lengths are *not* their UTF-8 lengths: every
/// character is announced with its UTF-16 length in bytes (2 or 4), as a caller reading a
/// UTF-16 document would. All positions the parser reports are then sums of those lengths; they
/// are translated back to UTF-8 offsets here, so that the ordinary expectations apply. A
/// position that is not a character boundary in that metric is reported as broken.
pub fn utf16_entry(text: &str, o: Options) -> Out {
    let mut back: std::collections::HashMap<usize, usize> = std::collections::HashMap::new();
    let (mut p16, mut p8) = (0usize, 0usize);
    back.insert(0, 0);
    for c in text.chars() {
        p16 += 2 * c.len_utf16();
        p8 += c.len_utf8();
        back.insert(p16, p8);
    }
    let tr = |p: usize| back.get(&p).copied();
    let r = explore::guard(|| norm(Value::parse_with(text.chars().map(|c| Ok::<DecodedChar, Infallible>(DecodedChar::new(c, 2 * c.len_utf16()))), o)));
    let out = match r {
        Ok(o) => o,
        Err(p) => return Out::Broken(format!("panic: {p}")),
    };
    let bad = |p: usize| Out::Broken(format!("position {p} (in announced lengths) is not a character boundary of the input"));
    match out {
        Out::Ok(v, map) => {
            let mut m2 = Vec::with_capacity(map.len());
            for (a, b, vol) in map {
                match (tr(a), tr(b)) {
                    (Some(a), Some(b)) => m2.push((a, b, vol)),
                    _ => return bad(if tr(a).is_none() { a } else { b }),
                }
            }
            Out::Ok(v, m2)
        }
        Out::Err(e) => {
            let t2 = |a: usize, b: usize| match (tr(a), tr(b)) {
                (Some(a), Some(b)) => Ok((a, b)),
                _ => Err(if tr(a).is_none() { a } else { b }),
            };
            match e {
                EK::Stream(p) => tr(p).map(|p| Out::Err(EK::Stream(p))).unwrap_or_else(|| bad(p)),
                EK::Unexpected(p, c) => tr(p).map(|p| Out::Err(EK::Unexpected(p, c))).unwrap_or_else(|| bad(p)),
                EK::InvalidUtf8(p) => tr(p).map(|p| Out::Err(EK::InvalidUtf8(p))).unwrap_or_else(|| bad(p)),
                EK::InvalidUnicodeCodePoint(a, b, c) => t2(a, b).map(|(a, b)| Out::Err(EK::InvalidUnicodeCodePoint(a, b, c))).unwrap_or_else(bad),
                EK::MissingLowSurrogate(a, b, h) => t2(a, b).map(|(a, b)| Out::Err(EK::MissingLowSurrogate(a, b, h))).unwrap_or_else(bad),
                EK::InvalidLowSurrogate(a, b, h, c) => t2(a, b).map(|(a, b)| Out::Err(EK::InvalidLowSurrogate(a, b, h, c))).unwrap_or_else(bad),
            }
        }
        b => b,
    }
}

/// The same document *far into a stream*: one insignificant space announced with a length of
/// 2^32 + 5 bytes comes first (as if 4 GiB of whitespace or of earlier documents had been
/// consumed), then the text with its UTF-8 lengths. Every position the parser reports must then
/// lie at or beyond that offset; they are translated back by subtracting it. Offsets kept in 32
/// bits anywhere on the way (a span, a pending-escape position, an error) wrap around here and
/// nowhere else.
pub const FAR: usize = (1usize << 32) + 5;

pub fn far_entry(text: &str, o: Options) -> Out {
    let src = std::iter::once(DecodedChar::new(' ', FAR)).chain(text.chars().map(DecodedChar::from_utf8)).map(Ok::<DecodedChar, Infallible>);
    let out = match explore::guard(|| norm(Value::parse_with(src, o))) {
        Ok(o) => o,
        Err(p) => return Out::Broken(format!("panic: {p}")),
    };
    let bad = |p: usize| Out::Broken(format!("position {p} lies before the offset 2^32 + 5 at which the document starts"));
    let tr = |p: usize| p.checked_sub(FAR);
    match out {
        Out::Ok(v, map) => {
            let mut m2 = Vec::with_capacity(map.len());
            for (a, b, vol) in map {
                match (tr(a), tr(b)) {
                    (Some(a), Some(b)) => m2.push((a, b, vol)),
                    _ => return bad(if tr(a).is_none() { a } else { b }),
                }
            }
            Out::Ok(v, m2)
        }
        Out::Err(e) => {
            let t2 = |a: usize, b: usize| match (tr(a), tr(b)) {
                (Some(a), Some(b)) => Ok((a, b)),
                _ => Err(if tr(a).is_none() { a } else { b }),
            };
            match e {
                EK::Stream(p) => tr(p).map(|p| Out::Err(EK::Stream(p))).unwrap_or_else(|| bad(p)),
                EK::Unexpected(p, c) => tr(p).map(|p| Out::Err(EK::Unexpected(p, c))).unwrap_or_else(|| bad(p)),
                EK::InvalidUtf8(p) => tr(p).map(|p| Out::Err(EK::InvalidUtf8(p))).unwrap_or_else(|| bad(p)),
                EK::InvalidUnicodeCodePoint(a, b, c) => t2(a, b).map(|(a, b)| Out::Err(EK::InvalidUnicodeCodePoint(a, b, c))).unwrap_or_else(bad),
                EK::MissingLowSurrogate(a, b, h) => t2(a, b).map(|(a, b)| Out::Err(EK::MissingLowSurrogate(a, b, h))).unwrap_or_else(bad),
                EK::InvalidLowSurrogate(a, b, h, c) => t2(a, b).map(|(a, b)| Out::Err(EK::InvalidLowSurrogate(a, b, h, c))).unwrap_or_else(bad),
            }
        }
        b => b,
    }
}

/// `Value::parse_in` on an explicit `Parser`, with each of the four contexts as the context of the
/// *root* value (the context tells a number which characters may follow it; at the root the
/// document still has to end after the value, whatever the context): verdict only - the parser's
/// code map is not accessible from outside.
pub fn parse_in_verdicts(text: &str, o: Options) -> Vec<(&'static str, Result<bool, String>)> {
    use json_syntax::parse::{Context, Parser};
    [("parse_in(Context::None)", Context::None), ("parse_in(Context::Array)", Context::Array), ("parse_in(Context::ObjectKey)", Context::ObjectKey), ("parse_in(Context::ObjectValue)", Context::ObjectValue)]
        .into_iter()
        .map(|(name, ctx)| {
            let r = explore::guard(|| {
                let mut parser = Parser::new_with(text.chars().map(|c| Ok::<DecodedChar, Infallible>(DecodedChar::from_utf8(c))), o);
                Value::parse_in(&mut parser, ctx).is_ok()
            });
            (name, r)
        })
        .collect()
}

/// Every entry point that takes text, with default (strict) options or explicit strict options.
pub fn all_strict_text_entry_points(text: &str) -> Vec<(&'static str, Out)> {
    let dc = |c: char| DecodedChar::from_utf8(c);
    vec![
        ("parse_str", g(|| norm(Value::parse_str(text)))),
        ("parse_str_with", g(|| norm(Value::parse_str_with(text, STRICT)))),
        ("parse_slice", g(|| norm(Value::parse_slice(text.as_bytes())))),
        ("parse_slice_with", g(|| norm(Value::parse_slice_with(text.as_bytes(), STRICT)))),
        ("parse_infallible_utf8", g(|| norm(Value::parse_infallible_utf8(text.chars())))),
        ("parse_utf8_infallible_with", g(|| norm(Value::parse_utf8_infallible_with(text.chars(), STRICT)))),
        ("parse_utf8", g(|| norm(Value::parse_utf8(text.chars().map(Ok::<char, Infallible>))))),
        ("parse_utf8_with", g(|| norm(Value::parse_utf8_with(text.chars().map(Ok::<char, Infallible>), STRICT)))),
        ("parse_infallible", g(|| norm(Value::parse_infallible(text.chars().map(dc))))),
        ("parse_infallible_with", g(|| norm(Value::parse_infallible_with(text.chars().map(dc), STRICT)))),
        ("parse", g(|| norm(Value::parse(text.chars().map(|c| Ok::<DecodedChar, Infallible>(dc(c))))))),
        ("parse_with", g(|| norm(Value::parse_with(text.chars().map(|c| Ok::<DecodedChar, Infallible>(dc(c))), STRICT)))),
        ("parse_with(characters announced with their UTF-16 lengths)", utf16_entry(text, STRICT)),
        ("parse_with(the document starting at offset 2^32 + 5 of its stream)", far_entry(text, STRICT)),
        ("FromStr", g(|| match text.parse::<Value>() {
            Ok(v) => Out::Ok(v, Vec::new()),
            Err(e) => match ek(&e) {
                Ok(k) => Out::Err(k),
                Err(s) => Out::Broken(s),
            },
        })),
    ]
}

/// The entry points that take options, for a non-strict record.
pub fn all_text_entry_points_with(text: &str, o: Options) -> Vec<(&'static str, Out)> {
    let dc = |c: char| DecodedChar::from_utf8(c);
    vec![
        ("parse_str_with", g(|| norm(Value::parse_str_with(text, o)))),
        ("parse_slice_with", g(|| norm(Value::parse_slice_with(text.as_bytes(), o)))),
        ("parse_utf8_infallible_with", g(|| norm(Value::parse_utf8_infallible_with(text.chars(), o)))),
        ("parse_infallible_with", g(|| norm(Value::parse_infallible_with(text.chars().map(dc), o)))),
        ("parse_with", g(|| norm(Value::parse_with(text.chars().map(|c| Ok::<DecodedChar, Infallible>(dc(c))), o)))),
        ("parse_with(characters announced with their UTF-16 lengths)", utf16_entry(text, o)),
        ("parse_with(the document starting at offset 2^32 + 5 of its stream)", far_entry(text, o)),
    ]
}

pub fn slice_entry(bytes: &[u8], o: Options) -> Out {
    g(|| norm(Value::parse_slice_with(bytes, o)))
}

/// The byte-slice entry points must not depend on where the input sits in memory: the same
/// bytes placed 1, 4 and 7 bytes past a 16-byte boundary (and, for comparison, on it) must give
/// the outcome `want`. (Word-at-a-time scanning has an unaligned head and tail.)
pub fn slice_alignment_sweep(bytes: &[u8], o: Options, want: &Out) -> Result<(), String> {
    let mut buf = vec![b' '; bytes.len() + 48];
    let base = buf.as_ptr().align_offset(16);
    for k in [0usize, 1, 4, 7] {
        let at = base + k;
        buf[at..at + bytes.len()].copy_from_slice(bytes);
        let got = g(|| norm(Value::parse_slice_with(&buf[at..at + bytes.len()], o)));
        if got != *want {
            return Err(format!("parse_slice_with on the same bytes placed {k} byte(s) past a 16-byte boundary gives {}, expected {}", got.brief(), want.brief()));
        }
    }
    Ok(())
}

pub fn slice_entry_default(bytes: &[u8]) -> Out {
    g(|| norm(Value::parse_slice(bytes)))
}

pub fn str_entry(text: &str, o: Options) -> Out {
    g(|| norm(Value::parse_str_with(text, o)))
}
