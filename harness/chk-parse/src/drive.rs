//! The driver that closes the parser: it owns the character iterator (the parser's whole
//! environment), records what the parser pulled, and normalises results of every entry point.

use decoded_char::DecodedChar;
use json_syntax::parse::{Error, Options};
use json_syntax::{CodeMap, Parse, Value};
use std::convert::Infallible;

/// Normalised parse error.
#[derive(Clone, Debug, PartialEq, Eq, Hash)]
pub enum EK {
    Stream(usize),
    Unexpected(usize, Option<char>),
    InvalidUnicodeCodePoint(usize, usize, u32),
    MissingLowSurrogate(usize, usize, u16),
    InvalidLowSurrogate(usize, usize, u16, u32),
    InvalidUtf8(usize),
}

impl EK {
    pub fn name(&self) -> &'static str {
        match self {
            EK::Stream(_) => "Stream",
            EK::Unexpected(_, Some(_)) => "Unexpected(char)",
            EK::Unexpected(_, None) => "Unexpected(end)",
            EK::InvalidUnicodeCodePoint(..) => "InvalidUnicodeCodePoint",
            EK::MissingLowSurrogate(..) => "MissingLowSurrogate",
            EK::InvalidLowSurrogate(..) => "InvalidLowSurrogate",
            EK::InvalidUtf8(_) => "InvalidUtf8",
        }
    }

    /// (start, end) of the reported span
    pub fn span(&self) -> (usize, usize) {
        match *self {
            EK::Stream(p) | EK::Unexpected(p, _) | EK::InvalidUtf8(p) => (p, p),
            EK::InvalidUnicodeCodePoint(a, b, _) | EK::MissingLowSurrogate(a, b, _) | EK::InvalidLowSurrogate(a, b, _, _) => (a, b),
        }
    }
}

/// Normalises an error and cross-checks its `position()` / `span()` accessors.
pub fn ek<E>(e: &Error<E>) -> Result<EK, String> {
    let k = match e {
        Error::Stream(p, _) => EK::Stream(*p),
        Error::Unexpected(p, c) => EK::Unexpected(*p, *c),
        Error::InvalidUnicodeCodePoint(s, c) => EK::InvalidUnicodeCodePoint(s.start(), s.end(), *c),
        Error::MissingLowSurrogate(s, h) => EK::MissingLowSurrogate(s.start(), s.end(), *h),
        Error::InvalidLowSurrogate(s, h, c) => EK::InvalidLowSurrogate(s.start(), s.end(), *h, *c),
        Error::InvalidUtf8(p) => EK::InvalidUtf8(*p),
    };
    let (a, b) = k.span();
    if e.position() != a || e.span().start() != a || e.span().end() != b {
        return Err(format!("accessors disagree with the variant: position()={} span()=({},{}) variant {k:?}", e.position(), e.span().start(), e.span().end()));
    }
    Ok(k)
}

pub type Map = Vec<(usize, usize, usize)>;

pub fn map_of(m: &CodeMap) -> Map {
    m.iter().map(|(_, e)| (e.span.start(), e.span.end(), e.volume)).collect()
}

/// Normalised result of one entry point.
#[derive(Clone, Debug, PartialEq)]
pub enum Out {
    Ok(Value, Map),
    Err(EK),
    /// the entry point panicked, or its error accessors are inconsistent
    Broken(String),
}

impl Out {
    pub fn brief(&self) -> String {
        match self {
            Out::Ok(v, m) => format!("Ok({}, map {:?})", v, m),
            Out::Err(e) => format!("Err({e:?})"),
            Out::Broken(s) => format!("Broken({s})"),
        }
    }
    pub fn class(&self) -> &'static str {
        match self {
            Out::Ok(..) => "accepted",
            Out::Err(e) => e.name(),
            Out::Broken(_) => "broken",
        }
    }
}

/// The routes to the entries of a code map must agree (`iter`, `as_slice`, `Deref`, `AsRef`,
/// `Borrow`, `&CodeMap: IntoIterator`, `CodeMap: IntoIterator`).
fn map_routes_agree(m: &CodeMap) -> Result<Map, String> {
    let by_iter = map_of(m);
    let t = |e: &json_syntax::code_map::Entry| (e.span.start(), e.span.end(), e.volume);
    let by_slice: Map = m.as_slice().iter().map(t).collect();
    let by_deref: Map = m[..].iter().map(t).collect();
    let by_asref: Map = AsRef::<[json_syntax::code_map::Entry]>::as_ref(m).iter().map(t).collect();
    let by_borrow: Map = std::borrow::Borrow::<[json_syntax::code_map::Entry]>::borrow(m).iter().map(t).collect();
    let mut by_ref_into: Map = Vec::new();
    for (i, e) in m {
        if i != by_ref_into.len() {
            return Err("&CodeMap: IntoIterator yields wrong indices".into());
        }
        by_ref_into.push(t(e));
    }
    if by_slice != by_iter || by_deref != by_iter || by_asref != by_iter || by_borrow != by_iter || by_ref_into != by_iter || m.len() != by_iter.len() {
        return Err("the routes to the code map's entries disagree".into());
    }
    if by_iter.len() <= 32 {
        let mut owned: Map = Vec::new();
        for (i, e) in m.clone() {
            if i != owned.len() {
                return Err("CodeMap: IntoIterator yields wrong indices".into());
            }
            owned.push(t(&e));
        }
        if owned != by_iter {
            return Err("CodeMap: IntoIterator disagrees with iter()".into());
        }
    }
    Ok(by_iter)
}

fn norm<E>(r: Result<(Value, CodeMap), Error<E>>) -> Out {
    match r {
        Ok((v, m)) => match map_routes_agree(&m) {
            Ok(map) => Out::Ok(v, map),
            Err(why) => Out::Broken(why),
        },
        Err(e) => match ek(&e) {
            Ok(k) => Out::Err(k),
            Err(s) => Out::Broken(s),
        },
    }
}

/// What the parser did to its environment.
#[derive(Clone, Copy, Debug, Default, PartialEq, Eq)]
pub struct Pulls {
    /// items pulled (characters or error answers)
    pub items: usize,
    /// times end-of-input was answered
    pub eof: usize,
    /// pulled again after an error answer
    pub after_error: bool,
}

/// The observed character source: answers characters, then end-of-input forever.
pub struct Obs<'a> {
    chars: std::str::Chars<'a>,
    pub pulls: Pulls,
}

impl<'a> Obs<'a> {
    pub fn new(s: &'a str) -> Self {
        Obs {
            chars: s.chars(),
            pulls: Pulls::default(),
        }
    }
}

impl<'a> Iterator for Obs<'a> {
    type Item = Result<char, Infallible>;
    fn next(&mut self) -> Option<Self::Item> {
        match self.chars.next() {
            Some(c) => {
                self.pulls.items += 1;
                Some(Ok(c))
            }
            None => {
                self.pulls.eof += 1;
                if self.pulls.eof > 1000 {
                    panic!("the parser polled its input more than 1000 times after end of input");
                }
                None
            }
        }
    }
}

/// The payload of the environment's error answer.
#[derive(Clone, Copy, Debug, PartialEq, Eq)]
pub struct Tag(pub u32);
pub const TAG: Tag = Tag(0xE44);

/// A character source that answers the characters of `s` and then *an error* (once); being
/// pulled again after that is recorded.
pub struct FailingObs<'a> {
    chars: std::str::Chars<'a>,
    failed: bool,
    pub pulls: Pulls,
}

impl<'a> Iterator for FailingObs<'a> {
    type Item = Result<char, Tag>;
    fn next(&mut self) -> Option<Self::Item> {
        self.pulls.items += 1;
        if self.failed {
            self.pulls.after_error = true;
            if self.pulls.items > 100_000 {
                panic!("the parser keeps polling its input after an error answer");
            }
            return None;
        }
        match self.chars.next() {
            Some(c) => Some(Ok(c)),
            None => {
                self.failed = true;
                Some(Err(TAG))
            }
        }
    }
}

/// `parse_utf8_with` over a source that fails after the last character of `text`. Returns the
/// normalised result, what was pulled, and whether a `Stream` error carried the payload intact.
pub fn observed_failing(text: &str, o: Options) -> (Out, Pulls, bool) {
    let mut obs = FailingObs {
        chars: text.chars(),
        failed: false,
        pulls: Pulls::default(),
    };
    let r = explore::guard(|| {
        let r = Value::parse_utf8_with(&mut obs, o);
        let intact = match &r {
            Err(Error::Stream(_, e)) => *e == TAG,
            _ => true,
        };
        (norm(r), intact)
    });
    match r {
        Ok((out, intact)) => (out, obs.pulls, intact),
        Err(p) => (Out::Broken(format!("panic: {p}")), obs.pulls, true),
    }
}

/// The primary, observed entry point: `parse_utf8_with` over an iterator the driver owns.
pub fn observed(text: &str, o: Options) -> (Out, Pulls) {
    let mut obs = Obs::new(text);
    let r = explore::guard(|| norm(Value::parse_utf8_with(&mut obs, o)));
    let out = match r {
        Ok(o) => o,
        Err(p) => Out::Broken(format!("panic: {p}")),
    };
    (out, obs.pulls)
}

pub const STRICT: Options = Options {
    accept_truncated_surrogate_pair: false,
    accept_invalid_codepoints: false,
};

pub fn options(truncated: bool, invalid: bool) -> Options {
    Options {
        accept_truncated_surrogate_pair: truncated,
        accept_invalid_codepoints: invalid,
    }
}

pub const RECORDS: [(bool, bool); 4] = [(false, false), (true, false), (false, true), (true, true)];

fn g(f: impl FnOnce() -> Out) -> Out {
    match explore::guard(f) {
        Ok(o) => o,
        Err(p) => Out::Broken(format!("panic: {p}")),
    }
}

/// Every entry point that takes text, with default (strict) options or explicit strict options.
pub fn all_strict_text_entry_points(text: &str) -> Vec<(&'static str, Out)> {
    let dc = |c: char| DecodedChar::from_utf8(c);
    vec![
        ("parse_str", g(|| norm(Value::parse_str(text)))),
        ("parse_str_with", g(|| norm(Value::parse_str_with(text, STRICT)))),
        ("parse_slice", g(|| norm(Value::parse_slice(text.as_bytes())))),
        ("parse_slice_with", g(|| norm(Value::parse_slice_with(text.as_bytes(), STRICT)))),
        ("parse_infallible_utf8", g(|| norm(Value::parse_infallible_utf8(text.chars())))),
        ("parse_utf8_infallible_with", g(|| norm(Value::parse_utf8_infallible_with(text.chars(), STRICT)))),
        ("parse_utf8", g(|| norm(Value::parse_utf8(text.chars().map(Ok::<char, Infallible>))))),
        ("parse_utf8_with", g(|| norm(Value::parse_utf8_with(text.chars().map(Ok::<char, Infallible>), STRICT)))),
        ("parse_infallible", g(|| norm(Value::parse_infallible(text.chars().map(dc))))),
        ("parse_infallible_with", g(|| norm(Value::parse_infallible_with(text.chars().map(dc), STRICT)))),
        ("parse", g(|| norm(Value::parse(text.chars().map(|c| Ok::<DecodedChar, Infallible>(dc(c))))))),
        ("parse_with", g(|| norm(Value::parse_with(text.chars().map(|c| Ok::<DecodedChar, Infallible>(dc(c))), STRICT)))),
        ("FromStr", g(|| match text.parse::<Value>() {
            Ok(v) => Out::Ok(v, Vec::new()),
            Err(e) => match ek(&e) {
                Ok(k) => Out::Err(k),
                Err(s) => Out::Broken(s),
            },
        })),
    ]
}

/// The entry points that take options, for a non-strict record.
pub fn all_text_entry_points_with(text: &str, o: Options) -> Vec<(&'static str, Out)> {
    let dc = |c: char| DecodedChar::from_utf8(c);
    vec![
        ("parse_str_with", g(|| norm(Value::parse_str_with(text, o)))),
        ("parse_slice_with", g(|| norm(Value::parse_slice_with(text.as_bytes(), o)))),
        ("parse_utf8_infallible_with", g(|| norm(Value::parse_utf8_infallible_with(text.chars(), o)))),
        ("parse_infallible_with", g(|| norm(Value::parse_infallible_with(text.chars().map(dc), o)))),
        ("parse_with", g(|| norm(Value::parse_with(text.chars().map(|c| Ok::<DecodedChar, Infallible>(dc(c))), o)))),
    ]
}

pub fn slice_entry(bytes: &[u8], o: Options) -> Out {
    g(|| norm(Value::parse_slice_with(bytes, o)))
}

pub fn slice_entry_default(bytes: &[u8]) -> Out {
    g(|| norm(Value::parse_slice(bytes)))
}

pub fn str_entry(text: &str, o: Options) -> Out {
    g(|| norm(Value::parse_str_with(text, o)))
}
