//! chk-object: C06 (multimap + index, E-STATE), C14 (Eq/Ord/Hash, E-STATE + E-ENUM laws),
//! C15 (unordered equality, E-ENUM).

mod model;

#[global_allocator]
static ALLOC: explore::ThreadCache = explore::ThreadCache;

use explore::serde_json::{json, Value as J};
use explore::{Args, Budget, Report, Tally, Tier};
use json_syntax::object::verif::HASH_MODE;
use json_syntax::{BorrowUnordered, Unordered, UnorderedPartialEq, Value};
use model::*;
use refmodel::value::Gen;
use refmodel::RV;
use stateright::{Checker, Model};
use std::sync::atomic::Ordering::Relaxed;

const MODE_NAMES: [&str; 4] = ["ahash-fixed-seed", "constant-hash", "two-class-hash", "ahash-seed-per-index"];

struct RunCfg {
    name: &'static str,
    keys: Vec<&'static str>,
    vals: Vec<Val>,
    max_len: usize,
    max_depth: Option<usize>,
    inits: Vec<Init>,
    fine: bool,
    modes: Vec<u8>,
}

const LONG_KEY: &str = "a-key-on-the-heap-that-is-longer-than-thirty-two-bytes";

fn run_state_search(rc: &RunCfg, mode: u8, threads: usize) -> (usize, usize, usize, Option<(Init, Vec<Act>, String)>, u8) {
    HASH_MODE.store(mode, Relaxed);
    // (the second battery of iterator consumers runs in the first and in the last hash mode: what
    // an iterator's provided methods do with the items does not depend on how the keys hash)
    bridge::EXTENDED_BATTERY.store(mode == 0 || mode == 3 || rc.modes.first() == Some(&mode), Relaxed);
    FINE_KEY.store(rc.fine, Relaxed);
    DEPTH_IN_KEY.store(rc.max_depth.is_some(), Relaxed);
    reset_run_state();
    let m = ObjModel {
        cfg: Cfg {
            keys: rc.keys.iter().map(|s| s.to_string()).collect(),
            vals: rc.vals.clone(),
            max_len: rc.max_len,
            max_depth: rc.max_depth,
            inits: rc.inits.clone(),
            fine_key: rc.fine,
            // (the largest run of the quick tier keeps to the three ordinary disciplines)
            unwinding: !(rc.name == "3 keys x 2 values, len<=6, fixpoint" && rc.modes.len() == 1),
            absent_key: "zz-absent".into(),
        },
    };
    let c = m.checker().threads(threads).spawn_bfs().join();
    let disc = c.discoveries();
    let cex = disc.get("object agrees with the ordered-list model").map(|p| {
        let states = p.clone().into_states();
        let init_idx = rc
            .inits
            .iter()
            .position(|i| match states[0].err.as_ref() {
                // a start state that failed carries its description in the message
                Some(e) if e.contains(&format!("{i:?}")) => true,
                Some(_) => false,
                None => explore::guard(|| i.build()).map(|(_, m)| m == states[0].model).unwrap_or(false),
            })
            .unwrap_or(0);
        let err = states.last().and_then(|s| s.err.clone()).unwrap_or_default();
        (rc.inits[init_idx], p.clone().into_actions(), err)
    });
    (c.unique_state_count(), c.state_count(), c.max_depth(), cex, SAW.load(Relaxed))
}

fn history_case(rc: &RunCfg, mode: u8, init: Init, acts: &[Act]) -> J {
    json!({
        "kind": "object-history",
        "hash_mode": mode,
        "hash_mode_name": MODE_NAMES[mode as usize],
        "init": format!("{init:?}"),
        "keys": rc.keys,
        "actions": acts.iter().map(|a| a.to_string()).collect::<Vec<_>>(),
    })
}

fn parse_init(s: &str) -> Option<Init> {
    if s == "Empty" {
        return Some(Init::Empty);
    }
    let (name, rest) = s.split_once('(')?;
    let nums: Vec<usize> = rest.trim_end_matches(')').split(',').map(|x| x.trim().parse().ok()).collect::<Option<_>>()?;
    match name {
        "FromVec" => Some(Init::FromVec(nums[0])),
        "PushRemove" => Some(Init::PushRemove(nums[0], nums[1])),
        "Dups" => Some(Init::Dups(nums[0])),
        "GrowShrink" => Some(Init::GrowShrink(nums[0], nums[1], nums[2] as u8)),
        "GrowShrinkThen" => Some(Init::GrowShrinkThen(nums[0], nums[1], nums[2] as u8, nums[3] as u32, nums[4] as u8)),
        _ => None,
    }
}

/// Replays one recorded history step by step without the explorer (every step on a thread of
/// its own when the case says `thread_hop`: the search runs on 16 threads and hands states from
/// one to another, so a disagreement that needs the object to be built on one thread and used on
/// another does not show in a single-threaded replay).
fn replay_history(case: &J) -> Result<(), String> {
    if case["thread_hop"].as_bool() == Some(true) {
        return replay_history_with(case, true);
    }
    replay_history_with(case, false)
}

fn on_thread<T: Send>(hop: bool, f: impl FnOnce() -> T + Send) -> T {
    // (in the second pass the search runs every transition while its thread unwinds: so does the replay)
    let f = || explore::in_env(f);
    if !hop {
        return f();
    }
    std::thread::scope(|s| s.spawn(f).join()).unwrap_or_else(|p| std::panic::resume_unwind(p))
}

fn replay_history_with(case: &J, hop: bool) -> Result<(), String> {
    let mode = case["hash_mode"].as_u64().unwrap_or(0) as u8;
    HASH_MODE.store(mode, Relaxed);
    let init = parse_init(case["init"].as_str().unwrap_or("Empty")).ok_or("bad init")?;
    let mut keys: Vec<String> = case["keys"].as_array().map(|a| a.iter().filter_map(|k| k.as_str().map(String::from)).collect()).unwrap_or_default();
    keys.push("zz-absent".into());
    let (mut real, mut model) = on_thread(hop, || explore::guard(|| init.build())).map_err(|p| format!("panic while building the start state {init:?}: {p}"))?;
    for (k, _) in &model.entries.clone() {
        if !keys.contains(k) {
            keys.push(k.clone());
        }
    }
    audit(&real, &model, &keys, true).map_err(|e| format!("initial state: {e}"))?;
    for (i, a) in case["actions"].as_array().cloned().unwrap_or_default().iter().enumerate() {
        let a = Act::parse(a.as_str().unwrap_or("")).ok_or_else(|| format!("cannot parse action {a}"))?;
        let mut saw = 0;
        let r = on_thread(hop, || explore::guard(|| apply(&mut real, &mut model, &a, &mut saw)));
        match r {
            Ok(Ok(())) => {}
            Ok(Err(e)) => return Err(format!("step {i} {a}: {e}")),
            Err(p) => return Err(format!("step {i} {a}: panic {p}")),
        }
        match on_thread(hop, || explore::guard(|| audit(&real, &model, &keys, true))) {
            Ok(Ok(())) => {}
            Ok(Err(e)) => return Err(format!("after step {i} {a}: {e}")),
            Err(p) => return Err(format!("after step {i} {a}: panic {p}")),
        }
        eprintln!("  step {i} {a}: ok, entries {:?}", model.entries);
    }
    Ok(())
}

fn state_runs(tier: Tier) -> Vec<RunCfg> {
    let mut v = vec![
        RunCfg {
            name: "2 keys x 2 values, len<=4, fixpoint",
            keys: vec!["a", "b"],
            vals: vec![0, 1],
            max_len: 4,
            max_depth: None,
            inits: vec![Init::Empty],
            fine: false,
            modes: vec![0, 1, 2, 3],
        },
        RunCfg {
            name: "3 keys (one heap-allocated) x 2 values, len<=5, fixpoint",
            keys: vec!["a", "b", LONG_KEY],
            vals: vec![0, 1],
            max_len: 5,
            max_depth: None,
            inits: vec![Init::Empty],
            fine: false,
            modes: vec![0, 1, 2, 3],
        },
        RunCfg {
            name: "2 keys on which code-point order and UTF-16 order differ x 2 values, len<=3, fixpoint",
            keys: vec!["\u{e000}", "\u{10000}"],
            vals: vec![0, 1],
            max_len: 3,
            max_depth: None,
            inits: vec![Init::Empty],
            fine: false,
            modes: vec![0, 3],
        },
        RunCfg {
            name: "pumped start states (rehash cycles, tombstones), depth<=2",
            keys: vec!["a", "p00", "p07", "pumped-key-on-the-heap-09-and-longer-than-thirty-two-bytes"],
            vals: vec![0, 1],
            max_len: 40,
            max_depth: Some(2),
            inits: vec![Init::FromVec(24), Init::PushRemove(48, 40)],
            fine: true,
            modes: vec![0, 1, 2],
        },
    ];
    // pumped start states through the growth thresholds of the key index (and of one bucket)
    let sizes: Vec<usize> = if tier == Tier::Quick { vec![7, 8, 15, 16, 29, 57, 113, 257] } else { vec![3, 4, 7, 8, 14, 15, 28, 29, 56, 57, 112, 113, 224, 225, 448, 449, 1025, 4097] };
    let mut inits = Vec::new();
    for &n in &sizes {
        inits.push(Init::FromVec(n));
        inits.push(Init::PushRemove(n + n / 2, n / 2));
        if n <= 1025 {
            inits.push(Init::Dups(n));
        }
        // grown through the thresholds, then shrunk back to a handful of entries
        if n <= 449 {
            for how in 0..4u8 {
                inits.push(Init::GrowShrink(n, 3, how));
                inits.push(Init::GrowShrink(n, n / 8 + 1, how));
            }
        }
        // ... shrunk to nothing (or one entry) and refilled with every layout of 2..=4 entries
        // over two keys: duplicate-key layouts x an oversized table
        if [15, 16, 29, 57, 113].contains(&n) || (tier == Tier::Thorough && n <= 449) {
            for how in 0..4u8 {
                for keep in 0..2usize {
                    for len in 2..=4u8 {
                        for pattern in 0..(1u32 << len) {
                            inits.push(Init::GrowShrinkThen(n, keep, how, pattern, len));
                        }
                    }
                }
            }
        }
    }
    v.push(RunCfg {
        name: "pumped start states at the index growth thresholds, depth<=1",
        keys: vec!["d", "p00", "p03", "zz-new"],
        vals: vec![0, 1],
        max_len: 100_000,
        max_depth: Some(1),
        inits,
        fine: true,
        modes: vec![0, 1],
    });
    // (the debug-assertions pass of the quick tier leaves the largest run to the release build:
    // the smaller runs reach every operation and every kind of state, see the vacuity checks)
    if !(tier == Tier::Quick && std::env::var("VERIF_SECONDARY").as_deref() == Ok("1")) {
    v.push(RunCfg {
        name: "3 keys x 2 values, len<=6, fixpoint",
        keys: vec!["a", "b", "c"],
        vals: vec![0, 1],
        max_len: 6,
        max_depth: None,
        inits: vec![Init::Empty],
        fine: false,
        modes: if tier == Tier::Quick { vec![1] } else { vec![0, 1, 2] },
    });
    }
    if tier == Tier::Thorough {
        v.push(RunCfg {
            name: "3 keys x 2 values, len<=6, fixpoint, fine key",
            keys: vec!["a", "b", "c"],
            vals: vec![0, 1],
            max_len: 6,
            max_depth: None,
            inits: vec![Init::Empty],
            fine: true,
            modes: vec![0, 1, 2],
        });
        v.push(RunCfg {
            name: "4 keys (one heap-allocated) x 2 values, len<=6, fixpoint",
            keys: vec!["a", "b", "c", LONG_KEY],
            vals: vec![0, 1],
            max_len: 6,
            max_depth: None,
            inits: vec![Init::Empty],
            fine: false,
            modes: vec![0, 1, 2, 3],
        });
        v.push(RunCfg {
            name: "pumped start states (rehash cycles, tombstones), depth<=3",
            keys: vec!["a", "p00", "p23", "p47", "pumped-key-on-the-heap-09-and-longer-than-thirty-two-bytes"],
            vals: vec![0, 1],
            max_len: 40,
            max_depth: Some(3),
            inits: vec![Init::FromVec(24), Init::PushRemove(48, 40), Init::PushRemove(30, 3)],
            fine: true,
            modes: vec![0, 1, 2],
        });
    }
    v
}

/// C06 and the history part of C14 share the search; `only_c14` restricts what is reported
/// to Eq/Ord/Hash disagreements.
fn state_search(rep: &mut Report, tier: Tier, property: &str) {
    let budget = Budget::for_tier(tier, 45, 900);
    let mut runs_done = Vec::new();
    // (the debug-assertions pass of the quick tier runs every search under its first hash mode
    // only: what `debug_assert!` guards in the library does not depend on the hash function)
    let da_quick = tier == Tier::Quick && std::env::var("VERIF_SECONDARY").as_deref() == Ok("1");
    for rc in state_runs(tier) {
        for &mode in rc.modes.iter().take(if da_quick { 1 } else { usize::MAX }) {
            if budget.expired() {
                rep.note(format!("time cap reached before run {:?} mode {}; it is NOT covered", rc.name, MODE_NAMES[mode as usize]));
                rep.exhaustive = false;
                continue;
            }
            let t0 = std::time::Instant::now();
            let (unique, total, depth, cex, saw) = run_state_search(&rc, mode, 16);
            let mut t = Tally::new();
            t.states = unique as u64;
            t.transitions = total as u64;
            t.evals = total as u64;
            t.outcome_n(&format!("transitions:{}", MODE_NAMES[mode as usize]), total as u64);
            t.outcome_n(&format!("unique-states:{}", MODE_NAMES[mode as usize]), unique as u64);
            // determinism: the thorough tier repeats the search single-threaded and compares counts
            if tier == Tier::Thorough && cex.is_none() && unique < 120_000 {
                let (u1, t1, _, _, _) = run_state_search(&rc, mode, 1);
                if (u1, t1) != (unique, total) {
                    rep.machinery.push(format!("run {:?} mode {mode}: counts differ between 16 threads ({unique}/{total}) and 1 thread ({u1}/{t1})", rc.name));
                }
            }
            if cex.is_none() {
                let need = if rc.max_depth.is_some() { SAW_DUP_AFTER_REMOVE } else { SAW_DUP_AFTER_REMOVE | SAW_PARTIAL_ITER | SAW_REP_SWAP | SAW_DUP_ERR };
                if saw & need != need {
                    rep.machinery.push(format!("vacuous run {:?}: situations reached = {saw:04b}, needed {need:04b}", rc.name));
                }
            }
            if let Some((init, acts, err)) = cex {
                // classify: C14 reports only Eq/Ord/Hash disagreements, C06 everything else
                let is_c14 = err.contains("-built object");
                let mine = if property == "C14" { is_c14 } else { !is_c14 };
                let case = history_case(&rc, mode, init, &acts);
                // confirm by a plain sequential replay before reporting
                match replay_history(&case) {
                    Err(e) => {
                        if mine {
                            t.violation("", format!("[{} / {}] after {} actions: {e}", rc.name, MODE_NAMES[mode as usize], acts.len()), case);
                        } else {
                            rep.note(format!("run {:?} stopped early on a disagreement that belongs to the other property ({err})", rc.name));
                        }
                    }
                    Ok(()) => {
                        // not on one thread - and with every step on a thread of its own?
                        let mut hop_case = case.clone();
                        hop_case["thread_hop"] = json!(true);
                        match replay_history(&hop_case) {
                            Err(e) if mine => t.violation("", format!("[{} / {}] after {} actions, reproduced only when the steps run on different threads (the object's behaviour depends on the thread that uses it): {e}", rc.name, MODE_NAMES[mode as usize], acts.len()), hop_case),
                            Err(_) => rep.note(format!("run {:?} stopped early on a disagreement that belongs to the other property ({err})", rc.name)),
                            Ok(()) => rep.machinery.push(format!("counterexample did not reproduce on sequential replay: {err} / {case}")),
                        }
                    }
                }
            }
            t.sample(json!({"run": rc.name, "hash_mode": MODE_NAMES[mode as usize], "unique_states": unique, "transitions": total, "max_depth": depth, "fine_key": rc.fine, "wall_s": t0.elapsed().as_secs_f64()}));
            runs_done.push(json!({"run": rc.name, "hash_mode": MODE_NAMES[mode as usize], "unique_states": unique, "transitions": total, "max_depth": depth}));
            rep.absorb(t);
        }
    }
    rep.bounds["state_search_runs"] = J::Array(runs_done);
    for (i, k) in KINDS.iter().enumerate() {
        let n = KIND_COUNT[i].load(Relaxed);
        if n > 0 {
            rep.tally.outcome_n(&format!("op:{k}"), n);
        }
    }
}

/// (std's SipHash and a hasher that is sensitive to the sequence of `Hasher` calls)
fn std_hash<T: std::hash::Hash>(t: &T) -> u64 {
    bridge::both_hashes(t)
}

/// C14 laws over all pairs and triples of a closed universe of small values.
fn c14_laws(rep: &mut Report, tier: Tier) {
    // (two members of every kind that carries data: a same-kind overwrite must be visible)
    let leaves = [RV::Null, RV::Bool(true), RV::Bool(false), RV::num("0"), RV::num("1"), RV::num("1.0"), RV::str(""), RV::str("a")];
    c14_law_universe(rep, tier, &leaves, &["a", "b"], "law_universe");
    // keys, strings and numbers on both sides of the inline/heap threshold (16 bytes), whose
    // length order and byte order disagree
    let long_leaves = [RV::Null, RV::str("az"), RV::str(&"b".repeat(17)), RV::str(&"a".repeat(18)), RV::num("2"), RV::num("10000000000000000000"), RV::num("3.0000000000000000000")];
    let k1 = "b".repeat(17);
    let k2 = "a".repeat(18);
    let k3 = format!("{}b", "a".repeat(16));
    c14_law_universe(rep, tier, &long_leaves, &["az", &k1, &k2, &k3], "law_universe_long");
    // keys and strings on which the byte (code-point) order and the UTF-16 order disagree
    // (U+E000..U+FFFF against the supplementary planes): whichever order the type uses, `cmp`,
    // `partial_cmp` and the operators have to use the same one
    let orders = [RV::Null, RV::str("\u{ffff}"), RV::str("\u{10000}"), RV::str("\u{e000}z"), RV::num("0")];
    c14_law_universe(rep, tier, &orders, &["\u{ffff}", "\u{10000}", "\u{e000}\u{10ffff}", "a"], "law_universe_two_orders");
}

fn c14_law_universe(rep: &mut Report, tier: Tier, leaves: &[RV], keys: &[&str], uname: &str) {
    // (three nodes are needed for an object with two entries - the smallest place where the
    // order of objects can disagree between key and value comparisons)
    let _ = tier;
    let n = 3;
    let g = Gen::new(&leaves, &keys, n);
    let univ = g.up_to(n);
    let expected: u128 = (1..=n).map(|i| Gen::expected_count(leaves.len(), keys.len(), i)).sum();
    if univ.len() as u128 != expected {
        rep.machinery.push(format!("value generator produced {} values, recurrence says {expected}", univ.len()));
    }
    let vals: Vec<Value> = univ.iter().map(bridge::to_value).collect();
    let hashes: Vec<u64> = vals.iter().map(std_hash).collect();
    let idx: Vec<usize> = (0..vals.len()).collect();
    use std::cmp::Ordering::*;
    // pairs
    let t = explore::par_tally(idx.clone(), |i, t| {
        for j in 0..vals.len() {
            let (a, b) = (&vals[i], &vals[j]);
            t.evals += 1;
            let eq = a == b;
            let c = a.cmp(b);
            let ref_eq = univ[i] == univ[j];
            let case = || json!({"kind": "value-pair", "a": univ[i].show(), "b": univ[j].show()});
            if eq != ref_eq {
                t.violation("", format!("== is {eq} but structural equality is {ref_eq}"), case());
            }
            if (c == Equal) != eq || a.partial_cmp(b) != Some(c) {
                t.violation("", format!("cmp = {c:?}, partial_cmp = {:?}, == is {eq}", a.partial_cmp(b)), case());
            }
            if b.cmp(a) != c.reverse() {
                t.violation("", format!("antisymmetry: cmp(a,b) = {c:?}, cmp(b,a) = {:?}", b.cmp(a)), case());
            }
            if eq && hashes[i] != hashes[j] {
                t.violation("", "equal values hash differently".to_string(), case());
            }
            if (a <= b) != (c != Greater) || (a < b) != (c == Less) || (a > b) != (c == Greater) || (a >= b) != (c != Less) || (a != b) == eq || a.ne(b) == eq {
                t.violation("", "comparison operators disagree with cmp".to_string(), case());
            }
            if let (Value::Object(x), Value::Object(y)) = (a, b) {
                let oc = x.cmp(y);
                if oc != c || x.partial_cmp(y) != Some(c) || (x < y) != (c == Less) || (x <= y) != (c != Greater) || (x > y) != (c == Greater) || (x >= y) != (c != Less) || (x == y) != eq || (x != y) == eq {
                    t.violation("", format!("the bare objects compare differently (cmp {oc:?}, operators) from the values holding them (cmp {c:?})"), case());
                }
            }
            // clones equal their originals - also when the clone is written over an existing
            // value with clone_from (whatever that value held before), alone and as array items
            {
                let mut d = a.clone();
                d.clone_from(b);
                let mut dv = Value::Array(vec![a.clone(), Value::Null, a.clone()]);
                let bv = Value::Array(vec![b.clone(), Value::Null, b.clone()]);
                dv.clone_from(&bv);
                if d != *b || std_hash(&d) != hashes[j] || d.cmp(b) != Equal || dv != bv {
                    t.violation("", format!("after a.clone_from(&b), a is {d} and b is {b}"), case());
                }
            }
            t.outcome(match c {
                Less => "pair:less",
                Equal => "pair:equal",
                Greater => "pair:greater",
            });
            if i != j {
                t.nontrivial(&(i, j));
            }
        }
    });
    rep.absorb(t);
    // triples: transitivity of <= (which, with totality and antisymmetry, gives a total order)
    // precompute the comparison matrix from the real cmp, then check all triples on the matrix
    let m: Vec<Vec<i8>> = vals
        .iter()
        .map(|a| vals.iter().map(|b| match a.cmp(b) { Less => -1, Equal => 0, Greater => 1 }).collect())
        .collect();
    let nn = vals.len();
    let t = explore::par_tally(idx, |i, t| {
        for j in 0..nn {
            if m[i][j] > 0 {
                continue;
            }
            for k in 0..nn {
                if m[j][k] > 0 {
                    continue;
                }
                t.evals += 1;
                // a <= b <= c  =>  a <= c ; and if both equal then equal
                if m[i][k] > 0 || (m[i][j] == 0 && m[j][k] == 0 && m[i][k] != 0) {
                    t.violation(
                        "",
                        "transitivity of <= / == violated".to_string(),
                        json!({"kind": "value-triple", "a": univ[i].show(), "b": univ[j].show(), "c": univ[k].show()}),
                    );
                }
            }
        }
        t.outcome_n("triples:a<=b<=c checked (row)", 1);
    });
    rep.absorb(t);
    rep.tally.sample(json!({"law_universe_size": vals.len(), "first": univ.first().map(|v| v.show()), "last": univ.last().map(|v| v.show())}));
    rep.bounds[uname] = json!({"values": vals.len(), "max_nodes": n, "leaves": leaves.iter().map(|l| l.show()).collect::<Vec<_>>(), "keys": keys});
}

/// C14 at depth: the laws on pairs of small values that differ only in *where a container ends*
/// ([[1],2] against [[1,2]], {"a":{"b":1},"c":2} against {"a":{"b":1,"c":2}} ...) and on their
/// neighbours, bare and under d enclosing arrays / objects for d on both sides of 128 and 256 and
/// at 1 000 - a comparison that changes its algorithm below some depth (to bound its recursion,
/// say) is only seen there. `==` must be structural, `cmp` Equal exactly when equal and
/// antisymmetric, `partial_cmp` and the operators in line with `cmp`, equal values hash alike.
fn c14_deep(rep: &mut Report) {
    let n = |s: &str| RV::num(s);
    let a = |v: Vec<RV>| RV::Arr(v);
    let o = |e: Vec<(&str, RV)>| RV::Obj(e.into_iter().map(|(k, v)| (k.to_string(), v)).collect());
    let inner: Vec<RV> = vec![
        a(vec![a(vec![n("1")]), n("2")]),
        a(vec![a(vec![n("1"), n("2")])]),
        a(vec![n("1"), n("2")]),
        a(vec![a(vec![n("1")]), a(vec![n("2")])]),
        a(vec![n("1"), a(vec![n("2")])]),
        a(vec![a(vec![]), a(vec![])]),
        a(vec![a(vec![a(vec![])])]),
        a(vec![]),
        n("1"),
        o(vec![("a", o(vec![("b", n("1"))])), ("c", n("2"))]),
        o(vec![("a", o(vec![("b", n("1")), ("c", n("2"))]))]),
        o(vec![("a", o(vec![("b", n("1"))]))]),
        o(vec![("a", a(vec![n("1")])), ("c", n("2"))]),
        o(vec![("a", a(vec![n("1"), n("2")]))]),
        o(vec![]),
    ];
    let depths = [0usize, 1, 2, 63, 64, 65, 127, 128, 129, 130, 255, 256, 257, 1000];
    let wrap = |v: &RV, d: usize, objects: bool| {
        let mut v = v.clone();
        for level in 0..d {
            v = if objects && level % 2 == 0 { RV::Obj(vec![("w".to_string(), v)]) } else { RV::Arr(vec![v]) };
        }
        v
    };
    let items: Vec<(usize, bool)> = depths.iter().flat_map(|&d| [(d, false), (d, true)]).collect();
    let t = explore::par_tally(items, |(d, objects), t| {
        let rvs: Vec<RV> = inner.iter().map(|v| wrap(v, d, objects)).collect();
        let vals: Vec<Value> = rvs.iter().map(bridge::to_value).collect();
        let hashes: Vec<u64> = vals.iter().map(std_hash).collect();
        use std::cmp::Ordering::*;
        for i in 0..vals.len() {
            for j in 0..vals.len() {
                t.evals += 1;
                let (x, y) = (&vals[i], &vals[j]);
                let want_eq = inner[i] == inner[j];
                let c = x.cmp(y);
                let case = || json!({"kind": "deep-pair", "depth": d, "objects": objects, "a": inner[i].show(), "b": inner[j].show()});
                let mut bad = Vec::new();
                if (x == y) != want_eq || (x != y) == want_eq {
                    bad.push(format!("== is {}, the values are structurally {}", x == y, if want_eq { "equal" } else { "different" }));
                }
                if (c == Equal) != want_eq || x.partial_cmp(y) != Some(c) || y.cmp(x) != c.reverse() {
                    bad.push(format!("cmp = {c:?}, partial_cmp = {:?}, cmp reversed = {:?}", x.partial_cmp(y), y.cmp(x)));
                }
                if (x < y) != (c == Less) || (x <= y) != (c != Greater) || (x > y) != (c == Greater) || (x >= y) != (c != Less) {
                    bad.push("the comparison operators disagree with cmp".to_string());
                }
                if want_eq && hashes[i] != hashes[j] {
                    bad.push("equal values hash differently".to_string());
                }
                for b in bad {
                    t.violation("", format!("under {d} enclosing {}: {} against {}: {b}", if objects { "objects / arrays" } else { "arrays" }, inner[i].show(), inner[j].show()), case());
                }
            }
        }
        // (the values are released iteratively: their drop glue is recursive)
        t.nontrivial(&("deep", d, objects));
        t.outcome("deep pairs");
    });
    rep.bounds["deep_pairs"] = json!({"inner_values": inner.len(), "depths": depths, "wrappers": ["arrays", "objects and arrays alternating"]});
    rep.absorb(t);
}

/// C14, leaked guards: `remove`, `insert` and `insert_front` hand out guards that finish their
/// work when dropped; `mem::forget` on such a guard (safe Rust) stops the work half-way. Whatever
/// entries the object is left with, its equality, ordering and hashing must be those of a
/// freshly built object with the same entries (C14: "never on the internal state of its key
/// index"). Nothing is assumed about *which* entries remain after a leak (that would be C06,
/// which does not list leaks): the reference is rebuilt from the object's own entry list. All
/// key sequences of length <= 4 over three keys (and two long ones) x the three operations x
/// every key of the universe x every number of steps taken before the leak, bare and followed by
/// one more operation.
fn c14_leaks(rep: &mut Report) {
    use json_syntax::object::{Entry, Key};
    use json_syntax::{NumberBuf, Object};
    let keys = ["a", "b", LONG_KEY];
    let num = |i: usize| Value::Number(NumberBuf::new(i.to_string().into_bytes().into()).unwrap());
    let mut seqs: Vec<Vec<usize>> = vec![vec![]];
    let mut frontier = seqs.clone();
    for _ in 0..4 {
        let mut next = Vec::new();
        for s in &frontier {
            for k in 0..keys.len() {
                let mut s2 = s.clone();
                s2.push(k);
                next.push(s2);
            }
        }
        seqs.extend(next.iter().cloned());
        frontier = next;
    }
    // two long ones: 20 distinct keys (past the growth thresholds of the index) with a
    // triple of "a" spread over them, and 40 entries of one key
    let count = seqs.len() + 2;
    let items: Vec<usize> = (0..count).collect();
    let nseq = seqs.len();
    let t = explore::par_tally(items, |si, t| {
        let build = || -> Object {
            let mut o = Object::new();
            if si < nseq {
                for (i, &k) in seqs[si].iter().enumerate() {
                    o.push(Key::from(keys[k]), num(i));
                }
            } else if si == nseq {
                for i in 0..20 {
                    if i % 7 == 3 {
                        o.push(Key::from("a"), num(i));
                    }
                    o.push(Key::from(model::pumped_key(i).as_str()), num(i));
                }
            } else {
                for i in 0..40 {
                    o.push(Key::from("a"), num(i));
                }
            }
            o
        };
        let len = build().len();
        for target in ["a", "b", LONG_KEY, "absent"] {
            for op in 0..3u8 {
                for steps in 0..=(len.min(5) + 1) {
                    for follow in 0..6u8 {
                        t.evals += 1;
                        let case = json!({"kind": "leak", "object": si, "target": target, "op": op, "steps": steps, "follow": follow});
                        let r = explore::guard(|| {
                            let mut o = build();
                            match op {
                                0 => {
                                    let mut g = o.remove(target);
                                    for _ in 0..steps {
                                        if g.next().is_none() {
                                            break;
                                        }
                                    }
                                    std::mem::forget(g);
                                }
                                1 => {
                                    if let Some(mut g) = o.insert(Key::from(target), num(99)) {
                                        for _ in 0..steps {
                                            if g.next().is_none() {
                                                break;
                                            }
                                        }
                                        std::mem::forget(g);
                                    }
                                }
                                _ => {
                                    let mut g = o.insert_front(Key::from(target), num(99));
                                    for _ in 0..steps {
                                        if g.next().is_none() {
                                            break;
                                        }
                                    }
                                    std::mem::forget(g);
                                }
                            }
                            match follow {
                                0 => {}
                                1 => {
                                    o.push(Key::from(target), num(7));
                                }
                                2 => {
                                    o.remove(target).for_each(drop);
                                }
                                3 => {
                                    o.insert(Key::from("b"), num(8)).into_iter().flatten().for_each(drop);
                                }
                                4 => {
                                    o.remove_at(0);
                                }
                                _ => {
                                    o.sort();
                                }
                            }
                            let entries: Vec<Entry> = o.entries().to_vec();
                            let fresh = Object::from_vec(entries.clone());
                            let mut bad: Vec<String> = Vec::new();
                            use std::cmp::Ordering::Equal;
                            if !(o == fresh) || !(fresh == o) || o != fresh || fresh != o {
                                bad.push("== / != say the object differs from".into());
                            }
                            if o.cmp(&fresh) != Equal || fresh.cmp(&o) != Equal || o.partial_cmp(&fresh) != Some(Equal) {
                                bad.push("cmp does not give Equal against".into());
                            }
                            if std_hash(&o) != std_hash(&fresh) {
                                bad.push("the hash differs from that of".into());
                            }
                            let shown = fresh.entries().iter().map(|e| format!("{}:{}", e.key, e.value)).collect::<Vec<_>>().join(",");
                            let (vo, vf) = (Value::Object(o), Value::Object(fresh));
                            if vo != vf || vo.cmp(&vf) != Equal || std_hash(&vo) != std_hash(&vf) {
                                bad.push("wrapped in Value, ==, cmp or the hash tell it apart from".into());
                            }
                            (bad, shown)
                        });
                        match r {
                            Ok((bad, shown)) => {
                                if bad.is_empty() {
                                    t.outcome("leaked guard: equality, order and hash still those of the entries");
                                }
                                for b in bad {
                                    let opn = ["remove", "insert", "insert_front"][op as usize];
                                    t.violation("", format!("after {opn}({target:?}) on object #{si}, {steps} step(s) of the returned guard and mem::forget (follow-up {follow}): {b} a freshly built object with the same entries {{{shown}}}"), case.clone());
                                }
                            }
                            // (a panic here says nothing about equality: not C14's business)
                            Err(_) => t.outcome("leaked guard: the library panicked afterwards (not judged)"),
                        }
                    }
                }
            }
        }
        t.nontrivial(&si);
    });
    rep.bounds["leaked_guards"] = json!({"objects": count, "key_sequences_up_to": 4, "keys": 3, "operations": ["remove", "insert", "insert_front"], "targets": 4, "steps_before_the_leak": "0..=min(len,5)+1", "follow_ups": ["none", "push", "remove", "insert", "remove_at(0)", "sort"]});
    rep.absorb(t);
}

/// C14, construction routes: the same content built through every public route (so that
/// inline/heap storage, buffer capacity and table internals differ) must be ==, compare Equal
/// and hash identically; also inside arrays and objects (as key and as value).
/// Laws on wide objects: for every n through the size thresholds, a base object with n distinct
/// keys and every object obtained from it by at most two edits out of {a value lowered / raised
/// at position i, a key lowered / raised at a later position j, truncation just after i with the
/// next value raised / lowered, one entry appended}; on every such set of ~40 objects: `==` is
/// structural, cmp is antisymmetric, Equal exactly when equal, transitive on every triple, and
/// agrees with partial_cmp; equal objects hash equally. (Two differences pointing in opposite
/// directions, together with a shorter object that lies between, are what a comparison that
/// looks at keys and values separately gets wrong.)
fn c14_wide_laws(rep: &mut Report, tier: Tier) {
    use json_syntax::Object;
    use std::cmp::Ordering;
    let sizes: Vec<usize> = refmodel::pump::thresholds(tier.pick(257, 1025)).into_iter().filter(|&n| n >= 3).collect();
    let count = sizes.len();
    let t = explore::par_tally(sizes, |n, t| wide_laws_one(n, t));
    rep.bounds["wide_laws"] = json!({"sizes": count, "cap": tier.pick(257, 1025), "objects_per_size": 37, "edits": 8});
    rep.absorb(t);
}

fn wide_laws_one(n: usize, t: &mut Tally) {
    use json_syntax::Object;
    use std::cmp::Ordering;
    {
        let key = |i: usize| format!("k{i:05}");
        let base: Vec<(String, i64)> = (0..n).map(|i| (key(i), 5)).collect();
        let i = n / 3;
        let j = (2 * n / 3).max(i + 1).min(n - 1);
        type Ent = Vec<(String, i64)>;
        let edits: Vec<(&str, Box<dyn Fn(&mut Ent)>)> = vec![
            ("value[i] lowered", Box::new(move |e: &mut Ent| if i < e.len() { e[i].1 = 1 })),
            ("value[i] raised", Box::new(move |e: &mut Ent| if i < e.len() { e[i].1 = 9 })),
            ("key[j] lowered", Box::new(move |e: &mut Ent| if j < e.len() { e[j].0 = "a-low-key".into() })),
            ("key[j] raised", Box::new(move |e: &mut Ent| if j < e.len() { e[j].0 = "z-high-key".into() })),
            ("truncated after i+1, value[i+1] raised", Box::new(move |e: &mut Ent| { e.truncate(i + 2); if i + 1 < e.len() { e[i + 1].1 = 9 } })),
            ("truncated after i+1, value[i+1] lowered", Box::new(move |e: &mut Ent| { e.truncate(i + 2); if i + 1 < e.len() { e[i + 1].1 = 1 } })),
            ("one entry appended", Box::new(|e: &mut Ent| e.push(("k00000".into(), 5)))),
            ("last key duplicated from the first", Box::new(|e: &mut Ent| { let k = e[0].0.clone(); if let Some(l) = e.last_mut() { l.0 = k } })),
        ];
        let mut variants: Vec<(String, Ent)> = vec![("base".into(), base.clone())];
        for (a, (na, ea)) in edits.iter().enumerate() {
            let mut x = base.clone();
            ea(&mut x);
            variants.push((na.to_string(), x.clone()));
            for (nb, eb) in edits.iter().skip(a + 1) {
                let mut y = x.clone();
                eb(&mut y);
                variants.push((format!("{na} + {nb}"), y));
            }
        }
        let objs: Vec<Object> = variants.iter().map(|(_, e)| Object::from_vec(e.iter().map(|(k, v)| json_syntax::object::Entry::new(k.as_str().into(), Value::from(*v))).collect())).collect();
        let m = objs.len();
        let case = |a: usize, b: usize, c: Option<usize>| json!({"kind": "wide-law", "n": n, "a": variants[a].0, "b": variants[b].0, "c": c.map(|c| variants[c].0.clone())});
        let mut ord = vec![vec![Ordering::Equal; m]; m];
        for a in 0..m {
            for b in 0..m {
                t.evals += 1;
                let structural = variants[a].1 == variants[b].1;
                let o = objs[a].cmp(&objs[b]);
                ord[a][b] = o;
                if (objs[a] == objs[b]) != structural {
                    t.violation("", format!("n={n}: [{}] == [{}] is {}, the entry lists are {}", variants[a].0, variants[b].0, objs[a] == objs[b], if structural { "equal" } else { "different" }), case(a, b, None));
                }
                if (o == Ordering::Equal) != structural || objs[a].partial_cmp(&objs[b]) != Some(o) {
                    t.violation("", format!("n={n}: cmp([{}], [{}]) = {o:?} but the entry lists are {}", variants[a].0, variants[b].0, if structural { "equal" } else { "different" }), case(a, b, None));
                }
                if structural && std_hash(&objs[a]) != std_hash(&objs[b]) {
                    t.violation("", format!("n={n}: equal objects hash differently"), case(a, b, None));
                }
                // the comparison operators are provided methods that an impl may override: they
                // must say what cmp says, on the bare objects too
                {
                    let (x, y) = (&objs[a], &objs[b]);
                    if (x < y) != (o == Ordering::Less) || (x <= y) != (o != Ordering::Greater) || (x > y) != (o == Ordering::Greater) || (x >= y) != (o != Ordering::Less) || x.max(y) != (if o == Ordering::Greater { x } else { y }) || x.min(y) != (if o == Ordering::Greater { y } else { x }) {
                        t.violation("", format!("n={n}: the operators < <= > >= (or min / max) on [{}], [{}] disagree with cmp = {o:?}", variants[a].0, variants[b].0), case(a, b, None));
                    }
                }
                // the same through Value
                let (va, vb) = (Value::Object(objs[a].clone()), Value::Object(objs[b].clone()));
                if va.cmp(&vb) != o || (va == vb) != structural {
                    t.violation("", format!("n={n}: Value::Object compares differently from Object"), case(a, b, None));
                }
            }
        }
        for a in 0..m {
            for b in 0..m {
                if ord[a][b] != ord[b][a].reverse() {
                    t.violation("", format!("n={n}: cmp is not antisymmetric on [{}], [{}]", variants[a].0, variants[b].0), case(a, b, None));
                }
                if ord[a][b] != Ordering::Less {
                    continue;
                }
                for c in 0..m {
                    t.evals += 1;
                    if ord[b][c] == Ordering::Less && ord[a][c] != Ordering::Less {
                        t.violation("", format!("n={n}: cmp is not transitive: [{}] < [{}] < [{}] but cmp(first, last) = {:?}", variants[a].0, variants[b].0, variants[c].0, ord[a][c]), case(a, b, Some(c)));
                    }
                }
            }
        }
        t.nontrivial(&("wide", n));
        t.outcome("wide-object laws");
    }
}

fn c14_routes(rep: &mut Report) {
    use json_syntax::{NumberBuf, Object, Parse};
    let mut t = Tally::new();
    let contents: Vec<String> = ["", "a", "abcdefghijklmnop", "abcdefghijklmnopq", "abcdefghijklmnopqrstuvwx", "\u{e9}\u{1f600}\u{e9}\u{1f600}\u{e9}\u{1f600}x", &"z".repeat(100)]
        .iter()
        .map(|s| s.to_string())
        .collect();
    let mut check_all = |what: &str, routes: &[(&str, Value)], t: &mut Tally| {
        for (i, (ra, a)) in routes.iter().enumerate() {
            for (rb, b) in routes.iter().skip(i + 1) {
                t.evals += 1;
                let case = json!({"kind": "routes", "what": what, "route_a": ra, "route_b": rb, "value": a.to_string()});
                if a != b || b != a {
                    t.violation("", format!("{what}: built by [{ra}] != built by [{rb}]"), case.clone());
                }
                if a.cmp(b) != std::cmp::Ordering::Equal || a.partial_cmp(b) != Some(std::cmp::Ordering::Equal) {
                    t.violation("", format!("{what}: built by [{ra}] does not compare Equal to built by [{rb}]"), case.clone());
                }
                if std_hash(a) != std_hash(b) {
                    t.violation("", format!("{what}: built by [{ra}] hashes differently from built by [{rb}]"), case.clone());
                }
                t.outcome("route pair");
            }
        }
    };
    for c in &contents {
        // --- strings
        let lit = refmodel::RV::Str(c.clone()).show();
        // (a fresh buffer each time: cloning a String drops its spare capacity)
        let roomy = || {
            let mut r = String::with_capacity(200);
            r.push_str(c);
            r
        };
        let mut pushed = json_syntax::String::new();
        for ch in c.chars() {
            pushed.push(ch);
        }
        let mut grown = json_syntax::String::from(c.as_str());
        grown.push_str("0123456789012345678901234567890123456789");
        grown.truncate(c.len());
        let base = Value::from(c.as_str());
        let routes: Vec<(&str, Value)> = vec![
            ("From<&str>", base.clone()),
            ("From<String> with spare capacity", Value::from(roomy())),
            ("parse_str", Value::parse_str(&lit).unwrap().0),
            ("parse_slice", Value::parse_slice(lit.as_bytes()).unwrap().0),
            ("clone", base.clone().clone()),
            ("char by char", Value::String(pushed.clone())),
            ("grown then truncated", Value::String(grown.clone())),
            ("to_value", json_syntax::to_value(c.as_str()).unwrap()),
            ("from_serde_json", Value::from_serde_json(serde_json_string(c))),
            ("from_value::<Value>", json_syntax::from_value::<Value>(base.clone()).unwrap()),
        ];
        check_all("string", &routes, &mut t);
        t.nontrivial(&("string", c));
        // --- the same strings inside an array and as key / value of an object
        let wrap = |v: &Value, key: json_syntax::object::Key| {
            let mut o = Object::new();
            o.push(key, v.clone());
            let mut a = Vec::with_capacity(7);
            a.push(v.clone());
            a.push(Value::Object(o));
            Value::Array(a)
        };
        // the routes must be what their labels say (a cloned String would silently lose its
        // spare capacity and with it the heap-stored short key)
        if c.len() <= 16 && !c.is_empty() {
            let probe = json_syntax::object::Key::from(roomy());
            let inline = json_syntax::object::Key::from(c.as_str());
            if !probe.spilled() || inline.spilled() {
                rep.note(format!("construction routes: the roomy key for {c:?} is {} and the plain one is {}; the family does not cover heap-stored short keys", if probe.spilled() { "on the heap" } else { "inline" }, if inline.spilled() { "on the heap" } else { "inline" }));
            }
        }
        let nested: Vec<(&str, Value)> = vec![
            ("From<&str> key and value", wrap(&routes[0].1, c.as_str().into())),
            ("roomy key and value", wrap(&routes[1].1, json_syntax::object::Key::from(roomy()))),
            ("truncated long key", wrap(&routes[0].1, {
                let mut k = json_syntax::object::Key::from(format!("{c}{}", "x".repeat(40)));
                k.truncate(c.len());
                k
            })),
            ("clone of the roomy-key object", wrap(&routes[1].1, json_syntax::object::Key::from(roomy())).clone()),
            ("pushed key, parsed value", wrap(&routes[2].1, pushed.clone())),
            ("grown key, cloned value", wrap(&routes[4].1, grown.clone())),
            ("parsed document", Value::parse_str(&format!("[{lit},{{{lit}:{lit}}}]")).unwrap().0),
        ];
        check_all("array/object holding the string", &nested, &mut t);
    }
    // --- numbers: inline and heap-spilled spellings
    for n in ["0", "-1.5E+2", "1234567890123456", "12345678901234567", "12345678901234567890.5", &"9".repeat(60)] {
        let mut roomy = Vec::with_capacity(128);
        roomy.extend_from_slice(n.as_bytes());
        let base = Value::Number(NumberBuf::new(n.as_bytes().into()).unwrap());
        let routes: Vec<(&str, Value)> = vec![
            ("NumberBuf::new(exact)", base.clone()),
            ("NumberBuf::new(with spare capacity)", Value::Number(NumberBuf::new(roomy.into()).unwrap())),
            ("parse_str", Value::parse_str(n).unwrap().0),
            ("parse_slice padded", Value::parse_slice(format!(" {n} ").as_bytes()).unwrap().0),
            ("clone", base.clone().clone()),
            ("From<&Number>", Value::from(base.as_number().unwrap())),
        ];
        check_all("number", &routes, &mut t);
        t.nontrivial(&("number", n));
    }
    // --- arrays with different capacities
    let items = vec![Value::Null, Value::from("x"), Value::Boolean(true)];
    let mut roomy = Vec::with_capacity(64);
    roomy.extend(items.iter().cloned());
    let routes: Vec<(&str, Value)> = vec![
        ("vec!", Value::Array(items.clone())),
        ("with_capacity(64)", Value::Array(roomy)),
        ("parse", Value::parse_str("[null,\"x\",true]").unwrap().0),
        ("collect", Value::Array(items.iter().cloned().collect())),
    ];
    check_all("array", &routes, &mut t);
    rep.bounds["construction_routes"] = json!({"string_contents": contents.len(), "string_routes": 10, "nested_routes": 5, "numbers": 6, "number_routes": 6, "array_routes": 4});
    rep.tally.sample(json!({"routes_for_one_string": ["From<&str>", "From<String> with spare capacity", "parse_str", "parse_slice", "clone", "char by char", "grown then truncated", "to_value", "from_serde_json", "from_value::<Value>"]}));
    rep.absorb(t);
}

fn serde_json_string(s: &str) -> serde_json::Value {
    serde_json::Value::String(s.to_string())
}

/// C15: unordered equality against recursively sorted normal forms, all ordered pairs.
fn c15(rep: &mut Report, tier: Tier) {
    c15_universe(rep, tier, &[RV::num("0"), RV::num("1")], &["a", "b"], 5, "binary");
    c15_pumped(rep, tier);
    c15_routes(rep, tier);
    c15_interrupted(rep);
    c15_scalars(rep);
    c15_twins(rep);
    c15_reordered(rep);
    if tier == Tier::Thorough {
        c15_universe(rep, tier, &[RV::num("0"), RV::num("1.0"), RV::Null, RV::str("a")], &["a", "b", "c"], 4, "rich");
    }
}

/// C15 on pumped objects: many distinct keys (short and long), many duplicates of one key, two
/// interleaved keys; each compared with its reversal and a rotation (must be equal) and with
/// near copies (one value changed, one key changed, one multiplicity changed: must differ).
fn c15_pumped(rep: &mut Report, tier: Tier) {
    use refmodel::pump::{thresholds, Family};
    let mut items = Vec::new();
    for f in [Family::DistinctKeys, Family::DistinctLongKeys, Family::DuplicateKey, Family::InterleavedDuplicates] {
        for n in thresholds(tier.pick(513, 2049)) {
            if n >= 2 {
                items.push((f, n));
            }
        }
    }
    let count = items.len();
    let t = explore::par_tally(items, |(f, n), t| {
        let v = f.build(n);
        let RV::Obj(entries) = &v else { return };
        let mut rev = entries.clone();
        rev.reverse();
        let mut rot = entries.clone();
        rot.rotate_left(n / 3 + 1);
        let mut val_changed = entries.clone();
        val_changed[n / 2].1 = RV::str("changed");
        let mut key_changed = entries.clone();
        key_changed[n - 1].0 = "another-key".to_string();
        // one multiplicity changed: the last entry becomes a copy of the first
        let mut mult_changed = entries.clone();
        mult_changed[n - 1] = entries[0].clone();
        // the same entries with every value wrapped in a two-member object; on the other side
        // the entries are reversed and every other wrapper has its members swapped (so that
        // entries sharing a key hold values that are equal only up to member order, and rank
        // differently under the ordered comparison)
        let wrap = |x: &RV, swap: bool| {
            let mut m = vec![("a".to_string(), x.clone()), ("z".to_string(), RV::num("0"))];
            if swap {
                m.reverse();
            }
            RV::Obj(m)
        };
        let wrapped = RV::Obj(entries.iter().map(|(k, x)| (k.clone(), wrap(x, false))).collect());
        let mut wrapped_perm: Vec<(String, RV)> = entries.iter().enumerate().map(|(i, (k, x))| (k.clone(), wrap(x, i % 2 == 1))).collect();
        wrapped_perm.reverse();
        let mut wrapped_changed = wrapped_perm.clone();
        wrapped_changed[n / 2].1 = wrap(&RV::str("changed"), true);
        let nested = |x: &Value| Value::Array(vec![Value::Null, x.clone()]);
        for (what, left, other, want) in [
            ("reversed", v.clone(), RV::Obj(rev), true),
            ("rotated", v.clone(), RV::Obj(rot), true),
            ("one value changed", v.clone(), RV::Obj(val_changed), false),
            ("one key changed", v.clone(), RV::Obj(key_changed), false),
            ("last entry replaced by a copy of the first", v.clone(), RV::Obj(mult_changed), mult_equal(entries)),
            ("values wrapped in objects, members swapped in every other one, reversed", wrapped.clone(), RV::Obj(wrapped_perm), true),
            ("values wrapped in objects, one wrapped value changed", wrapped.clone(), RV::Obj(wrapped_changed), false),
        ] {
            let a = bridge::to_value(&left);
            let b = bridge::to_value(&other);
            t.evals += 1;
            let _ = want;
            let want = refmodel::unord::unordered_eq(&left, &other);
            for (x, y, dir) in [(&a, &b, "a~b"), (&b, &a, "b~a")] {
                if x.unordered_eq(y) != want || nested(x).unordered_eq(&nested(y)) != want {
                    t.violation("", format!("{f:?}({n}) vs {what} ({dir}): unordered_eq != {want}"), json!({"kind": "unordered-pair", "family": format!("{f:?}"), "n": n, "variant": what, "a": left.show(), "b": other.show()}));
                }
            }
        }
        t.nontrivial(&(format!("{f:?}"), n));
        t.outcome(&format!("pumped:{f:?}"));
    });
    rep.bounds["pumped"] = json!({"objects": count, "cap": tier.pick(513, 2049), "variants": ["reversed", "rotated", "one value changed", "one key changed", "one multiplicity changed", "values wrapped in objects with members swapped in every other one", "one wrapped value changed"]});
    rep.absorb(t);
}

/// Unordered comparison must not depend on how an object was built: objects grown through the
/// index thresholds and drained again (front / back / alternating / middle) against a freshly
/// built permutation of the same entries, in both directions, through Value and nested, and
/// against a permutation with one value changed.
fn c15_routes(rep: &mut Report, tier: Tier) {
    use json_syntax::object::Entry;
    use json_syntax::Object;
    let sizes: Vec<usize> = if tier == Tier::Quick { vec![5, 8, 15, 16, 29, 30, 57, 58, 113, 225] } else { vec![4, 5, 8, 9, 15, 16, 29, 30, 57, 58, 113, 114, 225, 226, 449, 450, 897, 898] };
    let mut items = Vec::new();
    for &n in &sizes {
        for keep in [1usize, 3, 8, n / 8 + 1] {
            for how in 0..4u8 {
                if keep < n {
                    items.push((n, keep, how));
                }
            }
        }
    }
    let count = items.len();
    let t = explore::par_tally(items, |(n, keep, how), t| route_one(n, keep, how, t));
    rep.bounds["routes"] = json!({"objects": count, "peaks": sizes, "kept": [1, 3, 8, "peak/8+1"], "removal_patterns": 4});
    rep.absorb(t);
}

/// "Scalars must be equal": every ordered pair of a list of scalars that are easily confused
/// (numerically equal spellings, signed zeros, a number and the string spelling it, the literals
/// and the strings naming them), bare, as an array item, as an object member and as the values of
/// a duplicated key: unordered equality holds exactly when the two scalars are the same scalar.
fn c15_scalars(rep: &mut Report) {
    let nums = ["0", "-0", "0.0", "-0.0", "0e0", "1", "1.0", "1e0", "10", "1e1", "1E1", "100e-1", "-1", "9007199254740993", "9007199254740992", "1.7976931348623157e308", "17976931348623157e292"];
    let mut scalars: Vec<RV> = vec![RV::Null, RV::Bool(true), RV::Bool(false)];
    scalars.extend(nums.iter().map(|n| RV::num(n)));
    scalars.extend(["", "0", "-0", "1", "null", "true", "false", "a", "A", "a\u{0}", "\u{e9}", "e\u{301}"].iter().map(|s| RV::str(s)));
    let n = scalars.len();
    let mut t = Tally::new();
    for (i, x) in scalars.iter().enumerate() {
        for (j, y) in scalars.iter().enumerate() {
            let same = i == j;
            let shapes: Vec<(&str, RV, RV, bool)> = vec![
                ("bare", x.clone(), y.clone(), same),
                ("array item", RV::Arr(vec![RV::Null, x.clone()]), RV::Arr(vec![RV::Null, y.clone()]), same),
                ("member", RV::Obj(vec![("k".into(), x.clone()), ("l".into(), RV::Null)]), RV::Obj(vec![("l".into(), RV::Null), ("k".into(), y.clone())]), same),
                ("values of a duplicated key, swapped", RV::Obj(vec![("a".into(), x.clone()), ("a".into(), y.clone())]), RV::Obj(vec![("a".into(), y.clone()), ("a".into(), x.clone())]), true),
                ("values of a duplicated key, one repeated", RV::Obj(vec![("a".into(), x.clone()), ("a".into(), x.clone())]), RV::Obj(vec![("a".into(), x.clone()), ("a".into(), y.clone())]), same),
            ];
            for (what, a, b, want) in shapes {
                t.evals += 1;
                let (va, vb) = (bridge::to_value(&a), bridge::to_value(&b));
                let got = explore::guard(|| (va.unordered_eq(&vb), vb.unordered_eq(&va)));
                if got != Ok((want, want)) {
                    t.violation("", format!("{what}: unordered_eq({}, {}) = {got:?}, expected {want}", a.show(), b.show()), json!({"kind": "unordered-pair", "a": a.show(), "b": b.show()}));
                }
            }
        }
        t.nontrivial(&("scalar", i));
    }
    t.outcome("scalar pairs");
    rep.bounds["scalars"] = json!({"scalars": n, "ordered_pairs": n * n, "shapes": 5});
    rep.absorb(t);
}

/// Duplicate keys whose values are themselves equal only *up to permutation* (C15): under one
/// key repeated 2 or 3 times, every sequence of values drawn from a small universe that contains
/// permutation twins ({"x":1,"y":2} / {"y":2,"x":1}), near twins (one value changed), a
/// sub-object and scalars; all ordered pairs of such objects, bare and inside an array. The
/// one-to-one matching of entries has to be made with the unordered relation itself - counting
/// or ranking entries with `==` and matching them with `unordered_eq` loses multiplicities here.
fn c15_twins(rep: &mut Report) {
    let n = |s: &str| RV::num(s);
    let o = |e: &[(&str, RV)]| RV::Obj(e.iter().map(|(k, v)| (k.to_string(), v.clone())).collect());
    let u: Vec<RV> = vec![
        o(&[("x", n("1")), ("y", n("2"))]),
        o(&[("y", n("2")), ("x", n("1"))]),
        o(&[("x", n("1")), ("y", n("9"))]),
        o(&[("y", n("9")), ("x", n("1"))]),
        o(&[("x", n("1"))]),
        n("1"),
        RV::Arr(vec![o(&[("x", n("1")), ("y", n("2"))])]),
        RV::Arr(vec![o(&[("y", n("2")), ("x", n("1"))])]),
    ];
    let mut objs: Vec<RV> = Vec::new();
    for a in &u {
        for b in &u {
            objs.push(RV::Obj(vec![("k".into(), a.clone()), ("k".into(), b.clone())]));
            objs.push(RV::Obj(vec![("k".into(), a.clone()), ("z".into(), RV::Null), ("k".into(), b.clone())]));
        }
    }
    for a in &u[..5] {
        for b in &u[..5] {
            for c in &u[..5] {
                objs.push(RV::Obj(vec![("k".into(), a.clone()), ("k".into(), b.clone()), ("k".into(), c.clone())]));
            }
        }
    }
    let vals: Vec<Value> = objs.iter().map(bridge::to_value).collect();
    let nf: Vec<RV> = objs.iter().map(refmodel::unord::normal).collect();
    let count = objs.len();
    let idx: Vec<usize> = (0..count).collect();
    let t = explore::par_tally(idx, |i, t| {
        for j in 0..count {
            // (objects with and without the extra member "z" are never equal: skip half of those)
            t.evals += 1;
            let want = nf[i] == nf[j];
            let case = || json!({"kind": "unordered-pair", "a": objs[i].show(), "b": objs[j].show()});
            match explore::guard(|| (vals[i].unordered_eq(&vals[j]), vals[j].unordered_eq(&vals[i]))) {
                Ok((g1, g2)) => {
                    if g1 != want || g2 != want {
                        t.violation("", format!("unordered_eq(a, b) = {g1}, unordered_eq(b, a) = {g2}, equal up to permutation of entries: {want}"), case());
                    }
                }
                Err(p) => t.violation("", format!("unordered_eq panicked: {p}"), case()),
            }
            if i % 7 == 0 && j % 5 == 0 {
                let (wa, wb) = (Value::Array(vec![Value::Null, vals[i].clone()]), Value::Array(vec![Value::Null, vals[j].clone()]));
                if wa.unordered_eq(&wb) != want {
                    t.violation("", format!("inside an array: unordered_eq = {}, expected {want}", !want), case());
                }
            }
            if want {
                t.outcome("twins: equal up to permutation");
            } else {
                t.outcome("twins: different");
            }
        }
        t.nontrivial(&("twins", i));
    });
    rep.bounds["permutation_twins_under_a_duplicated_key"] = json!({"value_universe": u.len(), "objects": count, "ordered_pairs": count * count});
    rep.absorb(t);
}

/// C15 after `canonicalize()` / `sort()`: an object whose entries were reordered in place (keys
/// on which byte order and UTF-16 order differ, so that the two operations really move entries)
/// is unordered-equal to itself, to its original and to every permutation, in both directions.
fn c15_reordered(rep: &mut Report) {
    use json_syntax::object::{Entry, Key};
    use json_syntax::Object;
    let keys = ["\u{e000}", "\u{10000}", "a", "\u{ffff}b", "\u{1d11e}"];
    let mut seqs: Vec<Vec<usize>> = vec![vec![]];
    let mut frontier = seqs.clone();
    for _ in 0..3 {
        let mut next = Vec::new();
        for q in &frontier {
            for k in 0..keys.len() {
                let mut q2 = q.clone();
                q2.push(k);
                next.push(q2);
            }
        }
        seqs.extend(next.iter().cloned());
        frontier = next;
    }
    let mut t = Tally::new();
    for q in &seqs {
        let build = || Object::from_vec(q.iter().enumerate().map(|(i, &k)| Entry::new(Key::from(keys[k]), Value::from(i as u32))).collect());
        for op in 0..3u8 {
            t.evals += 1;
            let case = json!({"kind": "unordered-reordered", "keys": q.iter().map(|&k| keys[k]).collect::<Vec<_>>(), "op": op});
            let r = explore::guard(|| {
                let original = build();
                let mut moved = build();
                match op {
                    0 => moved.canonicalize(),
                    1 => moved.sort(),
                    _ => {
                        moved.sort();
                        moved.canonicalize();
                    }
                }
                let reversed = Object::from_vec(original.entries().iter().rev().cloned().collect());
                let mut bad = Vec::new();
                for (name, x, y) in [("itself", &moved, &moved), ("its original", &moved, &original), ("the reversed original", &moved, &reversed)] {
                    if !x.unordered_eq(y) || !y.unordered_eq(x) {
                        bad.push(format!("the reordered object against {name}: unordered_eq = {} / {}", x.unordered_eq(y), y.unordered_eq(x)));
                    }
                }
                let (vm, vo) = (Value::Object(moved), Value::Object(original));
                if !vm.unordered_eq(&vo) || !vo.unordered_eq(&vm) || !(vm.as_unordered() == vo.as_unordered()) {
                    bad.push("wrapped in Value: unordered_eq / as_unordered() == is false".to_string());
                }
                bad
            });
            match r {
                Ok(bad) => {
                    for b in bad {
                        t.violation("", format!("after {} on an object with the keys {:?}: {b}", ["canonicalize()", "sort()", "sort() and canonicalize()"][op as usize], q.iter().map(|&k| keys[k]).collect::<Vec<_>>()), case.clone());
                    }
                }
                Err(p) => t.violation("", format!("panicked: {p}"), case),
            }
        }
        t.nontrivial(&("reordered", q.clone()));
    }
    t.outcome("reordered in place, then compared");
    rep.bounds["reordered_in_place"] = json!({"key_sequences": seqs.len(), "operations": ["canonicalize", "sort", "sort + canonicalize"]});
    rep.absorb(t);
}

/// Objects whose construction was interrupted: `extend` from a source that panics after k items
/// (the panic is caught, the object kept) against a freshly built permutation of its entries.
fn c15_interrupted(rep: &mut Report) {
    use json_syntax::object::{Entry, Key};
    use json_syntax::Object;
    let mut t = Tally::new();
    for base in 0..=3usize {
        for k in 1..=3usize {
            for entries_flavour in [true, false] {
                t.evals += 1;
                let case = json!({"kind": "unordered-interrupted", "base": base, "yielded_before_panic": k, "entries": entries_flavour});
                let r = explore::guard(|| {
                    let mut o = Object::new();
                    for i in 0..base {
                        o.push(Key::from(format!("b{i}")), Value::from(i as u32));
                    }
                    let mut i = 0;
                    let src = std::iter::from_fn(|| {
                        if i < k {
                            i += 1;
                            Some((Key::from(format!("x{}", i % 2)), Value::from(i as u32)))
                        } else {
                            panic!("the source of extend failed")
                        }
                    });
                    let caught = if entries_flavour {
                        std::panic::catch_unwind(std::panic::AssertUnwindSafe(|| o.extend(src.map(|(k, v)| Entry::new(k, v)))))
                    } else {
                        std::panic::catch_unwind(std::panic::AssertUnwindSafe(|| o.extend(src)))
                    };
                    let mut rev: Vec<Entry> = o.entries().to_vec();
                    rev.reverse();
                    let fresh = Object::from_vec(rev);
                    (caught.is_err(), o.len(), fresh.unordered_eq(&o), o.unordered_eq(&fresh), o.unordered_eq(&o.clone()), Value::Object(fresh).unordered_eq(&Value::Object(o)))
                });
                match r {
                    Ok((panicked, len, a, b, c, d)) => {
                        if !panicked || len != base + k {
                            t.violation("", format!("extend from a source that panics after {k} items: panicked={panicked}, the object has {len} entries, expected {}", base + k), case.clone());
                        }
                        if !(a && b && c && d) {
                            t.violation("", format!("an object whose extend was interrupted after {k} items is not unordered-equal to a permutation of its own entries (fresh~o {a}, o~fresh {b}, o~clone {c}, as values {d})"), case.clone());
                        }
                    }
                    Err(p) => t.violation("", format!("panicked outside the caught region: {p}"), case.clone()),
                }
            }
        }
    }
    t.outcome("interrupted construction");
    rep.bounds["interrupted"] = json!({"base_sizes": 4, "items_before_the_panic": 3, "flavours": 2});
    rep.absorb(t);
}

fn route_one(n: usize, keep: usize, how: u8, t: &mut Tally) {
    use json_syntax::object::Entry;
    use json_syntax::Object;
    {
        let (drained, model) = match explore::guard(|| model::Init::GrowShrink(n, keep, how).build()) {
            Ok(x) => x,
            Err(p) => {
                t.violation("", format!("building the drained object panicked: {p}"), json!({"kind": "unordered-route", "n": n, "keep": keep, "how": how}));
                return;
            }
        };
        let entries: Vec<Entry> = drained.entries().to_vec();
        let mut rev = entries.clone();
        rev.reverse();
        let fresh = Object::from_vec(rev.clone());
        let mut changed = rev.clone();
        changed[0].value = Value::from("changed");
        let other = Object::from_vec(changed);
        let case = || json!({"kind": "unordered-route", "n": n, "keep": keep, "how": how, "entries": model.entries.len()});
        t.evals += 1;
        let (vd, vf, vo) = (Value::Object(drained.clone()), Value::Object(fresh.clone()), Value::Object(other.clone()));
        let nest = |x: &Value| Value::Array(vec![Value::Null, x.clone()]);
        let r = explore::guard(|| {
            let mut bad = Vec::new();
            let yes = [
                ("fresh ~ drained", fresh.unordered_eq(&drained)),
                ("drained ~ fresh", drained.unordered_eq(&fresh)),
                ("drained ~ drained.clone()", drained.unordered_eq(&drained.clone())),
                ("drained.clone() ~ drained", drained.clone().unordered_eq(&drained)),
                ("Value: fresh ~ drained", vf.unordered_eq(&vd)),
                ("Value: drained ~ fresh", vd.unordered_eq(&vf)),
                ("nested: fresh ~ drained", nest(&vf).unordered_eq(&nest(&vd))),
                ("nested: drained ~ fresh", nest(&vd).unordered_eq(&nest(&vf))),
            ];
            for (what, got) in yes {
                if !got {
                    bad.push(format!("{what} is false for a permutation of the same entries"));
                }
            }
            let no = [("changed ~ drained", other.unordered_eq(&drained)), ("drained ~ changed", drained.unordered_eq(&other)), ("Value: drained ~ changed", vd.unordered_eq(&vo))];
            for (what, got) in no {
                if got {
                    bad.push(format!("{what} is true although one value differs"));
                }
            }
            bad
        });
        match r {
            Ok(bad) => {
                for b in bad {
                    t.violation("", format!("object grown to {n} keys and drained to {keep} (mode {how}): {b}"), case());
                }
            }
            Err(p) => t.violation("", format!("unordered comparison panicked: {p}"), case()),
        }
        t.nontrivial(&(n, keep, how));
        t.outcome("construction routes");
    }
}

/// (helper) whether replacing the last entry by a copy of the first leaves the multiset unchanged
fn mult_equal(entries: &[(String, RV)]) -> bool {
    entries.first() == entries.last()
}

fn c15_universe(rep: &mut Report, tier: Tier, leaves: &[RV], keys: &[&str], n: usize, uname: &str) {
    let g = Gen::new(leaves, keys, n);
    let univ = g.up_to(n);
    let expected: u128 = (1..=n).map(|i| Gen::expected_count(leaves.len(), keys.len(), i)).sum();
    if univ.len() as u128 != expected {
        rep.machinery.push(format!("value generator produced {} values, recurrence says {expected}", univ.len()));
    }
    let vals: Vec<Value> = univ.iter().map(bridge::to_value).collect();
    // class id of the normal form
    let mut classes: std::collections::HashMap<RV, u32> = Default::default();
    let cls: Vec<u32> = univ
        .iter()
        .map(|v| {
            let nf = refmodel::unord::normal(v);
            let next = classes.len() as u32;
            *classes.entry(nf).or_insert(next)
        })
        .collect();
    let idx: Vec<usize> = (0..vals.len()).collect();
    let budget = Budget::for_tier(tier, 45, 900);
    let t = explore::par_tally(idx.clone(), |i, t| {
        if budget.expired() {
            t.outcome("row-skipped:time-cap");
            return;
        }
        let a = &vals[i];
        for j in 0..vals.len() {
            let b = &vals[j];
            t.evals += 1;
            let want = cls[i] == cls[j];
            let got = a.unordered_eq(b);
            let case = || json!({"kind": "unordered-pair", "a": univ[i].show(), "b": univ[j].show()});
            if got != want {
                t.violation("", format!("unordered_eq = {got}, normal forms equal = {want}"), case());
            }
            let got2 = a.as_unordered() == b.as_unordered();
            if got2 != got {
                t.violation("", format!("as_unordered() == gives {got2}, unordered_eq gives {got}"), case());
            }
            if a == b && !got {
                t.violation("", "== holds but unordered_eq does not".to_string(), case());
            }
            if want {
                t.outcome(if i == j { "pair:reflexive" } else if a == b { "pair:equal" } else { "pair:permutation-equal" });
                if i != j {
                    t.nontrivial(&(i, j));
                }
            } else {
                let near = cls_near(&univ[i], &univ[j]);
                t.outcome(if near { "pair:different-same-keys-and-size" } else { "pair:different" });
                if near {
                    t.nontrivial(&(i, j));
                }
            }
        }
    });
    if t.hist.contains_key("row-skipped:time-cap") {
        rep.exhaustive = false;
        rep.note(format!("time cap: {} of {} rows of the pair matrix were skipped", t.hist["row-skipped:time-cap"], vals.len()));
    }
    rep.absorb(t);

    // the owned wrapper, symmetry and transitivity on the size<=3 universe
    let small: Vec<usize> = (0..univ.len()).filter(|&i| univ[i].size() <= 3).collect();
    let mut t = Tally::new();
    let eqm: Vec<Vec<bool>> = small.iter().map(|&i| small.iter().map(|&j| vals[i].unordered_eq(&vals[j])).collect()).collect();
    for (x, &i) in small.iter().enumerate() {
        for (y, &j) in small.iter().enumerate() {
            t.evals += 1;
            let owned = Unordered(vals[i].clone()) == Unordered(vals[j].clone());
            if owned != eqm[x][y] {
                t.violation("", "Unordered(a) == Unordered(b) disagrees with unordered_eq".to_string(), json!({"kind": "unordered-pair", "a": univ[i].show(), "b": univ[j].show()}));
            }
            // the generic carriers: Meta<T, M> compares metadata too, Vec<T> compares item-wise in order
            let (ma, mb, mc) = (locspan::Meta(vals[i].clone(), 1u8), locspan::Meta(vals[j].clone(), 1u8), locspan::Meta(vals[j].clone(), 2u8));
            if ma.unordered_eq(&mb) != eqm[x][y] || ma.unordered_eq(&mc) {
                t.violation("", "Meta<Value, M>::unordered_eq disagrees with unordered_eq of the values and equality of the metadata".to_string(), json!({"kind": "unordered-pair", "a": univ[i].show(), "b": univ[j].show()}));
            }
            let (va, vb) = (vec![Value::Null, vals[i].clone()], vec![Value::Null, vals[j].clone()]);
            if va.unordered_eq(&vb) != eqm[x][y] || va.unordered_eq(&vec![vals[j].clone(), Value::Null]) != (eqm[x][y] && vals[i] == Value::Null) || va.unordered_eq(&vec![vals[j].clone()]) {
                t.violation("", "Vec<Value>::unordered_eq is not the item-wise comparison in order".to_string(), json!({"kind": "unordered-pair", "a": univ[i].show(), "b": univ[j].show()}));
            }
            if eqm[x][y] != eqm[y][x] {
                t.violation("", "unordered_eq is not symmetric".to_string(), json!({"kind": "unordered-pair", "a": univ[i].show(), "b": univ[j].show()}));
            }
            if !eqm[x][y] {
                continue;
            }
            for (z, &k) in small.iter().enumerate() {
                t.evals += 1;
                if eqm[y][z] && !eqm[x][z] {
                    t.violation("", "unordered_eq is not transitive".to_string(), json!({"kind": "unordered-triple", "a": univ[i].show(), "b": univ[j].show(), "c": univ[k].show()}));
                }
            }
        }
    }
    t.outcome_n("small-universe-size", small.len() as u64);
    rep.absorb(t);

    // objects as such (Object: UnorderedPartialEq), all ordered pairs of the objects in the universe
    let objs: Vec<usize> = (0..univ.len()).filter(|&i| matches!(univ[i], RV::Obj(_)) && univ[i].size() <= n.min(4)).collect();
    let t = explore::par_tally(objs.clone(), |i, t| {
        let a = vals[i].as_object().unwrap();
        for &j in &objs {
            let b = vals[j].as_object().unwrap();
            t.evals += 1;
            let got = a.unordered_eq(b);
            if got != (cls[i] == cls[j]) || (a.as_unordered() == b.as_unordered()) != got {
                t.violation("", format!("Object::unordered_eq = {got}, normal forms equal = {}", cls[i] == cls[j]), json!({"kind": "unordered-pair", "a": univ[i].show(), "b": univ[j].show()}));
            }
        }
        t.outcome("object-rows");
    });
    rep.absorb(t);
    rep.tally.sample(json!({"universe": vals.len(), "classes": classes.len(), "example_a": univ[univ.len() / 2].show(), "example_b": univ[univ.len() - 1].show()}));
    rep.bounds[uname] = json!({"values": vals.len(), "max_nodes": n, "leaves": leaves.iter().map(|l| l.show()).collect::<Vec<_>>(), "keys": keys, "ordered_pairs": (vals.len() as u64) * (vals.len() as u64), "normal_form_classes": classes.len()});
}

/// "near" pairs: same size and same multiset of keys at the root (the interesting non-equal pairs)
fn cls_near(a: &RV, b: &RV) -> bool {
    match (a, b) {
        (RV::Obj(x), RV::Obj(y)) => {
            let mut kx: Vec<&String> = x.iter().map(|e| &e.0).collect();
            let mut ky: Vec<&String> = y.iter().map(|e| &e.0).collect();
            kx.sort();
            ky.sort();
            kx == ky && a.size() == b.size()
        }
        _ => false,
    }
}

fn replay_pair(case: &J, kind: &str) -> Result<(), String> {
    use json_syntax::Parse;
    let a = Value::parse_str(case["a"].as_str().unwrap_or("")).map_err(|e| e.to_string())?.0;
    let b = Value::parse_str(case["b"].as_str().unwrap_or("")).map_err(|e| e.to_string())?.0;
    let (ra, rb) = (bridge::from_value(&a), bridge::from_value(&b));
    if kind == "unordered-pair" {
        let want = refmodel::unord::unordered_eq(&ra, &rb);
        let got = a.unordered_eq(&b);
        if got != want {
            return Err(format!("unordered_eq = {got}, reference = {want}"));
        }
    } else {
        if (a == b) != (ra == rb) || ((a.cmp(&b) == std::cmp::Ordering::Equal) != (a == b)) || (a == b && std_hash(&a) != std_hash(&b)) {
            return Err("Eq/Ord/Hash incoherent on this pair".into());
        }
    }
    Ok(())
}

fn main() {
    let args = Args::parse();
    explore::quiet_panics();
    explore::init_threads();
    if let Some(path) = &args.replay {
        let j: J = explore::serde_json::from_str(&std::fs::read_to_string(path).expect("read replay")).expect("parse replay");
        let case = &j["case"];
        let kind = case["kind"].as_str().unwrap_or("");
        let r = match kind {
            "object-history" => replay_history(case),
            "unordered-pair" | "value-pair" => replay_pair(case, kind),
            "unordered-interrupted" => {
                let mut rep2 = Report::new(&Args::parse(), "exploration", "replay");
                c15_interrupted(&mut rep2);
                match rep2.tally.violations.first() {
                    None => Ok(()),
                    Some(v) => Err(v.what.clone()),
                }
            }
            "unordered-route" => {
                let mut t = Tally::new();
                route_one(case["n"].as_u64().unwrap_or(5) as usize, case["keep"].as_u64().unwrap_or(1) as usize, case["how"].as_u64().unwrap_or(0) as u8, &mut t);
                match t.violations.first() {
                    None => Ok(()),
                    Some(v) => Err(v.what.clone()),
                }
            }
            "wide-law" => {
                let mut t = Tally::new();
                wide_laws_one(case["n"].as_u64().unwrap_or(3) as usize, &mut t);
                match t.violations.first() {
                    None => Ok(()),
                    Some(v) => Err(v.what.clone()),
                }
            }
            other => Err(format!("replay of case kind {other:?} is not supported; see the 'what' field")),
        };
        match r {
            Ok(()) => {
                println!("replay: the case passes on the current tree");
                std::process::exit(0);
            }
            Err(e) => {
                println!("replay: {e}");
                println!("VIOLATION property={} replay={}", args.property, path.display());
                std::process::exit(1);
            }
        }
    }
    let code = match args.property.as_str() {
        "C06" => {
            let mut rep = Report::new(&args, "model_checking", "E-STATE: stateright BFS to fixpoint over the real Object + Vec model, 3 hash modes");
            state_search(&mut rep, args.tier, "C06");
            rep.rule = "explicit-state BFS; a state is (entries, index dump) of the real Object; every transition executes the real operation and the Vec model, compares the operation result, then audits 14 key queries for every key of the universe and one absent key against linear scans plus the index invariant (hook H1); distinct_nontrivial is not used at this level".into();
            rep.assumptions.push("hashbrown's RawTable and the hash seam (hook H2) behave as documented; R-obj (DESIGN A.4) is the documented semantics".into());
            rep.finish()
        }
        "C14" => {
            let mut rep = Report::new(&args, "model_checking", "E-STATE history search (shared with C06) + E-ENUM laws over all pairs/triples");
            state_search(&mut rep, args.tier, "C14");
            c14_laws(&mut rep, args.tier);
            c14_routes(&mut rep);
            c14_wide_laws(&mut rep, args.tier);
            c14_leaks(&mut rep);
            c14_deep(&mut rep);
            rep.rule = "histories: every reachable state of the C06 search is compared (==, cmp, partial_cmp, hash, also wrapped in Value) with from_vec / from_iter / clone builds of the same entry list, under three hash modes; laws: all ordered pairs and all triples a<=b<=c of the universe of all values up to the node bound".into();
            rep.assumptions.push("std's DefaultHasher::new() (fixed keys) is the probe hasher; equality of hashes is required only for equal values".into());
            rep.finish()
        }
        "C15" => {
            let mut rep = Report::new(&args, "exploration", "E-ENUM: all ordered pairs of all values up to a node bound vs. sorted normal forms");
            c15(&mut rep, args.tier);
            rep.rule = "universe = every value with at most N nodes over leaves {0,1} and keys {a,b} (all multiplicity patterns of duplicate keys, nested objects, arrays); every ordered pair is executed; non-trivial = distinct pairs (i != j) that are either permutation-equal or differ while having the same root keys and size".into();
            rep.assumptions.push("R-unord: two values are equal up to permutation iff their recursively sorted normal forms are equal".into());
            rep.finish()
        }
        other => {
            eprintln!("chk-object does not serve {other}");
            2
        }
    };
    std::process::exit(code);
}
