//! E-STATE model for C06 / C14: a stateright `Model` whose state contains the *real*
//! `json_syntax::Object` next to the `Vec` reference model (R-obj, DESIGN A.4).

use json_syntax::object::{Entry, Key};
use json_syntax::{Object, Value};
use refmodel::obj::Model as RObj;
use stateright::{Model, Property};
use std::fmt;
use std::hash::{Hash, Hasher};

pub type Val = u8;

pub fn val(v: Val) -> Value {
    Value::Number(v.into())
}

pub fn unval(v: &Value) -> Val {
    v.as_number().and_then(|n| n.as_str().parse().ok()).unwrap_or(255)
}

pub fn key(k: &str) -> Key {
    k.into()
}

/// How a removal iterator is treated before it is dropped.
#[derive(Clone, Copy, Debug, PartialEq, Eq, Hash)]
pub enum Disc {
    /// dropped untouched
    Drop,
    /// one `next()`, then dropped
    One,
    /// fully consumed
    All,
    /// untouched, then dropped *while the thread unwinds* from a panic of the caller (caught)
    Unwind,
    /// one `next()`, then dropped while the thread unwinds
    OneUnwind,
}

#[derive(Clone, Debug, PartialEq, Eq, Hash)]
pub enum Act {
    Push(String, Val),
    PushEntry(String, Val),
    PushFront(String, Val),
    PushEntryFront(String, Val),
    Insert(String, Val, Disc),
    InsertFront(String, Val, Disc),
    Remove(String, Disc),
    RemoveUnique(String),
    RemoveAt(usize),
    Sort,
    /// `canonicalize()` (feature canonicalize): entries in UTF-16 key order, index rebuilt
    Canonicalize,
    /// `get_mut(k)`: write v into every matching value
    GetMutWrite(String, Val),
    /// `iter_mut()`: write v into the value at position i
    IterMutWrite(usize, Val),
    /// `get_unique_mut(k)`: write v if unique
    GetUniqueMutWrite(String, Val),
    GetOrInsertWith(String, Val),
    /// `get_or_insert_with(k, f)` / `get_mut_or_insert_with(k, f)` where `f` panics (it runs only
    /// when the key is absent); the panic is caught and the object must be unchanged
    GetOrInsertWithPanics(String, bool),
    GetMutOrInsertWithWrite(String, Val),
    /// continue on `clone()`
    Clone,
    /// continue on `d.clone_from(&object)` where `d` is an independently built object that
    /// already holds n entries (its own allocation, its own hasher state)
    CloneFrom(usize),
    /// `extend` with (Key, Value) pairs
    ExtendPairs(Vec<(String, Val)>),
    /// `extend` with entries
    ExtendEntries(Vec<(String, Val)>),
    /// `extend` from an iterator (of entries if the flag is set, of pairs otherwise) that yields
    /// the given items and then *panics*; the panic is caught and the object is used again
    /// (what was yielded before the panic has been pushed, nothing else changed)
    ExtendPanics(Vec<(String, Val)>, bool),
    /// continue on `entries.collect::<Object>()` (FromIterator<Entry>)
    FromIterEntries,
    /// continue on `pairs.collect::<Object>()` (FromIterator<(Key, Value)>)
    FromIterPairs,
    /// continue on `Object::from_vec(entries)`
    FromVec,
    /// continue on `Object::from(entries)` after `into_iter().collect::<Vec<_>>()`
    IntoIterFrom,
    /// `&mut object` into_iter: write v at position i
    RefMutIntoIterWrite(usize, Val),
}

impl fmt::Display for Disc {
    fn fmt(&self, f: &mut fmt::Formatter<'_>) -> fmt::Result {
        f.write_str(match self {
            Disc::Drop => "drop",
            Disc::One => "one",
            Disc::All => "all",
            Disc::Unwind => "unwind",
            Disc::OneUnwind => "one-unwind",
        })
    }
}

fn pairs_str(p: &[(String, Val)]) -> String {
    p.iter().map(|(k, v)| format!("{k}={v}")).collect::<Vec<_>>().join(";")
}

impl fmt::Display for Act {
    fn fmt(&self, f: &mut fmt::Formatter<'_>) -> fmt::Result {
        match self {
            Act::Push(k, v) => write!(f, "push({k},{v})"),
            Act::PushEntry(k, v) => write!(f, "push_entry({k},{v})"),
            Act::PushFront(k, v) => write!(f, "push_front({k},{v})"),
            Act::PushEntryFront(k, v) => write!(f, "push_entry_front({k},{v})"),
            Act::Insert(k, v, d) => write!(f, "insert({k},{v},{d})"),
            Act::InsertFront(k, v, d) => write!(f, "insert_front({k},{v},{d})"),
            Act::Remove(k, d) => write!(f, "remove({k},{d})"),
            Act::RemoveUnique(k) => write!(f, "remove_unique({k})"),
            Act::RemoveAt(i) => write!(f, "remove_at({i})"),
            Act::Sort => write!(f, "sort()"),
            Act::Canonicalize => write!(f, "canonicalize()"),
            Act::GetMutWrite(k, v) => write!(f, "get_mut_write({k},{v})"),
            Act::IterMutWrite(i, v) => write!(f, "iter_mut_write({i},{v})"),
            Act::GetUniqueMutWrite(k, v) => write!(f, "get_unique_mut_write({k},{v})"),
            Act::GetOrInsertWith(k, v) => write!(f, "get_or_insert_with({k},{v})"),
            Act::GetOrInsertWithPanics(k, m) => write!(f, "get_{}or_insert_with_panicking({k})", if *m { "mut_" } else { "" }),
            Act::GetMutOrInsertWithWrite(k, v) => write!(f, "get_mut_or_insert_with_write({k},{v})"),
            Act::Clone => write!(f, "clone()"),
            Act::CloneFrom(n) => write!(f, "clone_from({n})"),
            Act::ExtendPairs(p) => write!(f, "extend_pairs({})", pairs_str(p)),
            Act::ExtendEntries(p) => write!(f, "extend_entries({})", pairs_str(p)),
            Act::ExtendPanics(p, e) => write!(f, "extend_{}_then_panic({})", if *e { "entries" } else { "pairs" }, pairs_str(p)),
            Act::FromIterEntries => write!(f, "from_iter_entries()"),
            Act::FromIterPairs => write!(f, "from_iter_pairs()"),
            Act::FromVec => write!(f, "from_vec()"),
            Act::IntoIterFrom => write!(f, "into_iter_from()"),
            Act::RefMutIntoIterWrite(i, v) => write!(f, "ref_mut_into_iter_write({i},{v})"),
        }
    }
}

impl Act {
    pub fn parse(s: &str) -> Option<Act> {
        let (name, rest) = s.split_once('(')?;
        let args = rest.strip_suffix(')')?;
        let a: Vec<&str> = if args.is_empty() { vec![] } else { args.split(',').collect() };
        let disc = |s: &str| match s {
            "drop" => Some(Disc::Drop),
            "one" => Some(Disc::One),
            "all" => Some(Disc::All),
            "unwind" => Some(Disc::Unwind),
            "one-unwind" => Some(Disc::OneUnwind),
            _ => None,
        };
        let pairs = |s: &str| -> Option<Vec<(String, Val)>> {
            if s.is_empty() {
                return Some(vec![]);
            }
            s.split(';')
                .map(|p| {
                    let (k, v) = p.rsplit_once('=')?;
                    Some((k.to_string(), v.parse().ok()?))
                })
                .collect()
        };
        Some(match name {
            "push" => Act::Push(a[0].into(), a[1].parse().ok()?),
            "push_entry" => Act::PushEntry(a[0].into(), a[1].parse().ok()?),
            "push_front" => Act::PushFront(a[0].into(), a[1].parse().ok()?),
            "push_entry_front" => Act::PushEntryFront(a[0].into(), a[1].parse().ok()?),
            "insert" => Act::Insert(a[0].into(), a[1].parse().ok()?, disc(a[2])?),
            "insert_front" => Act::InsertFront(a[0].into(), a[1].parse().ok()?, disc(a[2])?),
            "remove" => Act::Remove(a[0].into(), disc(a[1])?),
            "remove_unique" => Act::RemoveUnique(a[0].into()),
            "remove_at" => Act::RemoveAt(a[0].parse().ok()?),
            "sort" => Act::Sort,
            "canonicalize" => Act::Canonicalize,
            "get_mut_write" => Act::GetMutWrite(a[0].into(), a[1].parse().ok()?),
            "iter_mut_write" => Act::IterMutWrite(a[0].parse().ok()?, a[1].parse().ok()?),
            "get_unique_mut_write" => Act::GetUniqueMutWrite(a[0].into(), a[1].parse().ok()?),
            "get_or_insert_with" => Act::GetOrInsertWith(a[0].into(), a[1].parse().ok()?),
            "get_or_insert_with_panicking" => Act::GetOrInsertWithPanics(a[0].into(), false),
            "get_mut_or_insert_with_panicking" => Act::GetOrInsertWithPanics(a[0].into(), true),
            "get_mut_or_insert_with_write" => Act::GetMutOrInsertWithWrite(a[0].into(), a[1].parse().ok()?),
            "clone" => Act::Clone,
            "clone_from" => Act::CloneFrom(a[0].parse().ok()?),
            "extend_pairs" => Act::ExtendPairs(pairs(args)?),
            "extend_entries" => Act::ExtendEntries(pairs(args)?),
            "extend_entries_then_panic" => Act::ExtendPanics(pairs(args)?, true),
            "extend_pairs_then_panic" => Act::ExtendPanics(pairs(args)?, false),
            "from_iter_entries" => Act::FromIterEntries,
            "from_iter_pairs" => Act::FromIterPairs,
            "from_vec" => Act::FromVec,
            "into_iter_from" => Act::IntoIterFrom,
            "ref_mut_into_iter_write" => Act::RefMutIntoIterWrite(a[0].parse().ok()?, a[1].parse().ok()?),
            _ => return None,
        })
    }
}

/// How the object of an initial state is built.
#[derive(Clone, Copy, Debug, PartialEq, Eq, Hash)]
pub enum Init {
    Empty,
    /// `from_vec` of n distinct keys p00..p(n-1)
    FromVec(usize),
    /// `push` of n distinct keys followed by removal (`remove_at(0)`) of the first m
    PushRemove(usize, usize),
    /// `push` of n entries that all carry the key "d"
    Dups(usize),
    /// `push` of n distinct keys, then `remove_at` until `keep` entries remain; the third field
    /// selects where entries are removed: 0 front, 1 back, 2 alternating, 3 middle
    GrowShrink(usize, usize, u8),
    /// `GrowShrink(n, keep, how)`, then `push` of `len` entries whose keys follow the bits of
    /// `pattern` (0: "d", 1: "zz-new"): every duplicate-key layout inside a table that is far
    /// too large for what it holds
    GrowShrinkThen(usize, usize, u8, u32, u8),
}

pub fn pumped_key(i: usize) -> String {
    // p07 is short (inline storage); every 5th key is long (heap storage); some are longer
    // than 32 and than 64 bytes (thresholds other than the inline capacity)
    if i % 20 == 9 {
        format!("pumped-key-on-the-heap-{i:02}-and-longer-than-thirty-two-bytes")
    } else if i % 20 == 19 {
        format!("pumped-key-on-the-heap-{i:02}-and-longer-than-sixty-four-bytes-to-cross-one-more-size-class")
    } else if i % 5 == 4 {
        format!("pumped-key-on-the-heap-{i:02}")
    } else {
        format!("p{i:02}")
    }
}

impl Init {
    pub fn build(self) -> (Object, RObj<Val>) {
        match self {
            Init::Empty => (Object::new(), RObj::new()),
            Init::FromVec(n) => {
                let mut m = RObj::new();
                let mut e = Vec::new();
                for i in 0..n {
                    let k = pumped_key(i);
                    e.push(Entry::new(key(&k), val((i % 2) as Val)));
                    m.push(&k, (i % 2) as Val);
                }
                (Object::from_vec(e), m)
            }
            Init::GrowShrink(n, keep, how) => {
                let mut m = RObj::new();
                let mut o = Object::new();
                for i in 0..n {
                    let k = pumped_key(i);
                    o.push(key(&k), val((i % 2) as Val));
                    m.push(&k, (i % 2) as Val);
                }
                let mut step = 0usize;
                while m.len() > keep {
                    let len = m.len();
                    let at = match how {
                        0 => 0,
                        1 => len - 1,
                        2 => {
                            if step % 2 == 0 {
                                0
                            } else {
                                len - 1
                            }
                        }
                        _ => len / 2,
                    };
                    o.remove_at(at);
                    m.remove_at(at);
                    step += 1;
                }
                (o, m)
            }
            Init::GrowShrinkThen(n, keep, how, pattern, len) => {
                let (mut o, mut m) = Init::GrowShrink(n, keep, how).build();
                for i in 0..len as usize {
                    let k = if pattern >> i & 1 == 0 { "d" } else { "zz-new" };
                    o.push(key(k), val((i % 2) as Val));
                    m.push(k, (i % 2) as Val);
                }
                (o, m)
            }
            Init::Dups(n) => {
                let mut m = RObj::new();
                let mut o = Object::new();
                for i in 0..n {
                    o.push(key("d"), val((i % 2) as Val));
                    m.push("d", (i % 2) as Val);
                }
                (o, m)
            }
            Init::PushRemove(n, r) => {
                let mut m = RObj::new();
                let mut o = Object::new();
                for i in 0..n {
                    let k = pumped_key(i);
                    o.push(key(&k), val((i % 2) as Val));
                    m.push(&k, (i % 2) as Val);
                }
                for _ in 0..r {
                    o.remove_at(0);
                    m.remove_at(0);
                }
                (o, m)
            }
        }
    }
}

#[derive(Clone)]
pub struct St {
    pub real: Object,
    pub model: RObj<Val>,
    /// first disagreement found (operation result or audit), if any
    pub err: Option<String>,
    pub depth: usize,
    /// interesting situations reached (for the `sometimes` properties)
    pub saw: u8,
}

/// Situations reached at least once during a run (side channel for the vacuity check;
/// not part of the state, so deduplication cannot hide them).
pub static SAW: std::sync::atomic::AtomicU8 = std::sync::atomic::AtomicU8::new(0);

/// Fingerprints of (entries, fine index dump, model) that already passed the audit; the
/// audit is a deterministic function of exactly that, so it is run once per unique state.
pub static AUDITED: std::sync::OnceLock<Vec<std::sync::Mutex<std::collections::HashSet<u64>>>> = std::sync::OnceLock::new();

pub const KINDS: [&str; 29] = [
    "push", "push_entry", "push_front", "push_entry_front", "insert", "insert_front", "remove", "remove_unique", "remove_at", "sort", "get_mut_write",
    "iter_mut_write", "get_unique_mut_write", "get_or_insert_with", "get_mut_or_insert_with_write", "clone", "extend_pairs", "extend_entries",
    "from_iter_entries", "from_iter_pairs", "from_vec", "into_iter_from", "ref_mut_into_iter_write", "clone_from", "extend_entries_then_panic", "extend_pairs_then_panic", "get_or_insert_with_panicking", "get_mut_or_insert_with_panicking", "canonicalize",
];

/// Transitions executed per operation kind (evidence: the outcome histogram of the search).
pub static KIND_COUNT: [std::sync::atomic::AtomicU64; 29] = [const { std::sync::atomic::AtomicU64::new(0) }; 29];

impl Act {
    pub fn kind_index(&self) -> usize {
        let name = self.to_string();
        let name = name.split('(').next().unwrap_or("");
        KINDS.iter().position(|k| *k == name).unwrap_or(0)
    }
}

pub fn reset_run_state() {
    SAW.store(0, std::sync::atomic::Ordering::Relaxed);
    for m in AUDITED.get_or_init(|| (0..64).map(|_| Default::default()).collect()) {
        m.lock().unwrap().clear();
    }
}

pub const SAW_DUP_AFTER_REMOVE: u8 = 1;
pub const SAW_PARTIAL_ITER: u8 = 2;
pub const SAW_REP_SWAP: u8 = 4;
pub const SAW_DUP_ERR: u8 = 8;

pub type Dump = (usize, usize, Vec<(usize, usize, Vec<usize>)>);

/// Canonical key of a state (DESIGN 3.2): entries as observed on the real object plus the
/// index content; `fine` keeps slots, bucket count and capacity, coarse keeps the sorted
/// list of (rep, others) only.
pub fn canon_key(real: &Object, fine: bool) -> (Vec<(String, Val)>, Dump) {
    let entries: Vec<(String, Val)> = real.iter().map(|e| (e.key.as_str().to_string(), unval(&e.value))).collect();
    let (b, c, mut buckets) = real.verif_index_dump();
    if fine {
        (entries, (b, c, buckets))
    } else {
        for x in buckets.iter_mut() {
            x.0 = 0;
        }
        buckets.sort();
        (entries, (0, 0, buckets))
    }
}

pub struct Cfg {
    pub keys: Vec<String>,
    pub vals: Vec<Val>,
    pub max_len: usize,
    /// bound on the number of actions (only for pumped start states)
    pub max_depth: Option<usize>,
    pub inits: Vec<Init>,
    pub fine_key: bool,
    /// whether the guards are also dropped while the thread unwinds (two more disciplines)
    pub unwinding: bool,
    /// extra length allowed above the initial length for pumped starts
    pub absent_key: String,
}

pub struct ObjModel {
    pub cfg: Cfg,
}

impl PartialEq for St {
    fn eq(&self, o: &Self) -> bool {
        // `fine` is the strictest key; equality for path reconstruction
        self.err == o.err && self.depth_key() == o.depth_key() && canon_key(&self.real, true) == canon_key(&o.real, true) && self.model == o.model
    }
}

impl St {
    fn depth_key(&self) -> usize {
        self.depth
    }
}

impl fmt::Debug for St {
    fn fmt(&self, f: &mut fmt::Formatter<'_>) -> fmt::Result {
        write!(f, "St {{ real: {:?}, model: {:?}, err: {:?} }}", self.real, self.model.entries, self.err)
    }
}

thread_local! {
    pub static FINE: std::cell::Cell<bool> = const { std::cell::Cell::new(false) };
}
pub static FINE_KEY: std::sync::atomic::AtomicBool = std::sync::atomic::AtomicBool::new(false);
pub static DEPTH_IN_KEY: std::sync::atomic::AtomicBool = std::sync::atomic::AtomicBool::new(false);

impl Hash for St {
    fn hash<H: Hasher>(&self, h: &mut H) {
        use std::sync::atomic::Ordering::Relaxed;
        canon_key(&self.real, FINE_KEY.load(Relaxed)).hash(h);
        self.model.entries.hash(h);
        self.err.is_some().hash(h);
        if DEPTH_IN_KEY.load(Relaxed) {
            self.depth.hash(h);
        }
    }
}

fn entry_of(e: &Entry) -> (String, Val) {
    (e.key.as_str().to_string(), unval(&e.value))
}

fn consume<I: Iterator<Item = Entry>>(mut it: I, d: Disc) -> Vec<(String, Val)> {
    match d {
        Disc::Drop => Vec::new(),
        Disc::One => it.next().iter().map(entry_of).collect(),
        Disc::All => it.by_ref().map(|e| entry_of(&e)).collect(),
        Disc::Unwind | Disc::OneUnwind => {
            // the guard is alive when the caller panics: it is dropped by the unwinding (where
            // `std::thread::panicking()` is true) and must finish its work all the same
            let mut got = Vec::new();
            let _ = std::panic::catch_unwind(std::panic::AssertUnwindSafe(|| {
                let mut it = it;
                if d == Disc::OneUnwind {
                    got.extend(it.next().iter().map(entry_of));
                }
                std::panic::resume_unwind(Box::new("the caller panics while the guard is alive"));
            }));
            got
        }
    }
}

fn expect_prefix(got: &[(String, Val)], full: &[(String, Val)], d: Disc, what: &str) -> Result<(), String> {
    let want: &[(String, Val)] = match d {
        Disc::Drop | Disc::Unwind => &[],
        Disc::One | Disc::OneUnwind => &full[..full.len().min(1)],
        Disc::All => full,
    };
    if got == want {
        Ok(())
    } else {
        Err(format!("{what}: iterator yielded {got:?}, model says {want:?}"))
    }
}

/// Applies one action to the real object and to the model; `Err` = results disagree.
pub fn apply(real: &mut Object, model: &mut RObj<Val>, a: &Act, saw: &mut u8) -> Result<(), String> {
    match a {
        Act::Push(k, v) => {
            let r = real.push(key(k), val(*v));
            let m = model.push(k, *v);
            if r != m {
                return Err(format!("push returned {r}, model {m}"));
            }
        }
        Act::PushEntry(k, v) => {
            let r = real.push_entry(Entry::new(key(k), val(*v)));
            let m = model.push(k, *v);
            if r != m {
                return Err(format!("push_entry returned {r}, model {m}"));
            }
        }
        Act::PushFront(k, v) => {
            let r = real.push_front(key(k), val(*v));
            let m = model.push_front(k, *v);
            if r != m {
                return Err(format!("push_front returned {r}, model {m}"));
            }
        }
        Act::PushEntryFront(k, v) => {
            let r = real.push_entry_front(Entry::new(key(k), val(*v)));
            let m = model.push_front(k, *v);
            if r != m {
                return Err(format!("push_entry_front returned {r}, model {m}"));
            }
        }
        Act::Insert(k, v, d) => {
            let m = model.insert(k, *v);
            let r = real.insert(key(k), val(*v)).map(|it| consume(it, *d));
            match (r, m) {
                (None, None) => {}
                (Some(got), Some(full)) => {
                    if full.len() > 2 && *d == Disc::One {
                        *saw |= SAW_PARTIAL_ITER;
                    }
                    expect_prefix(&got, &full, *d, "insert")?
                }
                (r, m) => return Err(format!("insert returned {:?}, model {:?}", r.is_some(), m.is_some())),
            }
        }
        Act::InsertFront(k, v, d) => {
            let full = model.insert_front(k, *v);
            let got = consume(real.insert_front(key(k), val(*v)), *d);
            if full.len() > 1 && *d == Disc::One {
                *saw |= SAW_PARTIAL_ITER;
            }
            expect_prefix(&got, &full, *d, "insert_front")?
        }
        Act::Remove(k, d) => {
            let before_dups = model.positions(k).len();
            let full = model.remove(k);
            let got = consume(real.remove(k.as_str()), *d);
            if before_dups > 1 && *d == Disc::One {
                *saw |= SAW_PARTIAL_ITER;
            }
            expect_prefix(&got, &full, *d, "remove")?
        }
        Act::RemoveUnique(k) => {
            let m = model.remove_unique(k);
            let r = real.remove_unique(k.as_str());
            let r2 = match &r {
                Ok(None) => Ok(None),
                Ok(Some(e)) => Ok(Some(entry_of(e))),
                Err(json_syntax::object::Duplicate(a, b)) => Err((entry_of(a), entry_of(b))),
            };
            if r2.is_err() {
                *saw |= SAW_DUP_ERR;
            }
            if r2 != m {
                return Err(format!("remove_unique returned {r2:?}, model {m:?}"));
            }
        }
        Act::RemoveAt(i) => {
            let had_dup_before = model.entries.get(*i).map(|(k, _)| model.positions(k).len() > 1).unwrap_or(false);
            let was_rep = model.entries.get(*i).map(|(k, _)| model.positions(k)[0] == *i).unwrap_or(false);
            let m = model.remove_at(*i);
            let r = real.remove_at(*i).map(|e| entry_of(&e));
            if had_dup_before {
                *saw |= SAW_DUP_AFTER_REMOVE;
                if was_rep {
                    *saw |= SAW_REP_SWAP;
                }
            }
            if r != m {
                return Err(format!("remove_at returned {r:?}, model {m:?}"));
            }
        }
        Act::Sort => {
            real.sort();
            model.sort();
        }
        Act::Canonicalize => {
            // (the values of the search are small integers, which canonicalization leaves alone)
            real.canonicalize();
            model.sort_utf16();
        }
        Act::GetMutWrite(k, v) => {
            let mut n = 0;
            for x in real.get_mut(k.as_str()) {
                *x = val(*v);
                n += 1;
            }
            let p = model.positions(k);
            for &i in &p {
                model.entries[i].1 = *v;
            }
            if n != p.len() {
                return Err(format!("get_mut yielded {n} values, model {}", p.len()));
            }
        }
        Act::IterMutWrite(i, v) => {
            let mut n = 0;
            for (j, (k, x)) in real.iter_mut().enumerate() {
                if model.entries.get(j).map(|e| e.0.as_str()) != Some(k.as_str()) {
                    return Err(format!("iter_mut key at {j} is {k:?}"));
                }
                if j == *i {
                    *x = val(*v);
                }
                n += 1;
            }
            if n != model.len() {
                return Err(format!("iter_mut yielded {n} items, model {}", model.len()));
            }
            if let Some(e) = model.entries.get_mut(*i) {
                e.1 = *v;
            }
        }
        Act::RefMutIntoIterWrite(i, v) => {
            let mut n = 0;
            for (j, (_k, x)) in (&mut *real).into_iter().enumerate() {
                if j == *i {
                    *x = val(*v);
                }
                n += 1;
            }
            if n != model.len() {
                return Err(format!("&mut into_iter yielded {n} items, model {}", model.len()));
            }
            if let Some(e) = model.entries.get_mut(*i) {
                e.1 = *v;
            }
        }
        Act::GetUniqueMutWrite(k, v) => {
            let p = model.positions(k);
            match real.get_unique_mut(k.as_str()) {
                Ok(None) => {
                    if !p.is_empty() {
                        return Err("get_unique_mut returned Ok(None) for a present key".into());
                    }
                }
                Ok(Some(x)) => {
                    if p.len() != 1 {
                        return Err(format!("get_unique_mut returned a value for a key with {} entries", p.len()));
                    }
                    *x = val(*v);
                    model.entries[p[0]].1 = *v;
                }
                Err(json_syntax::object::Duplicate(a, b)) => {
                    *saw |= SAW_DUP_ERR;
                    if p.len() < 2 || entry_of(a) != model.entries[p[0]] || entry_of(b) != model.entries[p[1]] {
                        return Err(format!("get_unique_mut returned Duplicate({:?},{:?}), model positions {p:?}", entry_of(a), entry_of(b)));
                    }
                }
            }
        }
        Act::GetOrInsertWith(k, v) => {
            let want = *model.get_or_insert_with(k, || *v);
            let got = unval(real.get_or_insert_with(k.as_str(), || val(*v)));
            if got != want {
                return Err(format!("get_or_insert_with returned {got}, model {want}"));
            }
        }
        Act::GetOrInsertWithPanics(k, mutable) => {
            let present = model.contains(k);
            let caught = std::panic::catch_unwind(std::panic::AssertUnwindSafe(|| {
                if *mutable {
                    let _ = real.get_mut_or_insert_with(k.as_str(), || panic!("the value constructor failed"));
                } else {
                    let _ = real.get_or_insert_with(k.as_str(), || panic!("the value constructor failed"));
                }
            }));
            if caught.is_err() == present {
                return Err(format!("get_or_insert_with with a panicking constructor: key present = {present}, constructor ran = {}", caught.is_err()));
            }
        }
        Act::GetMutOrInsertWithWrite(k, v) => {
            let slot = model.get_or_insert_with(k, || *v);
            let want = *slot;
            *slot = *v;
            let r = real.get_mut_or_insert_with(k.as_str(), || val(*v));
            let got = unval(r);
            *r = val(*v);
            if got != want {
                return Err(format!("get_mut_or_insert_with returned {got}, model {want}"));
            }
        }
        Act::Clone => {
            let c = real.clone();
            if c != *real {
                return Err("clone != original".into());
            }
            *real = c;
        }
        Act::CloneFrom(n) => {
            let mut d = Object::new();
            for i in 0..*n {
                d.push(key(&format!("clone-from-destination-key-{i}")), val(0));
            }
            d.clone_from(real);
            if d != *real {
                return Err("after d.clone_from(&o): d != o".into());
            }
            *real = d;
        }
        Act::ExtendPairs(p) => {
            real.extend(p.iter().map(|(k, v)| (key(k), val(*v))));
            for (k, v) in p {
                model.push(k, *v);
            }
        }
        Act::ExtendEntries(p) => {
            real.extend(p.iter().map(|(k, v)| Entry::new(key(k), val(*v))));
            for (k, v) in p {
                model.push(k, *v);
            }
        }
        Act::ExtendPanics(p, entries) => {
            let items: Vec<(String, Val)> = p.clone();
            let n = items.len();
            let mut i = 0;
            let src = std::iter::from_fn(move || {
                if i < n {
                    i += 1;
                    Some(items[i - 1].clone())
                } else {
                    panic!("the source of extend failed")
                }
            });
            let caught = if *entries {
                std::panic::catch_unwind(std::panic::AssertUnwindSafe(|| real.extend(src.map(|(k, v)| Entry::new(key(&k), val(v))))))
            } else {
                std::panic::catch_unwind(std::panic::AssertUnwindSafe(|| real.extend(src.map(|(k, v)| (key(&k), val(v))))))
            };
            if caught.is_ok() {
                return Err("extend returned normally although its source panicked".into());
            }
            for (k, v) in p {
                model.push(k, *v);
            }
        }
        Act::FromIterEntries => {
            *real = real.iter().cloned().collect::<Object>();
        }
        Act::FromIterPairs => {
            *real = real.iter().map(|e| (e.key.clone(), e.value.clone())).collect::<Object>();
        }
        Act::FromVec => {
            *real = Object::from_vec(real.entries().to_vec());
        }
        Act::IntoIterFrom => {
            let v: Vec<Entry> = std::mem::take(real).into_iter().collect();
            *real = Object::from(v);
        }
    }
    Ok(())
}

fn std_hash<T: Hash>(t: &T) -> u64 {
    bridge::both_hashes(t)
}

/// Every observation of the state: entries, all key queries against linear scans, the
/// index invariant (hook H1), and Eq/Ord/Hash coherence with canonically built objects (C14).
pub fn audit(real: &Object, model: &RObj<Val>, keys: &[String], c14: bool) -> Result<(), String> {
    let obs: Vec<(String, Val)> = real.iter().map(entry_of).collect();
    if obs != model.entries {
        return Err(format!("entries are {obs:?}, model has {:?}", model.entries));
    }
    let obs2: Vec<(String, Val)> = real.entries().iter().map(entry_of).collect();
    let obs3: Vec<(String, Val)> = real.into_iter().map(entry_of).collect();
    if obs2 != obs || obs3 != obs {
        return Err("entries()/&into_iter disagree with iter()".into());
    }
    if real.len() != model.len() || real.is_empty() != model.is_empty() {
        return Err(format!("len/is_empty: {} {}", real.len(), real.is_empty()));
    }
    if real.first().map(entry_of) != model.entries.first().cloned() || real.last().map(entry_of) != model.entries.last().cloned() {
        return Err("first()/last() disagree with the model".into());
    }

    // --- key queries vs linear scans
    for k in keys {
        let p = model.positions(k);
        let k = k.as_str();
        let fail = |what: &str| Err(format!("{what}({k:?}) disagrees with a linear scan (positions {p:?}, entries {:?})", model.entries));
        if real.contains_key(k) != !p.is_empty() {
            return fail("contains_key");
        }
        // the same lookups through the owned key type (Key): hashing and equivalence must
        // not depend on the type used to ask
        if real.contains_key(&key(k)) != !p.is_empty() || real.index_of(&key(k)) != p.first().copied() || real.get(&key(k)).count() != p.len() {
            return fail("contains_key/index_of/get with a Key argument");
        }
        if real.index_of(k) != p.first().copied() {
            return fail("index_of");
        }
        // the lookup iterators through the whole Iterator protocol (size_hint at every step,
        // nth on fresh and partially consumed iterators, step_by, skip, count, last, fold)
        if p.len() <= 5 {
            let ents = real.entries();
            let want_vals: Vec<&Value> = p.iter().map(|&i| &ents[i].value).collect();
            let want_ents: Vec<&Entry> = p.iter().map(|&i| &ents[i]).collect();
            let want_vi: Vec<(usize, &Value)> = p.iter().map(|&i| (i, &ents[i].value)).collect();
            bridge::iterator_protocol(&format!("get({k:?})"), || real.get(k), &want_vals)?;
            bridge::iterator_protocol(&format!("get_entries({k:?})"), || real.get_entries(k), &want_ents)?;
            bridge::iterator_protocol(&format!("indexes_of({k:?})"), || real.indexes_of(k), &p)?;
            bridge::iterator_protocol(&format!("get_with_index({k:?})"), || real.get_with_index(k), &want_vi)?;
        }
        if real.redundant_index_of(k) != p.get(1).copied() {
            return fail("redundant_index_of");
        }
        if real.indexes_of(k).collect::<Vec<_>>() != p {
            return fail("indexes_of");
        }
        let vals: Vec<Val> = p.iter().map(|&i| model.entries[i].1).collect();
        if real.get(k).map(unval).collect::<Vec<_>>() != vals {
            return fail("get");
        }
        let ents: Vec<(String, Val)> = p.iter().map(|&i| model.entries[i].clone()).collect();
        if real.get_entries(k).map(entry_of).collect::<Vec<_>>() != ents {
            return fail("get_entries");
        }
        if real.get_with_index(k).map(|(i, v)| (i, unval(v))).collect::<Vec<_>>() != p.iter().map(|&i| (i, model.entries[i].1)).collect::<Vec<_>>() {
            return fail("get_with_index");
        }
        if real.get_entries_with_index(k).map(|(i, e)| (i, entry_of(e))).collect::<Vec<_>>()
            != p.iter().map(|&i| (i, model.entries[i].clone())).collect::<Vec<_>>()
        {
            return fail("get_entries_with_index");
        }
        // unique lookups
        let want_unique: Result<Option<Val>, ((String, Val), (String, Val))> = match p.len() {
            0 => Ok(None),
            1 => Ok(Some(model.entries[p[0]].1)),
            _ => Err((model.entries[p[0]].clone(), model.entries[p[1]].clone())),
        };
        let got = match real.get_unique(k) {
            Ok(v) => Ok(v.map(unval)),
            Err(json_syntax::object::Duplicate(a, b)) => Err((entry_of(a), entry_of(b))),
        };
        if got != want_unique {
            return fail("get_unique");
        }
        let got = match real.get_unique_entry(k) {
            Ok(v) => Ok(v.map(|e| unval(&e.value))),
            Err(json_syntax::object::Duplicate(a, b)) => Err((entry_of(a), entry_of(b))),
        };
        if got != want_unique {
            return fail("get_unique_entry");
        }
        // the &mut queries, on a clone
        let mut c = real.clone();
        if c.get_mut(k).map(|v| unval(v)).collect::<Vec<_>>() != vals {
            return fail("get_mut");
        }
        let got = match c.get_unique_mut(k) {
            Ok(v) => Ok(v.map(|v| unval(v))),
            Err(json_syntax::object::Duplicate(a, b)) => Err((entry_of(a), entry_of(b))),
        };
        if got != want_unique {
            return fail("get_unique_mut");
        }
    }

    // --- index invariant (hook H1)
    let (_, _, buckets) = real.verif_index_dump();
    let mut seen = vec![0u32; model.len()];
    let mut bucket_keys: Vec<&str> = Vec::new();
    for (_, rep, other) in &buckets {
        let mut prev = *rep;
        for &i in std::iter::once(rep).chain(other.iter()) {
            if i >= model.len() {
                return Err(format!("index bucket refers to position {i} >= len {} (buckets {buckets:?})", model.len()));
            }
            seen[i] += 1;
            if model.entries[i].0 != model.entries[*rep].0 {
                return Err(format!("index bucket mixes keys (buckets {buckets:?}, entries {:?})", model.entries));
            }
        }
        for &i in other {
            if i <= prev {
                return Err(format!("index bucket not strictly increasing / rep not smallest (buckets {buckets:?})"));
            }
            prev = i;
        }
        if bucket_keys.contains(&model.entries[*rep].0.as_str()) {
            return Err(format!("two index buckets for key {:?} (buckets {buckets:?})", model.entries[*rep].0));
        }
        bucket_keys.push(model.entries[*rep].0.as_str());
    }
    if seen.iter().any(|&c| c != 1) {
        return Err(format!("index does not cover every position exactly once (buckets {buckets:?}, len {})", model.len()));
    }

    // --- C14: content-only Eq / Ord / Hash against canonically built objects
    if c14 {
        let entries: Vec<Entry> = model.entries.iter().map(|(k, v)| Entry::new(key(k), val(*v))).collect();
        let canon = [
            ("from_vec", Object::from_vec(entries.clone())),
            ("from_iter", entries.iter().cloned().collect::<Object>()),
            ("clone", real.clone()),
        ];
        for (name, c) in &canon {
            if real != c || c != real {
                return Err(format!("object != {name}-built object with the same entries"));
            }
            if real.cmp(c) != std::cmp::Ordering::Equal || c.cmp(real) != std::cmp::Ordering::Equal {
                return Err(format!("cmp with {name}-built object with the same entries is not Equal"));
            }
            if real.partial_cmp(c) != Some(std::cmp::Ordering::Equal) {
                return Err(format!("partial_cmp with {name}-built object is not Some(Equal)"));
            }
            if std_hash(real) != std_hash(c) {
                return Err(format!("hash differs from {name}-built object with the same entries"));
            }
            let (va, vb) = (Value::Object(real.clone()), Value::Object(c.clone()));
            if va != vb || va.cmp(&vb) != std::cmp::Ordering::Equal || std_hash(&va) != std_hash(&vb) {
                return Err(format!("Value-level Eq/Ord/Hash differs from {name}-built object"));
            }
        }
    }
    Ok(())
}

impl ObjModel {
    fn all_keys(&self, s: &St) -> Vec<String> {
        let mut k = self.cfg.keys.clone();
        let n = s.model.entries.len();
        // pumped objects: the universe keys plus a sample of the present keys (every lookup is
        // still compared with a full linear scan; the index invariant covers every entry)
        let step = if n > 64 { n / 16 } else { 1 };
        for (i, (key, _)) in s.model.entries.iter().enumerate() {
            if (i % step == 0 || i + 1 == n) && !k.contains(key) {
                k.push(key.clone());
            }
        }
        k.push(self.cfg.absent_key.clone());
        k
    }
}

impl Model for ObjModel {
    type State = St;
    type Action = Act;

    fn init_states(&self) -> Vec<St> {
        self.cfg
            .inits
            .iter()
            .map(|i| {
                // the construction of a start state executes library code too
                let (real, model, err) = match explore::guard(|| i.build()) {
                    Ok((real, model)) => (real, model, None),
                    Err(p) => (Object::new(), RObj::new(), Some(format!("panic while building the start state {i:?}: {p}"))),
                };
                let mut s = St {
                    real,
                    model,
                    err,
                    depth: 0,
                    saw: 0,
                };
                if s.err.is_none() {
                    s.err = match explore::guard(|| audit(&s.real, &s.model, &self.all_keys(&s), true)) {
                        Ok(r) => r.err().map(|e| format!("start state {i:?}: {e}")),
                        Err(p) => Some(format!("start state {i:?}: panic during queries: {p}")),
                    };
                }
                s
            })
            .collect()
    }

    fn actions(&self, s: &St, out: &mut Vec<Act>) {
        if s.err.is_some() {
            return;
        }
        if let Some(d) = self.cfg.max_depth {
            if s.depth >= d {
                return;
            }
        }
        let len = s.model.len();
        let room = len < self.cfg.max_len;
        let discs: &[Disc] = if self.cfg.unwinding { &[Disc::Drop, Disc::One, Disc::All, Disc::Unwind, Disc::OneUnwind] } else { &[Disc::Drop, Disc::One, Disc::All] };
        for k in &self.cfg.keys {
            for &v in &self.cfg.vals {
                if room {
                    out.push(Act::Push(k.clone(), v));
                    out.push(Act::PushFront(k.clone(), v));
                    if v == self.cfg.vals[0] {
                        out.push(Act::PushEntry(k.clone(), v));
                        out.push(Act::PushEntryFront(k.clone(), v));
                        out.push(Act::ExtendPairs(vec![(k.clone(), v)]));
                        out.push(Act::ExtendEntries(vec![(k.clone(), v)]));
                        out.push(Act::ExtendPanics(vec![(k.clone(), v)], true));
                        out.push(Act::ExtendPanics(vec![(k.clone(), v)], false));
                    }
                }
                let present = s.model.contains(k);
                if present || room {
                    for &d in discs {
                        out.push(Act::Insert(k.clone(), v, d));
                    }
                    out.push(Act::GetOrInsertWith(k.clone(), v));
                    out.push(Act::GetMutOrInsertWithWrite(k.clone(), v));
                    if v == self.cfg.vals[0] {
                        out.push(Act::GetOrInsertWithPanics(k.clone(), false));
                        out.push(Act::GetOrInsertWithPanics(k.clone(), true));
                    }
                }
                // insert_front grows the object unless the key is already first
                if room || s.model.entries.first().map(|e| &e.0) == Some(k) || present {
                    // (if present elsewhere the net length does not grow)
                    for &d in discs {
                        out.push(Act::InsertFront(k.clone(), v, d));
                    }
                }
                if present {
                    out.push(Act::GetMutWrite(k.clone(), v));
                    out.push(Act::GetUniqueMutWrite(k.clone(), v));
                }
            }
            for &d in discs {
                out.push(Act::Remove(k.clone(), d));
            }
            out.push(Act::RemoveUnique(k.clone()));
        }
        if len + 2 <= self.cfg.max_len && self.cfg.keys.len() >= 2 {
            let (k0, k1) = (&self.cfg.keys[0], &self.cfg.keys[1]);
            let v = self.cfg.vals[0];
            out.push(Act::ExtendPairs(vec![(k0.clone(), v), (k0.clone(), v)]));
            out.push(Act::ExtendPairs(vec![(k1.clone(), v), (k0.clone(), v)]));
            out.push(Act::ExtendEntries(vec![(k0.clone(), v), (k1.clone(), v)]));
        }
        for i in 0..=len {
            out.push(Act::RemoveAt(i));
        }
        for i in 0..len {
            // writing at the ends and in the middle is enough to exercise the iterator
            if i == 0 || i + 1 == len || i == len / 2 {
                out.push(Act::IterMutWrite(i, *self.cfg.vals.last().unwrap()));
                out.push(Act::RefMutIntoIterWrite(i, self.cfg.vals[0]));
            }
        }
        out.push(Act::Sort);
        out.push(Act::Canonicalize);
        out.push(Act::Clone);
        out.push(Act::CloneFrom(0));
        out.push(Act::CloneFrom(5));
        out.push(Act::FromIterEntries);
        out.push(Act::FromIterPairs);
        out.push(Act::FromVec);
        out.push(Act::IntoIterFrom);
        out.push(Act::ExtendPairs(vec![]));
        out.push(Act::ExtendPanics(vec![], true));
    }

    fn next_state(&self, s: &St, a: Act) -> Option<St> {
        // (under the watchdog: an operation or a query that never returns is a violation)
        explore::watched_for(60, b"one operation of the history search on the real Object, or the queries after it", || explore::in_env(|| {
        let mut n = s.clone();
        n.depth += 1;
        KIND_COUNT[a.kind_index()].fetch_add(1, std::sync::atomic::Ordering::Relaxed);
        let r = explore::guard(|| {
            let mut saw = 0u8;
            let r = apply(&mut n.real, &mut n.model, &a, &mut saw);
            (r, saw)
        });
        match r {
            Ok((Ok(()), saw)) => {
                SAW.fetch_or(saw, std::sync::atomic::Ordering::Relaxed);
                n.saw = 0;
                let fp = std_hash(&(canon_key(&n.real, true), &n.model.entries));
                let shard = &AUDITED.get().unwrap()[(fp % 64) as usize];
                // with per-index seeds (hash mode 3) the answers of the queries also depend on the
                // hasher state, which the dump does not show: audit every state
                let per_index_seeds = json_syntax::object::verif::HASH_MODE.load(std::sync::atomic::Ordering::Relaxed) == 3;
                let done = !per_index_seeds && shard.lock().unwrap().contains(&fp);
                if !done {
                    let keys = self.all_keys(&n);
                    n.err = match explore::guard(|| audit(&n.real, &n.model, &keys, true)) {
                        Ok(r) => r.err(),
                        Err(p) => Some(format!("panic during queries: {p}")),
                    };
                    if n.err.is_none() {
                        shard.lock().unwrap().insert(fp);
                    }
                }
            }
            Ok((Err(e), _)) => n.err = Some(e),
            Err(p) => {
                n.err = Some(format!("panic in {a}: {p}"));
                n.real = Object::new();
            }
        }
        if !DEPTH_IN_KEY.load(std::sync::atomic::Ordering::Relaxed) {
            n.depth = 0;
        }
        Some(n)
            }))
    }

    fn properties(&self) -> Vec<Property<Self>> {
        vec![
            Property::always("object agrees with the ordered-list model", |_: &ObjModel, s: &St| s.err.is_none()),
        ]
    }
}
