//! C18 — conversion to and from serde_json::Value round-trips without loss or panic.

use explore::serde_json::json;
use explore::{Report, Tally, Tier};
use json_syntax::Value;
use refmodel::value::Gen;
use refmodel::RV;

fn as_int(s: &str) -> Option<i128> {
    if s.contains(['.', 'e', 'E']) {
        return None;
    }
    if let Ok(i) = s.parse::<i64>() {
        return Some(i as i128);
    }
    s.parse::<u64>().ok().map(|u| u as i128)
}

/// Known-finding class D10: a number that is neither an i64 nor a u64 and whose double value is
/// not finite cannot be represented by serde_json::Number; `into_serde_json` panics on it.
fn class_d10(s: &str) -> bool {
    as_int(s).is_none() && !s.parse::<f64>().map(|x| x.is_finite()).unwrap_or(false)
}

fn any_number(v: &RV, f: &dyn Fn(&str) -> bool) -> bool {
    match v {
        RV::Num(n) => f(n),
        RV::Arr(a) => a.iter().any(|x| any_number(x, f)),
        RV::Obj(o) => o.iter().any(|(_, x)| any_number(x, f)),
        _ => false,
    }
}

/// Equality up to entry order and number spelling (same integer or same double).
fn same_up_to_spelling(a: &RV, b: &RV) -> bool {
    match (a, b) {
        (RV::Num(x), RV::Num(y)) => match (as_int(x), as_int(y)) {
            (Some(p), Some(q)) => p == q,
            (Some(p), None) | (None, Some(p)) => {
                // an integer may come back spelled as a double only if it is the same number
                let other = if as_int(x).is_some() { y } else { x };
                other.parse::<f64>().map(|f| f == p as f64 && p.unsigned_abs() <= (1u128 << 53)).unwrap_or(false)
            }
            (None, None) => match (x.parse::<f64>(), y.parse::<f64>()) {
                (Ok(p), Ok(q)) => p == q,
                _ => false,
            },
        },
        (RV::Arr(x), RV::Arr(y)) => x.len() == y.len() && x.iter().zip(y).all(|(p, q)| same_up_to_spelling(p, q)),
        (RV::Obj(x), RV::Obj(y)) => x.len() == y.len() && x.iter().all(|(k, p)| y.iter().find(|(l, _)| l == k).map(|(_, q)| same_up_to_spelling(p, q)).unwrap_or(false)),
        (p, q) => p == q,
    }
}

/// serde_json -> json-syntax -> serde_json must be the identity.
pub fn check_sj(j: &serde_json::Value, t: &mut Tally) {
    t.evals += 1;
    let case = || json!({"kind": "serde_json", "value": j.to_string()});
    match explore::guard(|| Value::from_serde_json(j.clone()).into_serde_json()) {
        Ok(back) => {
            if back != *j {
                t.violation("", format!("serde_json value {j} comes back as {back}"), case());
            } else {
                t.outcome("serde_json -> json-syntax -> serde_json: identity");
            }
        }
        Err(p) => t.violation("", format!("conversion of serde_json value {j} panicked: {p}"), case()),
    }
    // the From impls are the same conversions
    let via_from: serde_json::Value = match explore::guard(|| serde_json::Value::from(Value::from(j.clone()))) {
        Ok(v) => v,
        Err(p) => {
            t.violation("", format!("From conversions panicked on {j}: {p}"), case());
            return;
        }
    };
    if via_from != *j {
        t.violation("", format!("From<serde_json::Value> / From<Value> round trip changes {j} into {via_from}"), case());
    }
}

/// json-syntax (duplicate-free, numbers 64-bit integers or finite doubles) -> serde_json ->
/// json-syntax must be equal up to entry order and number spelling; no panic on any value.
pub fn check_js(rv: &RV, t: &mut Tally) {
    t.evals += 1;
    let v = bridge::to_value(rv);
    let case = || json!({"kind": "value", "value": rv.show()});
    let d10 = any_number(rv, &class_d10);
    match explore::guard(|| v.clone().into_serde_json()) {
        Ok(j) => {
            if d10 {
                t.outcome("outside the round-trip domain (no panic)");
                return;
            }
            if rv.has_duplicate_keys() {
                t.outcome("duplicate keys: outside the round-trip domain (no panic)");
                return;
            }
            match explore::guard(|| Value::from_serde_json(j.clone())) {
                Ok(back) => {
                    let got = bridge::from_value(&back);
                    if !same_up_to_spelling(rv, &got) {
                        t.violation("", format!("json-syntax value {} comes back as {} (through serde_json {j})", rv.show(), got.show()), case());
                    } else {
                        t.outcome("json-syntax -> serde_json -> json-syntax: equal up to order and spelling");
                    }
                }
                Err(p) => t.violation("", format!("from_serde_json({j}) panicked: {p}"), case()),
            }
        }
        Err(p) => t.violation(if d10 { "D10" } else { "" }, format!("into_serde_json panicked on {}: {p}", rv.show()), case()),
    }
}

fn rv_to_sj(v: &RV) -> serde_json::Value {
    match v {
        RV::Null => serde_json::Value::Null,
        RV::Bool(b) => serde_json::Value::Bool(*b),
        RV::Num(n) => serde_json::from_str(n).unwrap(),
        RV::Str(s) => serde_json::Value::String(s.clone()),
        RV::Arr(a) => serde_json::Value::Array(a.iter().map(rv_to_sj).collect()),
        RV::Obj(o) => serde_json::Value::Object(o.iter().map(|(k, x)| (k.clone(), rv_to_sj(x))).collect()),
    }
}

fn f64_mantissa(k: u64) -> u64 {
    match k {
        0 => 0,
        1 => 1,
        2 => (1 << 52) - 1,
        3 => 1 << 51,
        4 => 0x5555555555555,
        5 => 0xAAAAAAAAAAAAA,
        6 => 0x999999999999A,
        7 => 0x3333333333333,
        k => (k.wrapping_mul(0x9E3779B97F4A7C15) >> 12) & ((1 << 52) - 1),
    }
}

pub fn run(rep: &mut Report, tier: Tier) {
    // ---- serde_json numbers: the three representations
    let mut t = Tally::new();
    for u in [0u64, 1, (1 << 53) + 1, i64::MAX as u64, i64::MAX as u64 + 1, u64::MAX] {
        for j in [serde_json::json!(u), serde_json::json!([u]), serde_json::json!({"k": u})] {
            check_sj(&j, &mut t);
        }
    }
    for i in [i64::MIN, i64::MIN + 1, -(1 << 53) - 1, -1] {
        for j in [serde_json::json!(i), serde_json::json!([i, null]), serde_json::json!({"k": {"l": i}})] {
            check_sj(&j, &mut t);
        }
    }
    rep.absorb(t);
    let nm = tier.pick(64u64, 1024);
    let exps: Vec<u64> = (0..2047).collect();
    let t = explore::par_tally(exps, |e, t| {
        for k in 0..nm {
            for s in [0u64, 1] {
                let x = f64::from_bits((s << 63) | (e << 52) | f64_mantissa(k));
                if let Some(n) = serde_json::Number::from_f64(x) {
                    let j = serde_json::Value::Number(n);
                    check_sj(&j, t);
                    if k % 8 == 0 {
                        check_sj(&serde_json::json!({"a": [j.clone(), "s"], "b": j}), t);
                    }
                    t.nontrivial(&x.to_bits());
                    // and the same double from the json-syntax side, in std's shortest spelling
                    check_js(&RV::Num(format!("{x:?}")), t);
                    check_js(&RV::Num(format!("{x:e}")), t);
                }
            }
        }
    });
    rep.absorb(t);
    // ---- json-syntax numbers: every spelling up to the bound + boundaries + out-of-range magnitudes
    let l = tier.pick(7, 8);
    let mut sp = crate::c17::spellings("019-.eE+", l);
    let nsp = sp.len();
    sp.extend(crate::c17::boundary_numbers());
    sp.extend(["1e309", "-1e999", "1e400", "-1E+400", "123e-400", "0e999", "-0.0e-999"].map(String::from));
    // sticky digits: just above the midpoint of two doubles, the deciding digit far beyond the
    // 1 075th fraction digit
    for x in [1.0f64, 9007199254740992.0, 0.1, 1e-300, 123456.75, 5e-324, 2.2250738585072014e-308, 1e22] {
        sp.extend(refmodel::canon::sticky_spellings(x));
    }
    sp.push(format!("1{}", "0".repeat(400)));
    sp.push(format!("-{}.5", "9".repeat(400)));
    let t = explore::par_tally(sp.chunks(128).map(|c| c.to_vec()).collect(), |chunk, t| {
        for s in chunk {
            let n = RV::Num(s.clone());
            check_js(&n, t);
            check_js(&RV::Arr(vec![n.clone(), RV::Null]), t);
            check_js(&RV::Obj(vec![("k".into(), n.clone())]), t);
            t.nontrivial(&s);
            // the serde_json side of the same token, when serde_json can read it
            if let Ok(j) = serde_json::from_str::<serde_json::Value>(&s) {
                check_sj(&j, t);
            }
        }
    });
    rep.absorb(t);
    // ---- structure
    let leaves = [RV::Null, RV::Bool(true), RV::num("1"), RV::num("1.5"), RV::str("a")];
    let keys = ["a", "b"];
    let n = tier.pick(5, 6);
    let g = Gen::new(&leaves, &keys, n);
    let vals = g.up_to(n);
    let nv = vals.len();
    let t = explore::par_tally(vals.chunks(64).map(|c| c.to_vec()).collect(), |chunk, t| {
        for v in chunk {
            check_js(&v, t);
            if !v.has_duplicate_keys() {
                check_sj(&rv_to_sj(&v), t);
            }
            t.nontrivial(&v);
        }
    });
    rep.absorb(t);
    // ---- pumped linear families
    let all = refmodel::pump::all(tier == Tier::Thorough);
    let np = all.len();
    let t = explore::par_tally(all, |(fam, n, v), t| {
        check_js(&v, t);
        if !v.has_duplicate_keys() && !matches!(fam, refmodel::pump::Family::Integer | refmodel::pump::Family::Fraction) {
            check_sj(&rv_to_sj(&v), t);
        }
        t.nontrivial(&(format!("{fam:?}"), n));
    });
    rep.absorb(t);
    // ---- strings and keys
    let mut t = Tally::new();
    for s in ["", "a", "\"\\/\u{8}\u{c}\n\r\t\u{1}\u{1f}\u{7f}\u{e9}\u{2028}\u{1f600}\u{ffff}", "a-string-longer-than-sixteen-bytes", crate::c16::TOKEN] {
        let v = RV::Obj(vec![(s.to_string(), RV::Arr(vec![RV::str(s)]))]);
        check_js(&v, &mut t);
        check_sj(&rv_to_sj(&v), &mut t);
    }
    // the reserved number token is ordinary data for these conversions: a serde_json object
    // that looks like serde_json's own arbitrary-precision number encoding must stay an object
    for payload in [serde_json::json!("1.5"), serde_json::json!("0"), serde_json::json!("-12e3"), serde_json::json!("x"), serde_json::json!(1.5), serde_json::json!(null), serde_json::json!(["1"])] {
        let mut one = serde_json::Map::new();
        one.insert(crate::c16::TOKEN.to_string(), payload.clone());
        let one = serde_json::Value::Object(one);
        let mut two = serde_json::Map::new();
        two.insert("a".to_string(), serde_json::json!(1));
        two.insert(crate::c16::TOKEN.to_string(), payload.clone());
        let two = serde_json::Value::Object(two);
        for j in [one.clone(), two.clone(), serde_json::json!([one.clone(), 1]), serde_json::json!({"k": one.clone(), "l": [two.clone()]})] {
            check_sj(&j, &mut t);
        }
        // and from the json-syntax side
        let payload_rv = match &payload {
            serde_json::Value::String(s) => RV::str(s),
            serde_json::Value::Null => RV::Null,
            serde_json::Value::Number(_) => RV::num("1.5"),
            _ => RV::Arr(vec![RV::str("1")]),
        };
        check_js(&RV::Obj(vec![(crate::c16::TOKEN.to_string(), payload_rv.clone())]), &mut t);
        check_js(&RV::Arr(vec![RV::Obj(vec![("a".into(), RV::num("1")), (crate::c16::TOKEN.to_string(), payload_rv)])]), &mut t);
    }
    rep.absorb(t);
    rep.tally.sample(json!({"serde_json_number": "9.999999999999999e91", "json_syntax_spelling": "100e90"}));
    rep.bounds = json!({"f64_patterns": 2047 * nm * 2, "number_spellings": nsp, "max_spelling_length": l, "structure_values": nv, "structure_max_nodes": n, "out_of_range_magnitudes": 9, "pumped_values": np});
}

pub fn replay(case: &explore::serde_json::Value) -> Result<(), String> {
    use json_syntax::Parse;
    let mut t = Tally::new();
    let text = case["value"].as_str().unwrap_or("null");
    match case["kind"].as_str() {
        Some("serde_json") => check_sj(&serde_json::from_str(text).map_err(|e| e.to_string())?, &mut t),
        _ => {
            let (v, _) = Value::parse_str(text).map_err(|e| e.to_string())?;
            check_js(&bridge::from_value(&v), &mut t)
        }
    }
    match t.violations.first() {
        None => Ok(()),
        Some(v) => Err(format!("[{}] {}", v.class, v.what)),
    }
}
