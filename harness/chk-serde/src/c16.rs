//! C16 — typed data round-trips through Value and agrees with serde_json.

use explore::serde_json::json;
use explore::{Budget, Report, Tally, Tier};
use json_syntax::{from_value, to_value, Value};
use serde::de::DeserializeOwned;
use serde::{Deserialize, Serialize};
use std::collections::BTreeMap;
use std::fmt::Debug;

pub const TOKEN: &str = "$serde_json::private::Number";

// ---------------------------------------------------------------------------------------------
// leaf wrappers: floats compare by bits, except that -0.0 may come back as +0.0

#[derive(Serialize, Deserialize, Clone, Copy, Debug)]
#[serde(transparent)]
pub struct F64(pub f64);

impl PartialEq for F64 {
    fn eq(&self, o: &Self) -> bool {
        self.0.to_bits() == o.0.to_bits() || (self.0 == 0.0 && o.0 == 0.0)
    }
}

#[derive(Serialize, Deserialize, Clone, Copy, Debug)]
#[serde(transparent)]
pub struct F32(pub f32);

impl PartialEq for F32 {
    fn eq(&self, o: &Self) -> bool {
        self.0.to_bits() == o.0.to_bits() || (self.0 == 0.0 && o.0 == 0.0)
    }
}

// ---------------------------------------------------------------------------------------------
// the one-hole contexts (generic over the leaf type)

#[derive(Serialize, Deserialize, PartialEq, Debug, Clone)]
pub struct NewS<L>(pub L);

#[derive(Serialize, Deserialize, PartialEq, Debug, Clone)]
pub struct TupS<L>(pub L, pub bool);

#[derive(Serialize, Deserialize, PartialEq, Debug, Clone)]
pub struct St<L> {
    pub f: L,
    pub g: u8,
}

#[derive(Serialize, Deserialize, PartialEq, Debug, Clone)]
pub enum En<L> {
    Unit,
    New(L),
    Tup(L, u8),
    Struct { f: L },
}

#[derive(Serialize, Deserialize, PartialEq, Eq, PartialOrd, Ord, Debug, Clone, Copy)]
pub enum UnitKey {
    Alpha,
    #[serde(rename = "be ta")]
    Beta,
}

#[derive(Serialize, Deserialize, PartialEq, Eq, PartialOrd, Ord, Debug, Clone)]
pub struct NewKey(pub String);

/// Newtype structs around every other kind of map key (serde hands a newtype key to the key
/// (de)serializer through `(de)serialize_newtype_struct`, a path of its own), plain and
/// `#[serde(transparent)]`.
#[derive(Serialize, Deserialize, PartialEq, Eq, PartialOrd, Ord, Debug, Clone)]
pub struct NewKeyOf<T>(pub T);

#[derive(Serialize, Deserialize, PartialEq, Eq, PartialOrd, Ord, Debug, Clone)]
#[serde(transparent)]
pub struct TransparentKeyOf<T>(pub T);

fn newtype_keys(t: &mut Tally) {
    macro_rules! both {
        ($v:expr, $name:expr) => {
            key_context(&NewKeyOf($v), concat!("BTreeMap<newtype(", $name, "),_>"), t);
            key_context(&TransparentKeyOf($v), concat!("BTreeMap<transparent newtype(", $name, "),_>"), t);
            key_context(&NewKeyOf(NewKeyOf($v)), concat!("BTreeMap<newtype(newtype(", $name, ")),_>"), t);
        };
    }
    for x in [0u8, 255] {
        both!(x, "u8");
    }
    for x in [i8::MIN, -1, 127] {
        both!(x, "i8");
    }
    for x in [0u16, 32768, u16::MAX] {
        both!(x, "u16");
    }
    for x in [i16::MIN, -1] {
        both!(x, "i16");
    }
    for x in [0u32, u32::MAX] {
        both!(x, "u32");
    }
    for x in [i32::MIN, 7] {
        both!(x, "i32");
    }
    for x in [0u64, u64::MAX] {
        both!(x, "u64");
    }
    for x in [i64::MIN, i64::MAX] {
        both!(x, "i64");
    }
    for x in ['a', '7', '\u{1f600}'] {
        both!(x, "char");
    }
    for x in [UnitKey::Alpha, UnitKey::Beta] {
        both!(x, "unit variant");
    }
    both!("7".to_string(), "String");
}

#[derive(Serialize, Deserialize, PartialEq, Debug, Clone)]
pub struct UnitStruct;

// ---------------------------------------------------------------------------------------------
// representations that drive the self-describing paths (deserialize_any, buffered content)

#[derive(Serialize, Deserialize, PartialEq, Debug, Clone)]
#[serde(tag = "t")]
pub enum Internal {
    A { x: i8, s: String },
    B { v: Vec<u8> },
    C,
}

#[derive(Serialize, Deserialize, PartialEq, Debug, Clone)]
#[serde(tag = "t", content = "c")]
pub enum Adjacent {
    A(i8),
    B { x: String },
    C,
    D(u64, Option<bool>),
}

#[derive(Serialize, Deserialize, PartialEq, Debug, Clone)]
#[serde(untagged)]
pub enum Untagged {
    N(i64),
    U(u64),
    S(String),
    L(Vec<bool>),
    M { a: u8 },
    Nothing,
}

#[derive(Serialize, Deserialize, PartialEq, Debug, Clone)]
pub struct Flat {
    pub a: u8,
    #[serde(flatten)]
    pub rest: BTreeMap<String, i16>,
}

#[derive(Serialize, Deserialize, PartialEq, Debug, Clone)]
pub struct Renamed {
    #[serde(rename = "\u{e9} key")]
    pub a: Option<u8>,
    #[serde(default, skip_serializing_if = "Option::is_none")]
    pub b: Option<String>,
    #[serde(default)]
    pub c: Vec<()>,
}

/// Maps inside representations that serde deserializes through its buffered `Content` (untagged,
/// internally tagged, flatten): their keys reach the deserializer through `deserialize_any`
/// rather than through the typed key methods.
#[derive(Serialize, Deserialize, PartialEq, Debug, Clone)]
#[serde(untagged)]
pub enum UntaggedMaps {
    ByString(BTreeMap<String, u8>),
    ByChar(BTreeMap<char, String>),
    Seq(Vec<u8>),
}

#[derive(Serialize, Deserialize, PartialEq, Debug, Clone)]
#[serde(tag = "kind")]
pub enum InternalMaps {
    WithMap { m: BTreeMap<String, u8>, c: BTreeMap<char, bool> },
    Unit,
}

#[derive(Serialize, Deserialize, PartialEq, Debug, Clone)]
pub struct FlatMaps {
    pub id: u8,
    #[serde(flatten)]
    pub inner: FlatInner,
}

#[derive(Serialize, Deserialize, PartialEq, Debug, Clone)]
pub struct FlatInner {
    pub named: BTreeMap<String, i16>,
    pub by_int: BTreeMap<i32, String>,
}

/// A byte string: serialized with `serialize_bytes`, read back with `deserialize_byte_buf`.
#[derive(PartialEq, Debug, Clone)]
pub struct Bytes(pub Vec<u8>);

impl Serialize for Bytes {
    fn serialize<S: serde::Serializer>(&self, s: S) -> Result<S::Ok, S::Error> {
        s.serialize_bytes(&self.0)
    }
}

impl<'de> Deserialize<'de> for Bytes {
    fn deserialize<D: serde::Deserializer<'de>>(d: D) -> Result<Self, D::Error> {
        struct V;
        impl<'de> serde::de::Visitor<'de> for V {
            type Value = Bytes;
            fn expecting(&self, f: &mut std::fmt::Formatter) -> std::fmt::Result {
                f.write_str("bytes")
            }
            fn visit_bytes<E>(self, v: &[u8]) -> Result<Bytes, E> {
                Ok(Bytes(v.to_vec()))
            }
            fn visit_byte_buf<E>(self, v: Vec<u8>) -> Result<Bytes, E> {
                Ok(Bytes(v))
            }
            fn visit_seq<A: serde::de::SeqAccess<'de>>(self, mut a: A) -> Result<Bytes, A::Error> {
                let mut out = Vec::new();
                while let Some(b) = a.next_element::<u8>()? {
                    out.push(b);
                }
                Ok(Bytes(out))
            }
        }
        d.deserialize_byte_buf(V)
    }
}

/// Typed data pushed through size thresholds: long strings, long sequences, maps with many
/// keys, long tuples of options.
/// A type that serializes through `Serializer::collect_str` (as chrono, url, … do) and
/// deserializes from a string: as a value and as a map key.
#[derive(PartialEq, Eq, PartialOrd, Ord, Debug, Clone)]
pub struct Shown(pub u32, pub String);

impl std::fmt::Display for Shown {
    fn fmt(&self, f: &mut std::fmt::Formatter) -> std::fmt::Result {
        write!(f, "{}:{}", self.0, self.1)
    }
}

impl Serialize for Shown {
    fn serialize<S: serde::Serializer>(&self, s: S) -> Result<S::Ok, S::Error> {
        s.collect_str(self)
    }
}

impl<'de> Deserialize<'de> for Shown {
    fn deserialize<D: serde::Deserializer<'de>>(d: D) -> Result<Self, D::Error> {
        let s = String::deserialize(d)?;
        let (a, b) = s.split_once(':').ok_or_else(|| serde::de::Error::custom("no colon"))?;
        Ok(Shown(a.parse().map_err(serde::de::Error::custom)?, b.to_string()))
    }
}

/// Hand-written impls that drive the serializer the way derive never does: a length hint that
/// is absent, too small or too large; keys and values through `serialize_key` /
/// `serialize_value` instead of `serialize_entry`; sequences with wrong hints. (`flatten`,
/// `skip_serializing_if` and adaptors such as `serde_with` produce exactly such call patterns.)
#[derive(PartialEq, Debug, Clone)]
pub struct ManualMap(pub Vec<(String, u16)>, pub u8);

impl Serialize for ManualMap {
    fn serialize<S: serde::Serializer>(&self, s: S) -> Result<S::Ok, S::Error> {
        use serde::ser::SerializeMap;
        let hint = match self.1 {
            0 => None,
            1 => Some(0),
            2 => Some(self.0.len()),
            _ => Some(self.0.len() + 100),
        };
        let mut m = s.serialize_map(hint)?;
        for (i, (k, v)) in self.0.iter().enumerate() {
            if (i + self.1 as usize) % 2 == 0 {
                m.serialize_key(k)?;
                m.serialize_value(v)?;
            } else {
                m.serialize_entry(k, v)?;
            }
        }
        m.end()
    }
}

impl<'de> Deserialize<'de> for ManualMap {
    fn deserialize<D: serde::Deserializer<'de>>(d: D) -> Result<Self, D::Error> {
        struct V;
        impl<'de> serde::de::Visitor<'de> for V {
            type Value = Vec<(String, u16)>;
            fn expecting(&self, f: &mut std::fmt::Formatter) -> std::fmt::Result {
                f.write_str("a map")
            }
            fn visit_map<A: serde::de::MapAccess<'de>>(self, mut a: A) -> Result<Self::Value, A::Error> {
                // alternate between next_entry and next_key / next_value, and trust size_hint
                // only as a hint
                let mut out = Vec::with_capacity(a.size_hint().unwrap_or(0).min(16));
                let mut i = 0;
                loop {
                    if i % 2 == 0 {
                        match a.next_entry::<String, u16>()? {
                            Some(e) => out.push(e),
                            None => break,
                        }
                    } else {
                        match a.next_key::<String>()? {
                            Some(k) => {
                                let v = a.next_value::<u16>()?;
                                out.push((k, v));
                            }
                            None => break,
                        }
                    }
                    i += 1;
                }
                Ok(out)
            }
        }
        Ok(ManualMap(d.deserialize_map(V)?, 2))
    }
}

#[derive(PartialEq, Debug, Clone)]
pub struct ManualSeq(pub Vec<i32>, pub u8);

impl Serialize for ManualSeq {
    fn serialize<S: serde::Serializer>(&self, s: S) -> Result<S::Ok, S::Error> {
        use serde::ser::SerializeSeq;
        let hint = match self.1 {
            0 => None,
            1 => Some(0),
            2 => Some(self.0.len()),
            _ => Some(self.0.len() + 100),
        };
        let mut q = s.serialize_seq(hint)?;
        for x in &self.0 {
            q.serialize_element(x)?;
        }
        q.end()
    }
}

impl<'de> Deserialize<'de> for ManualSeq {
    fn deserialize<D: serde::Deserializer<'de>>(d: D) -> Result<Self, D::Error> {
        struct V;
        impl<'de> serde::de::Visitor<'de> for V {
            type Value = Vec<i32>;
            fn expecting(&self, f: &mut std::fmt::Formatter) -> std::fmt::Result {
                f.write_str("a sequence")
            }
            fn visit_seq<A: serde::de::SeqAccess<'de>>(self, mut a: A) -> Result<Self::Value, A::Error> {
                let hint = a.size_hint();
                let mut out = Vec::new();
                while let Some(x) = a.next_element::<i32>()? {
                    out.push(x);
                }
                if let Some(h) = hint {
                    if h != out.len() {
                        return Err(serde::de::Error::custom(format!("size_hint() announced {h} elements, {} were delivered", out.len())));
                    }
                }
                Ok(out)
            }
        }
        Ok(ManualSeq(d.deserialize_seq(V)?, 2))
    }
}

/// A struct whose *second* field carries the reserved name.
#[derive(Serialize, Deserialize, PartialEq, Debug, Clone)]
pub struct TokenSecond {
    a: u8,
    #[serde(rename = "$serde_json::private::Number")]
    token: String,
}

pub fn pumped(rep: &mut Report, tier: Tier) {
    let cap = tier.pick(4097usize, 65537);
    let ns = refmodel::pump::thresholds(cap);
    let count = ns.len();
    let t = explore::par_tally(ns, |n, t| {
        let s: String = (0..n).map(|i| if i % 31 == 5 { '\u{e9}' } else if i % 53 == 11 { '"' } else { 'a' }).collect();
        check_datum(&s, "String (pumped)", false, t);
        check_datum(&St { f: s.clone(), g: 1 }, "struct with a long string", false, t);
        check_datum(&BTreeMap::from([(s.clone(), 1u8)]), "map with a long key", false, t);
        let v16: Vec<u16> = (0..n).map(|i| (i * 257) as u16).collect();
        check_datum(&v16, "Vec<u16> (pumped)", false, t);
        let vopt: Vec<Option<bool>> = (0..n).map(|i| if i % 3 == 0 { None } else { Some(i % 2 == 0) }).collect();
        check_datum(&En::Tup(vopt, 1), "tuple variant holding a long Vec<Option<bool>>", false, t);
        if n <= 16385 {
            let m: BTreeMap<String, u16> = (0..n).map(|i| (format!("key-{i:05}"), i as u16)).collect();
            check_datum(&m, "BTreeMap<String,u16> (pumped)", false, t);
            let mi: BTreeMap<u32, Vec<u8>> = (0..n).map(|i| (i as u32 * 65537, vec![i as u8])).collect();
            check_datum(&St { f: mi, g: 2 }, "BTreeMap<u32,Vec<u8>> (pumped)", false, t);
        }
        check_datum(&Bytes((0..n).map(|i| i as u8).collect()), "bytes (pumped)", false, t);
        t.nontrivial(&("pumped", n));
    });
    rep.bounds["pumped"] = json!({"sizes": count, "cap": cap, "shapes": ["String", "struct field", "map key", "Vec<u16>", "Vec<Option<bool>> in a tuple variant", "BTreeMap<String,u16>", "BTreeMap<u32,Vec<u8>>", "bytes"]});
    rep.absorb(t);
}

/// Variants and structs whose payload is (or may come out as) the *empty* object or array: a
/// struct variant declared without fields, one whose only field is skipped when `None`, an empty
/// struct, an empty tuple struct / tuple variant (serde_json itself decides whether the shape is
/// in the domain: it has to round-trip it).
#[derive(Serialize, Deserialize, PartialEq, Debug, Clone)]
pub enum EmptyPayloads {
    NoFields {},
    AllSkipped {
        #[serde(default, skip_serializing_if = "Option::is_none")]
        a: Option<u8>,
        #[serde(default, skip_serializing_if = "Vec::is_empty")]
        b: Vec<u8>,
    },
    NoItems(),
    Unit,
}

#[derive(Serialize, Deserialize, PartialEq, Debug, Clone)]
pub struct EmptyStruct {}

#[derive(Serialize, Deserialize, PartialEq, Debug, Clone)]
pub struct EmptyTuple();

#[derive(Serialize, Deserialize, PartialEq, Debug, Clone)]
#[serde(tag = "t", content = "c")]
pub enum EmptyAdjacent {
    NoFields {},
    NoItems(),
    Unit,
}

fn empty_payloads(t: &mut Tally) {
    let all = [EmptyPayloads::NoFields {}, EmptyPayloads::AllSkipped { a: None, b: vec![] }, EmptyPayloads::AllSkipped { a: Some(3), b: vec![] }, EmptyPayloads::AllSkipped { a: None, b: vec![1] }, EmptyPayloads::NoItems(), EmptyPayloads::Unit];
    for x in &all {
        contexts(x, "variant with an empty (or possibly empty) payload", false, t);
        check_datum(&(x.clone(), x.clone()), "pair of variants with empty payloads", false, t);
        check_datum(&BTreeMap::from([("k".to_string(), vec![x.clone()])]), "map of Vec of variants with empty payloads", false, t);
    }
    contexts(&EmptyStruct {}, "empty struct", false, t);
    contexts(&EmptyTuple(), "empty tuple struct", false, t);
    for x in [EmptyAdjacent::NoFields {}, EmptyAdjacent::NoItems(), EmptyAdjacent::Unit] {
        contexts(&x, "adjacently tagged variant with an empty payload", false, t);
    }
    buffered(EmptyStruct {}, "an empty struct", t);
    buffered(EmptyPayloads::NoFields {}, "a struct variant without fields", t);
    buffered(EmptyPayloads::AllSkipped { a: None, b: vec![] }, "a struct variant whose fields are all skipped", t);
}

/// Every kind of leaf inside every representation that serde deserializes through its buffered
/// `Content` tree (flatten, internally tagged, untagged): there the datum reaches the crate's
/// deserializer through `deserialize_any` only, so what `deserialize_any` *announces* for null,
/// numbers, strings, sequences and maps decides whether the typed visitor behind the buffer
/// still accepts it (unit types accept `visit_unit` only, options `visit_none` / `visit_unit`,
/// characters a one-character string, ...).
#[derive(Serialize, Deserialize, PartialEq, Debug, Clone)]
pub struct BufInner<T> {
    pub v: T,
    pub o: Option<T>,
}

#[derive(Serialize, Deserialize, PartialEq, Debug, Clone)]
pub struct BufFlat<T> {
    pub id: u8,
    #[serde(flatten)]
    pub inner: BufInner<T>,
}

#[derive(Serialize, Deserialize, PartialEq, Debug, Clone)]
#[serde(tag = "t")]
pub enum BufTagged<T> {
    V { v: T },
    N(BufInner<T>),
}

#[derive(Serialize, Deserialize, PartialEq, Debug, Clone)]
#[serde(untagged)]
pub enum BufUntagged<T> {
    V { v: T },
    W { w: Vec<T> },
}

#[derive(Serialize, Deserialize, PartialEq, Debug, Clone)]
pub struct BufFlatEnum<T> {
    pub id: u8,
    #[serde(flatten)]
    pub e: En<T>,
}

pub fn buffered<T>(x: T, what: &str, t: &mut Tally)
where
    T: Serialize + DeserializeOwned + PartialEq + Debug + Clone,
{
    buffered_as(x, what, false, t)
}

pub fn buffered_as<T>(x: T, what: &str, f32_data: bool, t: &mut Tally)
where
    T: Serialize + DeserializeOwned + PartialEq + Debug + Clone,
{
    check_datum(&BufFlat { id: 7, inner: BufInner { v: x.clone(), o: Some(x.clone()) } }, &format!("{what} in a flattened struct"), f32_data, t);
    check_datum(&BufFlat { id: 7, inner: BufInner { v: x.clone(), o: None } }, &format!("{what} in a flattened struct (None beside it)"), f32_data, t);
    check_datum(&BufTagged::V { v: x.clone() }, &format!("{what} in an internally tagged struct variant"), f32_data, t);
    check_datum(&BufTagged::N(BufInner { v: x.clone(), o: Some(x.clone()) }), &format!("{what} in an internally tagged newtype variant"), f32_data, t);
    check_datum(&BufUntagged::V { v: x.clone() }, &format!("{what} in an untagged struct variant"), f32_data, t);
    check_datum(&BufUntagged::W { w: vec![x.clone(), x.clone()] }, &format!("Vec of {what} in an untagged struct variant"), f32_data, t);
    check_datum(&vec![BufTagged::V { v: x.clone() }, BufTagged::N(BufInner { v: x.clone(), o: None })], &format!("Vec of internally tagged variants holding {what}"), f32_data, t);
    check_datum(&BufFlatEnum { id: 1, e: En::New(x.clone()) }, &format!("flattened newtype variant holding {what}"), f32_data, t);
    check_datum(&BufFlatEnum { id: 1, e: En::Struct { f: x.clone() } }, &format!("flattened struct variant holding {what}"), f32_data, t);
    check_datum(&BufFlatEnum { id: 1, e: En::Tup(x.clone(), 3) }, &format!("flattened tuple variant holding {what}"), f32_data, t);
    check_datum(&BufFlatEnum::<T> { id: 1, e: En::Unit }, "flattened unit variant", f32_data, t);
}

fn buffered_leaves(t: &mut Tally) {
    buffered((), "()", t);
    buffered(UnitStruct, "a unit struct", t);
    buffered(std::marker::PhantomData::<u8>, "PhantomData", t);
    buffered(Some(()), "Some(())", t);
    buffered(None::<()>, "None::<()>", t);
    buffered(true, "bool", t);
    for x in [0u8, 255] {
        buffered(x, "u8", t);
    }
    for x in [i8::MIN, -1] {
        buffered(x, "i8", t);
    }
    for x in [i64::MIN, -1, i64::MAX] {
        buffered(x, "i64", t);
    }
    for x in [0u64, u64::MAX] {
        buffered(x, "u64", t);
    }
    for x in [0.0f64, -1.5, 1e300, 5e-324] {
        buffered(x, "f64", t);
    }
    for x in [0.1f32, f32::MAX] {
        buffered_as(x, "f32", true, t);
    }
    for x in ['a', '7', '\u{0}', '\u{e9}', '\u{1f600}'] {
        buffered(x, "char", t);
    }
    for x in ["", "x", "7", "null", "a-string-longer-than-sixteen-bytes"] {
        buffered(x.to_string(), "String", t);
    }
    buffered(Some(5u8), "Option<u8>", t);
    buffered(None::<u8>, "Option<u8>", t);
    buffered(vec![1u8, 2], "Vec<u8>", t);
    buffered(Vec::<u8>::new(), "empty Vec", t);
    buffered((1u8, "s".to_string()), "tuple", t);
    buffered([1u8, 2], "array", t);
    buffered(En::<u8>::Unit, "unit variant", t);
    buffered(En::New(3u8), "newtype variant", t);
    buffered(En::Tup(3u8, 4), "tuple variant", t);
    buffered(En::Struct { f: 3u8 }, "struct variant", t);
    buffered(UnitKey::Beta, "renamed unit variant", t);
    buffered(BTreeMap::from([("k".to_string(), 1u8)]), "string-keyed map", t);
    buffered(BTreeMap::from([(7i32, ())]), "integer-keyed map of units", t);
    buffered(Bytes(vec![0, 255]), "bytes", t);
}

fn representations(t: &mut Tally) {
    newtype_keys(t);
    buffered_leaves(t);
    empty_payloads(t);
    for x in [-128i8, -1, 0, 127] {
        for s in ["", "a", "t", "\u{1f600}"] {
            check_datum(&Internal::A { x, s: s.to_string() }, "internally tagged enum", false, t);
            check_datum(&vec![Some(Internal::A { x, s: s.to_string() }), None], "Vec<Option<internally tagged>>", false, t);
            check_datum(&Adjacent::B { x: s.to_string() }, "adjacently tagged enum", false, t);
        }
        check_datum(&Adjacent::A(x), "adjacently tagged enum", false, t);
        check_datum(&Untagged::N(x as i64), "untagged enum", false, t);
    }
    for v in [vec![], vec![0u8], vec![255, 0, 128]] {
        check_datum(&Internal::B { v: v.clone() }, "internally tagged enum", false, t);
        check_datum(&Bytes(v.clone()), "bytes", false, t);
        check_datum(&St { f: Bytes(v.clone()), g: 3 }, "bytes in a struct", false, t);
        check_datum(&BTreeMap::from([("k".to_string(), Bytes(v))]), "bytes in a map", false, t);
    }
    // keys that look like numbers, booleans or null, in maps that are deserialized from
    // serde's buffered content
    for keys in [vec!["2024"], vec!["-1", "x"], vec!["7", "007", "1e3"], vec!["true", "null"], vec!["18446744073709551616"], vec![]] {
        let m: BTreeMap<String, u8> = keys.iter().enumerate().map(|(i, k)| (k.to_string(), i as u8)).collect();
        check_datum(&UntaggedMaps::ByString(m.clone()), "untagged enum holding a string-keyed map", false, t);
        check_datum(&InternalMaps::WithMap { m: m.clone(), c: BTreeMap::from([('7', true), ('x', false)]) }, "internally tagged variant holding maps", false, t);
        check_datum(&vec![InternalMaps::Unit, InternalMaps::WithMap { m: m.clone(), c: BTreeMap::new() }], "Vec of internally tagged variants holding maps", false, t);
        check_datum(&FlatMaps { id: 1, inner: FlatInner { named: m.iter().map(|(k, v)| (k.clone(), *v as i16)).collect(), by_int: BTreeMap::from([(-1, "a".to_string()), (2024, "b".to_string())]) } }, "flattened struct holding maps", false, t);
        check_datum(&Flat { a: 3, rest: m.iter().map(|(k, v)| (k.clone(), *v as i16)).collect() }, "flattened map", false, t);
    }
    check_datum(&UntaggedMaps::ByChar(BTreeMap::from([('7', "seven".to_string()), ('-', "dash".to_string())])), "untagged enum holding a char-keyed map", false, t);
    check_datum(&UntaggedMaps::Seq(vec![1, 2]), "untagged enum holding a sequence", false, t);
    check_datum(&Internal::C, "internally tagged enum", false, t);
    check_datum(&Adjacent::C, "adjacently tagged enum", false, t);
    for (u, o) in [(0u64, None), (u64::MAX, Some(true)), (1 << 63, Some(false))] {
        check_datum(&Adjacent::D(u, o), "adjacently tagged enum", false, t);
        check_datum(&Untagged::U(u), "untagged enum", false, t);
    }
    for u in [Untagged::N(i64::MIN), Untagged::N(-1), Untagged::S("".into()), Untagged::S("x".into()), Untagged::L(vec![]), Untagged::L(vec![true, false]), Untagged::M { a: 0 }, Untagged::M { a: 255 }, Untagged::Nothing] {
        check_datum(&u, "untagged enum", false, t);
        check_datum(&BTreeMap::from([("u".to_string(), vec![u.clone()])]), "untagged enum in a map of vectors", false, t);
    }
    for a in [0u8, 255] {
        for rest in [BTreeMap::new(), BTreeMap::from([("b".to_string(), -1i16)]), BTreeMap::from([("".to_string(), i16::MIN), ("z".to_string(), i16::MAX), ("\u{e9}".to_string(), 0)])] {
            check_datum(&Flat { a, rest: rest.clone() }, "struct with a flattened map", false, t);
        }
        for b in [None, Some(String::new()), Some("s".to_string())] {
            for c in [vec![], vec![(), ()]] {
                check_datum(&Renamed { a: Some(a), b: b.clone(), c: c.clone() }, "struct with renamed / defaulted / skipped fields", false, t);
                check_datum(&Renamed { a: None, b: b.clone(), c }, "struct with renamed / defaulted / skipped fields", false, t);
            }
        }
    }
}

/// Compares a json-syntax value with serde_json's rendering of the same datum: same shape,
/// objects up to member order, numbers by value (`f32_data`: after rounding both to f32).
pub fn same_shape(a: &Value, b: &serde_json::Value, f32_data: bool) -> bool {
    match (a, b) {
        (Value::Null, serde_json::Value::Null) => true,
        (Value::Boolean(x), serde_json::Value::Bool(y)) => x == y,
        (Value::String(x), serde_json::Value::String(y)) => x.as_str() == y,
        (Value::Number(x), serde_json::Value::Number(y)) => {
            let xs = x.as_str();
            if let (Ok(p), Some(q)) = (xs.parse::<u64>(), y.as_u64()) {
                return p == q;
            }
            if let (Ok(p), Some(q)) = (xs.parse::<i64>(), y.as_i64()) {
                return p == q;
            }
            if f32_data {
                // json-syntax prints the shortest digits of the f32; they are read back as an
                // f32 directly (reading them as f64 first would round twice). serde_json
                // widens the f32 to f64 exactly, so the cast back is exact.
                return match (xs.parse::<f32>(), y.as_f64()) {
                    (Ok(p), Some(q)) => p.to_bits() == (q as f32).to_bits() || (p == 0.0 && q == 0.0),
                    _ => false,
                };
            }
            match (xs.parse::<f64>(), y.as_f64()) {
                (Ok(p), Some(q)) => {
                    if f32_data {
                        unreachable!()
                    } else {
                        p.to_bits() == q.to_bits() || (p == 0.0 && q == 0.0)
                    }
                }
                _ => false,
            }
        }
        (Value::Array(x), serde_json::Value::Array(y)) => x.len() == y.len() && x.iter().zip(y).all(|(p, q)| same_shape(p, q, f32_data)),
        (Value::Object(x), serde_json::Value::Object(y)) => {
            x.len() == y.len() && x.iter().all(|e| x.get(e.key.as_str()).count() == 1 && y.get(e.key.as_str()).map(|q| same_shape(&e.value, q, f32_data)).unwrap_or(false))
        }
        _ => false,
    }
}

/// Is this datum in the known-finding class D11 (a map whose first serialized key is the
/// reserved number token)?
fn has_token_first_key(j: &serde_json::Value) -> bool {
    match j {
        serde_json::Value::Array(a) => a.iter().any(has_token_first_key),
        serde_json::Value::Object(o) => o.keys().next().map(|k| k == TOKEN).unwrap_or(false) || o.values().any(has_token_first_key),
        _ => false,
    }
}

/// The three oracles of C16 on one datum.
pub fn check_datum<T>(x: &T, what: &str, f32_data: bool, t: &mut Tally)
where
    T: Serialize + DeserializeOwned + PartialEq + Debug + Clone,
{
    t.evals += 1;
    // domain guard: serde_json itself must round-trip the datum
    let sj = match serde_json::to_value(x) {
        Ok(v) => v,
        Err(_) => {
            t.outcome("outside the domain: serde_json cannot serialize");
            return;
        }
    };
    match serde_json::from_value::<T>(sj.clone()) {
        Ok(back) if back == *x => {}
        _ => {
            t.outcome("outside the domain: serde_json does not round-trip");
            return;
        }
    }
    let class = if has_token_first_key(&sj) { "D11" } else { "" };
    let case = || json!({"kind": "datum", "type": what, "debug": format!("{x:?}"), "serde_json": sj});
    let v = match explore::guard(|| to_value(x.clone())) {
        Ok(Ok(v)) => v,
        Ok(Err(e)) => {
            t.violation(class, format!("to_value failed on {what}: {e}"), case());
            return;
        }
        Err(p) => {
            t.violation(class, format!("to_value panicked on {what}: {p}"), case());
            return;
        }
    };
    // 1. round trip
    match explore::guard(|| from_value::<T>(v.clone())) {
        Ok(Ok(back)) => {
            if back != *x {
                t.violation(class, format!("{what}: round trip through Value changed the datum: {x:?} -> {v} -> {back:?}"), case());
            }
        }
        Ok(Err(e)) => t.violation(class, format!("{what}: from_value(to_value(x)) failed: {e} (value {v})"), case()),
        Err(p) => t.violation(class, format!("{what}: from_value panicked: {p}"), case()),
    }
    // 2. same JSON shape as serde_json
    if !same_shape(&v, &sj, f32_data) {
        t.violation(class, format!("{what}: to_value gives {v}, serde_json gives {sj}"), case());
    }
    // 3. serde_json's rendering, converted, deserializes to the datum
    let conv = Value::from_serde_json(sj.clone());
    match explore::guard(|| from_value::<T>(conv.clone())) {
        Ok(Ok(back)) => {
            if back != *x {
                t.violation(class, format!("{what}: deserializing serde_json's rendering gives {back:?}, expected {x:?}"), case());
            }
        }
        Ok(Err(e)) => t.violation(class, format!("{what}: from_value(from_serde_json(serde_json::to_value(x))) failed: {e}"), case()),
        Err(p) => t.violation(class, format!("{what}: from_value panicked: {p}"), case()),
    }
    t.outcome("datum checked");
}

/// A leaf in every one-hole context that admits any type.
pub fn contexts<L>(x: &L, name: &str, f32_data: bool, t: &mut Tally)
where
    L: Serialize + DeserializeOwned + PartialEq + Debug + Clone,
{
    check_datum(x, name, f32_data, t);
    check_datum(&Some(x.clone()), "Option<_>", f32_data, t);
    check_datum(&NewS(x.clone()), "newtype struct", f32_data, t);
    check_datum(&TupS(x.clone(), true), "tuple struct", f32_data, t);
    check_datum(&(x.clone(), 7u8, "z".to_string()), "tuple", f32_data, t);
    check_datum(&vec![x.clone(), x.clone()], "Vec<_>", f32_data, t);
    check_datum(&BTreeMap::from([("k".to_string(), x.clone()), ("".to_string(), x.clone())]), "BTreeMap<String,_>", f32_data, t);
    check_datum(&St { f: x.clone(), g: 1 }, "struct field", f32_data, t);
    check_datum(&En::New(x.clone()), "newtype variant", f32_data, t);
    check_datum(&En::Tup(x.clone(), 2), "tuple variant", f32_data, t);
    check_datum(&En::Struct { f: x.clone() }, "struct variant", f32_data, t);
}

/// A leaf as a map key (types the key serializer admits).
pub fn key_context<K>(k: &K, name: &str, t: &mut Tally)
where
    K: Serialize + DeserializeOwned + Ord + Debug + Clone,
{
    check_datum(&BTreeMap::from([(k.clone(), 1u8)]), name, false, t);
    check_datum(&St { f: BTreeMap::from([(k.clone(), vec![Some(true)])]), g: 0 }, name, false, t);
}

// ---------------------------------------------------------------------------------------------
// the recursive universe type: every shape nested in every other

#[derive(Serialize, Deserialize, PartialEq, Debug, Clone)]
pub enum T {
    Unit(()),
    Bool(bool),
    I8(i8),
    Str(String),
    UnitS(UnitStruct),
    EUnit(En<Box<T>>),
    Opt(Option<Box<T>>),
    NewS(NewS<Box<T>>),
    TupS(TupS<Box<T>>),
    St(St<Box<T>>),
    ENew(En<Box<T>>),
    Tuple((Box<T>, Box<T>)),
    Seq(Vec<T>),
    Map(BTreeMap<String, T>),
    IntMap(BTreeMap<i8, T>),
}

/// All instances with exactly `n` nodes (a node = one T).
fn universe(n: usize, memo: &mut Vec<Vec<T>>) {
    while memo.len() <= n {
        let k = memo.len();
        let mut out: Vec<T> = Vec::new();
        if k == 0 {
            memo.push(out);
            continue;
        }
        if k == 1 {
            out.extend([T::Unit(()), T::Bool(true), T::I8(-1), T::Str("a".into()), T::UnitS(UnitStruct), T::EUnit(En::Unit), T::Opt(None), T::Seq(vec![]), T::Map(BTreeMap::new())]);
        }
        // one child of size k-1
        if k >= 2 {
            for c in memo[k - 1].clone() {
                let b = || Box::new(c.clone());
                out.push(T::Opt(Some(b())));
                out.push(T::NewS(NewS(b())));
                out.push(T::TupS(TupS(b(), false)));
                out.push(T::St(St { f: b(), g: 9 }));
                out.push(T::ENew(En::New(b())));
                out.push(T::ENew(En::Tup(b(), 3)));
                out.push(T::ENew(En::Struct { f: b() }));
                out.push(T::Seq(vec![c.clone()]));
                out.push(T::Map(BTreeMap::from([("k".to_string(), c.clone())])));
                out.push(T::IntMap(BTreeMap::from([(-5i8, c.clone())])));
            }
        }
        // two children of sizes i + j = k - 1
        if k >= 3 {
            for i in 1..k - 1 {
                let j = k - 1 - i;
                for a in memo[i].clone() {
                    for b in memo[j].clone() {
                        out.push(T::Tuple((Box::new(a.clone()), Box::new(b.clone()))));
                        out.push(T::Seq(vec![a.clone(), b.clone()]));
                        out.push(T::Map(BTreeMap::from([("k".to_string(), a.clone()), ("".to_string(), b.clone())])));
                    }
                }
            }
        }
        memo.push(out);
    }
}

pub fn run(rep: &mut Report, tier: Tier) {
    let budget = Budget::for_tier(tier, 45, 900);
    // ---- structure family
    let maxn = tier.pick(4, 5);
    let mut memo: Vec<Vec<T>> = Vec::new();
    universe(maxn, &mut memo);
    let mut total = 0usize;
    for n in 1..=maxn {
        let items = memo[n].clone();
        total += items.len();
        let t = explore::par_tally(items.chunks(64).map(|c| c.to_vec()).collect(), |chunk, t| {
            if budget.expired() {
                t.outcome("skipped:time-cap");
                return;
            }
            for x in chunk {
                check_datum(&x, "universe type", false, t);
                t.nontrivial(&format!("{x:?}"));
            }
        });
        rep.absorb(t);
    }
    rep.bounds["structure"] = json!({"max_nodes": maxn, "instances": total, "constructors": 15});
    rep.tally.sample(json!({"structure_instance": format!("{:?}", memo[maxn][memo[maxn].len() / 2]), "as_value": to_value(memo[maxn][memo[maxn].len() / 2].clone()).map(|v| v.to_string()).unwrap_or_default()}));

    // ---- leaves: complete small integer types in every context
    let t = explore::par_tally((0..=255u32).collect(), |b, t| {
        contexts(&(b as u8), "u8", false, t);
        contexts(&(b as u8 as i8), "i8", false, t);
        key_context(&(b as u8), "BTreeMap<u8,_>", t);
        key_context(&(b as u8 as i8), "BTreeMap<i8,_>", t);
        for lo in 0..=255u32 {
            let w = ((b << 8) | lo) as u16;
            check_datum(&w, "u16", false, t);
            check_datum(&(w as i16), "i16", false, t);
            check_datum(&En::Tup(w as i16, 0), "tuple variant", false, t);
            check_datum(&vec![Some(w)], "Vec<Option<u16>>", false, t);
            if tier == Tier::Thorough || lo % 16 == 0 {
                contexts(&w, "u16", false, t);
                contexts(&(w as i16), "i16", false, t);
                key_context(&w, "BTreeMap<u16,_>", t);
                key_context(&(w as i16), "BTreeMap<i16,_>", t);
            }
        }
        t.nontrivial(&("small ints", b));
    });
    rep.absorb(t);
    // wide integers at their bounds
    let mut t = Tally::new();
    for x in [i32::MIN, i32::MIN + 1, -1, 0, 1, i32::MAX - 1, i32::MAX] {
        contexts(&x, "i32", false, &mut t);
        key_context(&x, "BTreeMap<i32,_>", &mut t);
    }
    for x in [0u32, 1, u32::MAX - 1, u32::MAX] {
        contexts(&x, "u32", false, &mut t);
        key_context(&x, "BTreeMap<u32,_>", &mut t);
    }
    for x in [i64::MIN, i64::MIN + 1, -(1 << 53) - 1, -(1 << 53), -1, 0, 1, (1 << 53) - 1, (1 << 53) + 1, i64::MAX - 1, i64::MAX] {
        contexts(&x, "i64", false, &mut t);
        key_context(&x, "BTreeMap<i64,_>", &mut t);
    }
    for x in [0u64, 1, (1 << 53) + 1, i64::MAX as u64, i64::MAX as u64 + 1, u64::MAX - 1, u64::MAX] {
        contexts(&x, "u64", false, &mut t);
        key_context(&x, "BTreeMap<u64,_>", &mut t);
    }
    // (128-bit integers are outside C16's domain - "8-64-bit integers" - and the serializer rejects
    // them by design: not checked, see DESIGN 10.5 correction 7)
    // keys of other scalar types, std containers and smart pointers
    // (bool keys: serde_json accepts them, json-syntax refuses; outside C16's list of key types)
    key_context(&Some(1u8), "BTreeMap<Option<u8>,_>", &mut t);
    key_context(&(), "BTreeMap<(),_>", &mut t);
    contexts(&Box::new(5u8), "Box<u8>", false, &mut t);
    contexts(&std::borrow::Cow::<'static, str>::Owned("cow".to_string()), "Cow<str>", false, &mut t);
    contexts(&[1u8, 2, 3], "[u8; 3]", false, &mut t);
    contexts(&[0u8; 0], "[u8; 0]", false, &mut t);
    contexts(&(9u16,), "1-tuple", false, &mut t);
    contexts(&std::collections::BTreeSet::from([3u8, 1, 2]), "BTreeSet<u8>", false, &mut t);
    contexts(&std::collections::VecDeque::from([Some(1i8), None]), "VecDeque<Option<i8>>", false, &mut t);
    contexts(&std::collections::BTreeMap::<String, u8>::new(), "empty map", false, &mut t);
    contexts(&Vec::<u8>::new(), "empty Vec", false, &mut t);
    contexts(&Some(vec![Some(vec![None, Some(1u8)])]), "Option<Vec<Option<Vec<Option<u8>>>>>", false, &mut t);
    contexts(&std::num::NonZeroU8::new(7).unwrap(), "NonZeroU8", false, &mut t);
    contexts(&std::time::Duration::new(3, 999_999_999), "Duration", false, &mut t);
    contexts(&(1u8..5u8), "Range<u8>", false, &mut t);
    contexts(&std::net::Ipv4Addr::new(127, 0, 0, 1), "Ipv4Addr", false, &mut t);
    contexts(&Ok::<u8, String>(1), "Result::Ok", false, &mut t);
    contexts(&Err::<u8, String>("e".into()), "Result::Err", false, &mut t);
    contexts(&std::path::PathBuf::from("/a/b"), "PathBuf", false, &mut t);
    // hand-written impls with every length-hint pattern (equality ignores the pattern field,
    // which is not serialized: compare through a pattern-2 copy)
    for n in 0..=4usize {
        for pattern in 0..4u8 {
            let m = ManualMap((0..n).map(|i| (format!("k{i}"), i as u16 * 1000)).collect(), pattern);
            let q = ManualSeq((0..n).map(|i| i as i32 - 2).collect(), pattern);
            // serialize with the pattern, compare with the canonical pattern
            t.evals += 2;
            for (what, got, want) in [
                ("hand-written map impl", explore::guard(|| to_value(m.clone())), serde_json::to_value(&m).ok()),
                ("hand-written sequence impl", explore::guard(|| to_value(q.clone())), serde_json::to_value(&q).ok()),
            ] {
                match (got, want) {
                    (Ok(Ok(v)), Some(j)) => {
                        if !same_shape(&v, &j, false) {
                            t.violation("", format!("{what} (length-hint pattern {pattern}, {n} items): to_value gives {v}, serde_json gives {j}"), json!({"kind": "manual", "n": n, "pattern": pattern}));
                        }
                    }
                    (Ok(Ok(_)), None) => {}
                    (Ok(Err(e)), _) => t.violation("", format!("{what} (length-hint pattern {pattern}, {n} items): to_value failed: {e}"), json!({"kind": "manual", "n": n, "pattern": pattern})),
                    (Err(p), _) => t.violation("", format!("{what} (length-hint pattern {pattern}): to_value panicked: {p}"), json!({"kind": "manual", "n": n, "pattern": pattern})),
                }
            }
            match explore::guard(|| to_value(m.clone()).ok().and_then(|v| from_value::<ManualMap>(v).ok())) {
                Ok(Some(back)) if back.0 == m.0 => {}
                other => t.violation("", format!("hand-written map impl (pattern {pattern}, {n} items) does not round-trip: {other:?}"), json!({"kind": "manual", "n": n, "pattern": pattern})),
            }
            match explore::guard(|| to_value(q.clone()).ok().and_then(|v| from_value::<ManualSeq>(v).ok())) {
                Ok(Some(back)) if back.0 == q.0 => {}
                other => t.violation("", format!("hand-written sequence impl (pattern {pattern}, {n} items) does not round-trip: {other:?}"), json!({"kind": "manual", "n": n, "pattern": pattern})),
            }
        }
    }
    for x in [Shown(0, String::new()), Shown(u32::MAX, "\"\\\n\u{e9}\u{1f600} a-tail-longer-than-sixteen-bytes".into())] {
        contexts(&x, "collect_str type", false, &mut t);
        key_context(&x, "BTreeMap<collect_str type,_>", &mut t);
    }
    contexts(&(), "()", false, &mut t);
    contexts(&UnitStruct, "unit struct", false, &mut t);
    contexts(&true, "bool", false, &mut t);
    contexts(&En::<u8>::Unit, "unit variant", false, &mut t);
    for k in [UnitKey::Alpha, UnitKey::Beta] {
        contexts(&k, "unit-variant enum", false, &mut t);
        key_context(&k, "BTreeMap<unit variant,_>", &mut t);
    }
    // strings (the print alphabet) as values and keys; the reserved token as a key is D11
    for s in ["", "a", "\"\\/\u{8}\u{c}\n\r\t\u{1}\u{1f}\u{7f}\u{e9}\u{2028}\u{1f600}\u{ffff}", "a-string-longer-than-sixteen-bytes", TOKEN, "0", "-1"] {
        contexts(&s.to_string(), "String", false, &mut t);
        key_context(&s.to_string(), "BTreeMap<String,_>", &mut t);
        key_context(&NewKey(s.to_string()), "BTreeMap<newtype(String),_>", &mut t);
    }
    check_datum(&BTreeMap::from([("a".to_string(), 1u8), (TOKEN.to_string(), 2u8)]), "BTreeMap<String,_> with the token as a later key", false, &mut t);
    // (a BTreeMap iterates in key order and "$..." sorts before "a": keys that sort before the
    // token are needed to really put it in a later position)
    for first in ["", " ", "!", "#comment", "$", "$serde_json::private::Numbe"] {
        check_datum(&BTreeMap::from([(first.to_string(), 1u8), (TOKEN.to_string(), 2u8)]), "BTreeMap<String,u8> with the token as the second key", false, &mut t);
        check_datum(&BTreeMap::from([(first.to_string(), "1".to_string()), (TOKEN.to_string(), "2".to_string())]), "BTreeMap<String,String> with the token as the second key", false, &mut t);
        check_datum(&St { f: BTreeMap::from([(first.to_string(), vec![Some(true)]), (TOKEN.to_string(), vec![None])]), g: 1 }, "struct field holding a map with the token as the second key", false, &mut t);
    }
    check_datum(&TokenSecond { a: 1, token: "2.50".to_string() }, "struct whose second field is renamed to the token", false, &mut t);
    representations(&mut t);
    rep.absorb(t);

    pumped(rep, tier);
    // chars: every scalar value as value and as key
    let blocks: Vec<u32> = (0..0x110000u32 / 0x400).collect();
    let t = explore::par_tally(blocks, |b, t| {
        for cp in b * 0x400..(b + 1) * 0x400 {
            if let Some(c) = char::from_u32(cp) {
                check_datum(&c, "char", false, t);
                check_datum(&BTreeMap::from([(c, c)]), "BTreeMap<char,char>", false, t);
                if cp % 256 == 0 || cp < 0x100 {
                    contexts(&c, "char", false, t);
                }
                t.nontrivial(&cp);
            }
        }
    });
    rep.absorb(t);

    // f64: every exponent x 64 mantissa patterns x both signs, + specials
    let nmant = tier.pick(64u64, 2048);
    let exps: Vec<u64> = (0..2048).collect();
    let t = explore::par_tally(exps, |e, t| {
        for k in 0..nmant {
            let m = f64_mantissa(k);
            for s in [0u64, 1] {
                let x = f64::from_bits((s << 63) | (e << 52) | m);
                float64(x, k % 8 == 0, t);
            }
        }
    });
    rep.absorb(t);
    // f32: quick 256 exponents x 64 mantissas x 2 signs; thorough: every bit pattern
    if tier == Tier::Quick {
        let exps: Vec<u32> = (0..256).collect();
        let t = explore::par_tally(exps, |e, t| {
            for k in 0..64u32 {
                let m = (f64_mantissa(k as u64) >> 29) as u32 & 0x7fffff;
                for s in [0u32, 1] {
                    float32(f32::from_bits((s << 31) | (e << 23) | m), true, t);
                }
            }
        });
        rep.absorb(t);
        rep.bounds["f32"] = json!({"patterns": 256 * 64 * 2, "complete": false});
    } else {
        let chunks: Vec<u32> = (0..4096).collect();
        let t = explore::par_tally(chunks, |hi, t| {
            if budget.expired() {
                t.outcome("skipped:time-cap");
                return;
            }
            for lo in 0..(1u32 << 20) {
                let bits = (hi << 20) | lo;
                float32(f32::from_bits(bits), lo % 65536 == 0, t);
            }
        });
        let complete = !t.hist.contains_key("skipped:time-cap");
        if !complete {
            rep.exhaustive = false;
            rep.note("f32 sweep hit the time cap before covering all 2^32 bit patterns");
        }
        rep.absorb(t);
        rep.bounds["f32"] = json!({"patterns": "all 2^32 bit patterns (bare and Vec contexts)", "complete": complete});
    }
    rep.bounds["f64"] = json!({"patterns": 2048 * nmant * 2, "mantissa_patterns": nmant, "rule": "every biased exponent x the mantissa patterns x both signs (includes +-0, subnormals, +-inf, NaNs)"});
    rep.bounds["integers"] = json!({"i8_u8_i16_u16": "complete", "wide": "bounds, 0, +-1, 2^53+-1"});
    rep.bounds["char"] = json!({"scalars": 1112064, "as": ["value", "map key"]});
}

fn f64_mantissa(k: u64) -> u64 {
    match k {
        0 => 0,
        1 => 1,
        2 => (1 << 52) - 1,
        3 => 1 << 51,
        4 => 0x5555555555555,
        5 => 0xAAAAAAAAAAAAA,
        6 => 0x999999999999A,
        7 => 0x3333333333333,
        k => {
            // a fixed multiplicative pattern, deterministic
            (k.wrapping_mul(0x9E3779B97F4A7C15) >> 12) & ((1 << 52) - 1)
        }
    }
}

fn float64(x: f64, all_contexts: bool, t: &mut Tally) {
    t.nontrivial(&x.to_bits());
    if !x.is_finite() {
        // non-finite floats become null
        t.evals += 1;
        match to_value(x) {
            Ok(Value::Null) => t.outcome("non-finite -> null"),
            other => t.violation("", format!("to_value({x}) = {other:?}, expected null"), json!({"kind": "f64", "bits": x.to_bits()})),
        }
        match to_value(vec![Some(x)]) {
            Ok(v) if v.to_string() == "[null]" => {}
            other => t.violation("", format!("to_value([Some({x})]) = {other:?}, expected [null]"), json!({"kind": "f64", "bits": x.to_bits()})),
        }
        return;
    }
    if all_contexts {
        contexts(&F64(x), "f64", false, t);
    } else {
        check_datum(&F64(x), "f64", false, t);
        check_datum(&vec![F64(x)], "Vec<f64>", false, t);
    }
}

fn float32(x: f32, all_contexts: bool, t: &mut Tally) {
    if !x.is_finite() {
        t.evals += 1;
        match to_value(x) {
            Ok(Value::Null) => t.outcome("non-finite -> null"),
            other => t.violation("", format!("to_value({x}f32) = {other:?}, expected null"), json!({"kind": "f32", "bits": x.to_bits()})),
        }
        return;
    }
    if all_contexts {
        t.nontrivial(&x.to_bits());
        contexts(&F32(x), "f32", true, t);
    } else {
        // the hot path of the complete sweep: the round trip and the shape, without the
        // bookkeeping of check_datum
        t.evals += 1;
        let v = match to_value(F32(x)) {
            Ok(v) => v,
            Err(e) => {
                t.violation("", format!("to_value({x}f32) failed: {e}"), json!({"kind": "f32", "bits": x.to_bits()}));
                return;
            }
        };
        let ok_shape = match &v {
            Value::Number(n) => n.as_str().parse::<f32>().map(|p| F32(p) == F32(x)).unwrap_or(false),
            _ => false,
        };
        if !ok_shape {
            t.violation("", format!("to_value({x}f32) = {v}, which does not denote that f32"), json!({"kind": "f32", "bits": x.to_bits()}));
        }
        match from_value::<F32>(v.clone()) {
            Ok(back) if back == F32(x) => {}
            other => t.violation("", format!("f32 {x} ({:08x}) -> {v} -> {other:?}", x.to_bits()), json!({"kind": "f32", "bits": x.to_bits()})),
        }
        match from_value::<Vec<F32>>(Value::Array(vec![v.clone(), v])) {
            Ok(back) if back == vec![F32(x), F32(x)] => {}
            other => t.violation("", format!("Vec<f32> of {x} -> {other:?}"), json!({"kind": "f32", "bits": x.to_bits()})),
        }
    }
}

pub fn replay(case: &explore::serde_json::Value) -> Result<(), String> {
    let mut t = Tally::new();
    match case["kind"].as_str() {
        Some("f64") => float64(f64::from_bits(case["bits"].as_u64().unwrap_or(0)), true, &mut t),
        Some("f32") => {
            float32(f32::from_bits(case["bits"].as_u64().unwrap_or(0) as u32), true, &mut t);
            float32(f32::from_bits(case["bits"].as_u64().unwrap_or(0) as u32), false, &mut t)
        }
        _ => return Err("typed data cannot be rebuilt from a replay file; see the 'debug' and 'serde_json' fields of the case and re-run the check".into()),
    }
    match t.violations.first() {
        None => Ok(()),
        Some(v) => Err(v.what.clone()),
    }
}
