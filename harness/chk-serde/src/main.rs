//! chk-serde: C16 (typed round trip, agreement with serde_json), C17 (Value's own
//! Serialize / Deserialize), C18 (serde_json::Value conversions) — E-ENUM.

#[global_allocator]
static ALLOC: explore::ThreadCache = explore::ThreadCache;

mod features;
mod c16;
mod c17;
mod c18;

use explore::serde_json::Value as J;
use explore::{Args, Report};

fn main() {
    let args = Args::parse();
    explore::quiet_panics();
    explore::init_threads();
    if let Some(path) = &args.replay {
        let j: J = explore::serde_json::from_str(&std::fs::read_to_string(path).expect("read")).expect("json");
        let r = match args.property.as_str() {
            "C16" => c16::replay(&j["case"]),
            "C17" => c17::replay(&j["case"]),
            "C18" => c18::replay(&j["case"]),
            _ => Err("unknown property".into()),
        };
        match r {
            Ok(()) => {
                println!("replay: the case passes on the current tree");
                std::process::exit(0)
            }
            Err(e) => {
                println!("replay: {e}");
                println!("VIOLATION property={} replay={}", args.property, path.display());
                std::process::exit(1)
            }
        }
    }
    let code = match args.property.as_str() {
        "C16" => {
            let mut rep = Report::new(&args, "exploration", "E-ENUM: a recursive universe of serde shapes up to a node bound + complete / structured leaf families in every one-hole context");
            c16::run(&mut rep, args.tier);
            rep.rule = "structure: every instance of a 15-constructor recursive type (unit, bool, i8, string, unit struct, unit/newtype/tuple/struct variants, Option, newtype/tuple/plain structs, tuples, Vec, maps keyed by String and i8) with at most N nodes; leaves: every i8/u8/i16/u16, wide integers at their bounds, every Unicode scalar as char value and char key, strings incl. the reserved token, f64 on every exponent x 64 mantissas x 2 signs, f32 on every bit pattern (thorough) - each in every one-hole context (bare, Option, newtype/tuple struct, tuple, Vec, map value, struct field, newtype/tuple/struct variant, map key where admissible); three oracles per datum: from_value(to_value(x)) == x, to_value(x) has serde_json's shape, serde_json's rendering converted and deserialized gives x; distinct = distinct data".into();
            rep.assumptions.push("domain guard: a datum is used only if serde_json itself round-trips it".into());
            rep.assumptions.push("'same JSON shape': numbers compared by value (f32 data after rounding both to f32), objects up to member order".into());
            rep.finish()
        }
        "C17" => {
            let mut rep = Report::new(&args, "exploration", "E-ENUM: every number spelling up to a length bound + every value up to a node bound (duplicate keys in every pattern)");
            c17::run(&mut rep, args.tier);
            if std::env::var("VERIF_SECONDARY").is_err() {
                features::run(&mut rep);
            }
            rep.rule = "numbers: every JSON number spelling up to the length bound over 0 1 9 - . e E + plus 20 boundary numbers, bare / array item / object member; structure: every value with at most N nodes over leaves {null, 0, 1.5, \"a\"} and keys {a, b, the reserved token}; three oracles: serialize with the crate's serializer (exact, -0 may lose its sign, duplicates collapse to the first position holding the last value), from_value::<Value> and serde_json::from_str::<Value> (same structure, every number the same integer or double; reference double = std's parser resp. serde_json's own); distinct = distinct values".into();
            rep.assumptions.push("the text path is judged against the double serde_json's deserializer itself delivers (DESIGN A.7.9)".into());
            rep.finish()
        }
        "C18" => {
            let mut rep = Report::new(&args, "exploration", "E-ENUM: serde_json numbers in all three representations, every spelling up to a bound, every value up to a node bound");
            c18::run(&mut rep, args.tier);
            rep.rule = "serde_json side: u64 / i64 boundary integers, every binary exponent x 16 (64) mantissas x 2 signs as Float, every structured value of at most N nodes; json-syntax side: every number spelling up to the length bound, boundary numbers, magnitudes outside double range, std's shortest spellings of the structured doubles, every value of at most N nodes; oracles: serde_json -> json-syntax -> serde_json is the identity (also through the From impls), json-syntax -> serde_json -> json-syntax is equal up to order and number spelling, no panic; distinct = distinct values".into();
            rep.finish()
        }
        other => {
            eprintln!("chk-serde does not serve {other}");
            2
        }
    };
    std::process::exit(code);
}
