//! Build-configuration dimension (C17): the behaviour of the crate's own Serialize / Deserialize
//! must not depend on which *other* cargo features are enabled. A small probe program is compiled
//! against /repo once per feature set that contains `serde` (serde alone; + canonicalize;
//! + serde_json; all three), prints a digest - one line per value with the result of
//! `to_value(&v)` and of `from_value::<Value>(v)` - and the four digests must be identical.
//! (The check binaries themselves are built with all features, so code guarded by
//! `cfg!(feature = ...)` / `#[cfg(not(feature = ...))]` is otherwise invisible to them.)

use explore::serde_json::json;
use explore::{Report, Tally};
use std::path::PathBuf;
use std::process::Command;

const CONFIGS: [(&str, &str); 4] = [("serde", "serde"), ("serde-canonicalize", "serde,canonicalize"), ("serde-serde_json", "serde,serde_json"), ("all", "serde,canonicalize,serde_json")];

const DOCS: [&str; 14] = [
    "null",
    "true",
    "0",
    "-0",
    "1.5",
    "-12.50e+3",
    "123456789012345678901234567890",
    "0.1000000000000000055511151231257827",
    "\"a \\\"string\\\" with \\u00e9 and \\ud83d\\ude00\"",
    "[]",
    "[1, 2.5, \"x\", null, [true, {}]]",
    "{\"a\": 1.25, \"b\": [0.5, {\"c\": -3.75e-2}]}",
    "{\"k\": 1, \"k\": 2.5, \"l\": {\"k\": 1e2}}",
    "{\"a-key-longer-than-sixteen-bytes\": [1.0, 10.5]}",
];

fn repo() -> String {
    std::env::var("VERIF_REPO").unwrap_or_else(|_| "/repo".into())
}

fn probe_source() -> String {
    let mut s = String::from("use json_syntax::{Parse, Value};\nfn main() {\n    let docs: &[&str] = &[\n");
    for d in DOCS {
        s.push_str(&format!("        {d:?},\n"));
    }
    s.push_str(
        "    ];\n    for d in docs {\n        let (v, _) = Value::parse_str(d).expect(\"probe document parses\");\n        let ser = match json_syntax::to_value(&v) { Ok(w) => format!(\"ok {}\", w), Err(e) => format!(\"err {}\", e) };\n        let de = match json_syntax::from_value::<Value>(v.clone()) { Ok(w) => format!(\"ok {}\", w), Err(e) => format!(\"err {}\", e) };\n        println!(\"{} => to_value: {} | from_value: {}\", d, ser, de);\n    }\n}\n",
    );
    s
}

pub fn run(rep: &mut Report) {
    let mut t = Tally::new();
    let root: PathBuf = explore::verif_root().join(".gen").join("features");
    let target = format!("{}/gen-features", std::env::var("VERIF_TARGET").unwrap_or_else(|_| "/verif/.target".into()));
    let mut digests: Vec<(String, String)> = Vec::new();
    for (name, feats) in CONFIGS {
        let dir = root.join(name);
        let _ = std::fs::create_dir_all(dir.join("src"));
        let manifest = format!(
            "[package]\nname = \"probe-{name}\"\nversion = \"0.1.0\"\nedition = \"2021\"\n\n[dependencies]\njson-syntax = {{ path = \"{}\", default-features = false, features = [{}] }}\n\n[workspace]\n",
            repo(),
            feats.split(',').map(|f| format!("\"{f}\"")).collect::<Vec<_>>().join(", ")
        );
        let _ = std::fs::write(dir.join("Cargo.toml"), manifest);
        let _ = std::fs::write(dir.join("src/main.rs"), probe_source());
        let _ = std::fs::copy(format!("{}/Cargo.lock", repo()), dir.join("Cargo.lock"));
        let out = Command::new("cargo")
            .args(["run", "--offline", "--quiet"])
            .current_dir(&dir)
            .env("CARGO_NET_OFFLINE", "true")
            .env("CARGO_TARGET_DIR", format!("{target}/{name}"))
            .env_remove("RUSTFLAGS")
            .output();
        t.evals += 1;
        match out {
            Ok(o) if o.status.success() => digests.push((name.to_string(), String::from_utf8_lossy(&o.stdout).to_string())),
            Ok(o) => {
                let err = String::from_utf8_lossy(&o.stderr);
                let first = err.lines().find(|l| l.starts_with("error") || l.contains("panicked")).unwrap_or("").to_string();
                if err.contains("error[") || err.contains("could not compile") {
                    rep.machinery.push(format!("feature probe `{name}` does not build: {first}"));
                } else {
                    t.violation("", format!("with the features [{feats}] the probe program fails: {first}"), json!({"kind": "features", "features": feats}));
                }
            }
            Err(e) => rep.machinery.push(format!("cannot run cargo for the feature probe: {e}")),
        }
    }
    if let Some((base_name, base)) = digests.last().cloned() {
        for (name, d) in &digests {
            if *d != base {
                let (a, b) = d.lines().zip(base.lines()).find(|(x, y)| x != y).unwrap_or(("", ""));
                t.violation(
                    "",
                    format!("the crate's own serde impls behave differently under the feature set `{name}` than under `{base_name}`: {a}   versus   {b}"),
                    json!({"kind": "features", "features": name, "line": a, "reference_line": b}),
                );
            }
        }
        if base.lines().count() != DOCS.len() {
            rep.machinery.push("feature probe printed an unexpected number of lines".to_string());
        }
    }
    t.outcome("feature sets agree");
    rep.bounds["feature_sets"] = json!({"configurations": CONFIGS.iter().map(|c| c.1).collect::<Vec<_>>(), "documents": DOCS.len(), "oracle": "identical digests of to_value / from_value::<Value> in every configuration"});
    rep.absorb(t);
}
