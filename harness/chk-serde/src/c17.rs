//! C17 — Value's own Serialize / Deserialize implementations preserve the JSON value.

use crate::c16::TOKEN;
use explore::serde_json::json;
use explore::{Report, Tally, Tier};
use json_syntax::{from_value, to_value, Print, Value};
use refmodel::pda::Machine;
use refmodel::value::Gen;
use refmodel::RV;

fn as_int(s: &str) -> Option<i128> {
    if s.contains(['.', 'e', 'E']) {
        return None;
    }
    if let Ok(i) = s.parse::<i64>() {
        return Some(i as i128);
    }
    s.parse::<u64>().ok().map(|u| u as i128)
}

/// Known-finding class D9a: a number in integer syntax (no '.') that is not an i64/u64 —
/// including every exponent-without-fraction spelling — cannot be serialized.
fn class_d9a(s: &str) -> bool {
    !s.contains('.') && as_int(s).is_none()
}

fn any_number(v: &RV, f: &dyn Fn(&str) -> bool) -> bool {
    match v {
        RV::Num(n) => f(n),
        RV::Arr(a) => a.iter().any(|x| any_number(x, f)),
        RV::Obj(o) => o.iter().any(|(_, x)| any_number(x, f)),
        _ => false,
    }
}

/// Known-finding class D11: an object whose first key is the reserved number token.
fn token_first(v: &RV) -> bool {
    match v {
        RV::Arr(a) => a.iter().any(token_first),
        RV::Obj(o) => o.first().map(|(k, _)| k == TOKEN).unwrap_or(false) || o.iter().any(|(_, x)| token_first(x)),
        _ => false,
    }
}

fn sig_digits(s: &str) -> usize {
    let mant = s.trim_start_matches('-').split(['e', 'E']).next().unwrap_or("");
    let digits: String = mant.chars().filter(|c| c.is_ascii_digit()).collect();
    digits.trim_start_matches('0').len()
}

/// What serializing `v` with the crate's own serializer must produce: integers normalised
/// (so "-0" loses its sign), decimals verbatim, duplicate keys collapsed to the first
/// position holding the last value.
fn expected_serialized(v: &RV) -> RV {
    match v {
        RV::Num(n) => match as_int(n) {
            Some(i) => RV::Num(i.to_string()),
            None => RV::Num(n.clone()),
        },
        RV::Arr(a) => RV::Arr(a.iter().map(expected_serialized).collect()),
        RV::Obj(o) => {
            let mut out: Vec<(String, RV)> = Vec::new();
            for (k, x) in o {
                let x = expected_serialized(x);
                match out.iter_mut().find(|(k2, _)| k2 == k) {
                    Some(slot) => slot.1 = x,
                    None => out.push((k.clone(), x)),
                }
            }
            RV::Obj(out)
        }
        other => other.clone(),
    }
}

fn ulp_distance(a: f64, b: f64) -> u64 {
    let key = |x: f64| {
        let b = x.to_bits() as i64;
        if b < 0 {
            i64::MIN.wrapping_sub(b)
        } else {
            b
        }
    };
    key(a).abs_diff(key(b))
}

#[derive(PartialEq, Debug)]
enum NumCmp {
    Same,
    /// differs by at most one ulp and the source has more than 19 significant digits (D9b)
    KnownUlp,
    OutsideDomain,
    Differs(String),
}

/// Does `got` denote the same integer or double as `src`? `float_ref` gives the double the
/// source spelling denotes (std's parser, or serde_json's own for the text path).
fn same_number(src: &str, got: &str, float_ref: &dyn Fn(&str) -> Option<f64>) -> NumCmp {
    if let (Some(a), Some(b)) = (as_int(src), as_int(got)) {
        return if a == b { NumCmp::Same } else { NumCmp::Differs(format!("{src} became {got}")) };
    }
    let want = match float_ref(src) {
        Some(x) if x.is_finite() => x,
        _ => return NumCmp::OutsideDomain,
    };
    let have: f64 = match got.parse() {
        Ok(x) => x,
        Err(_) => return NumCmp::Differs(format!("{got} is not a number")),
    };
    if let Some(a) = as_int(src) {
        // an integer must stay that integer
        if have != a as f64 || (a.unsigned_abs() > (1u128 << 53)) {
            return NumCmp::Differs(format!("integer {src} became {got}"));
        }
        return NumCmp::Same;
    }
    if let Some(b) = as_int(got) {
        // a float spelling that comes back in integer syntax now denotes that integer exactly:
        // it has to be the very number the source denotes (2^63 is not 2^63 - 1)
        let exact = want.fract() == 0.0 && want.abs() < 1.0e38 && (want as i128) == b;
        return if exact { NumCmp::Same } else { NumCmp::Differs(format!("{src} (= {want:e}) became the integer {got}")) };
    }
    if have == want {
        NumCmp::Same
    } else if sig_digits(src) > 19 && ulp_distance(have, want) <= 1 {
        NumCmp::KnownUlp
    } else {
        NumCmp::Differs(format!("{src} (= {want:e}) became {got} (= {have:e})"))
    }
}

fn same_structure(src: &RV, got: &RV, float_ref: &dyn Fn(&str) -> Option<f64>, worst: &mut NumCmp) -> bool {
    match (src, got) {
        (RV::Num(a), RV::Num(b)) => {
            let c = same_number(a, b, float_ref);
            let rank = |c: &NumCmp| match c {
                NumCmp::Same => 0,
                NumCmp::KnownUlp => 1,
                NumCmp::OutsideDomain => 2,
                NumCmp::Differs(_) => 3,
            };
            if rank(&c) > rank(worst) {
                *worst = c;
            }
            true
        }
        (RV::Arr(a), RV::Arr(b)) => a.len() == b.len() && a.iter().zip(b).all(|(x, y)| same_structure(x, y, float_ref, worst)),
        (RV::Obj(a), RV::Obj(b)) => a.len() == b.len() && a.iter().zip(b).all(|((k, x), (l, y))| k == l && same_structure(x, y, float_ref, worst)),
        (RV::Num(a), RV::Null) => {
            // a number outside double range has no double to denote
            if float_ref(a).map(|x| x.is_finite()).unwrap_or(false) || as_int(a).is_some() {
                false
            } else {
                if !matches!(worst, NumCmp::Differs(_)) {
                    *worst = NumCmp::OutsideDomain;
                }
                true
            }
        }
        (a, b) => a == b,
    }
}

/// `v` is what `sj` denotes: same shape, keys in serde_json's order, same integer or double.
fn sj_matches(sj: &serde_json::Value, v: &Value) -> bool {
    use serde_json::Value as S;
    match (sj, v) {
        (S::Null, Value::Null) => true,
        (S::Bool(a), Value::Boolean(b)) => a == b,
        (S::String(a), Value::String(b)) => a.as_str() == b.as_str(),
        (S::Array(a), Value::Array(b)) => a.len() == b.len() && a.iter().zip(b.iter()).all(|(x, y)| sj_matches(x, y)),
        (S::Object(a), Value::Object(b)) => a.len() == b.len() && a.iter().zip(b.iter()).all(|((k, x), e)| k.as_str() == e.key.as_str() && sj_matches(x, &e.value)),
        (S::Number(n), Value::Number(m)) => {
            let text = m.as_str();
            if let Some(u) = n.as_u64() {
                text.parse::<u64>() == Ok(u)
            } else if let Some(i) = n.as_i64() {
                text.parse::<i64>() == Ok(i)
            } else {
                match (n.as_f64(), text.parse::<f64>()) {
                    (Some(x), Ok(y)) => x == y,
                    _ => false,
                }
            }
        }
        _ => false,
    }
}

fn any_key(v: &RV, f: &dyn Fn(&str) -> bool) -> bool {
    match v {
        RV::Arr(a) => a.iter().any(|x| any_key(x, f)),
        RV::Obj(o) => o.iter().any(|(k, x)| f(k) || any_key(x, f)),
        _ => false,
    }
}

fn show_opt(v: &Option<Value>) -> String {
    match v {
        Some(v) => v.to_string(),
        None => "an error".to_string(),
    }
}

pub fn check_value(rv: &RV, t: &mut Tally) {
    let v = bridge::to_value(rv);
    let case = || json!({"kind": "value", "value": rv.show()});
    let has_dup = rv.has_duplicate_keys();
    let d11 = token_first(rv) || token_first(&expected_serialized(rv));
    // (a) Serialize
    t.evals += 1;
    let want = expected_serialized(rv);
    let d9a = any_number(rv, &class_d9a);
    match explore::guard(|| to_value(&v)) {
        Ok(Ok(w)) => {
            let got = bridge::from_value(&w);
            if got != want {
                let class = if d11 { "D11" } else { "" };
                t.violation(class, format!("serializing {} with the crate's serializer gives {}, expected {}", rv.show(), got.show(), want.show()), case());
            } else {
                t.outcome(if has_dup { "serialize: duplicates collapsed as specified" } else { "serialize: reproduced" });
            }
        }
        Ok(Err(e)) => {
            let class = if d9a {
                "D9a"
            } else if d11 {
                "D11"
            } else {
                ""
            };
            t.violation(class, format!("serializing {} with the crate's serializer fails: {e}", rv.show()), case());
        }
        Err(p) => t.violation("", format!("serializing {} panicked: {p}", rv.show()), case()),
    }
    // (a') Object's own Serialize / Deserialize impls must agree with Value's on an object
    // (coherence; includes duplicate-carrying objects, whatever Value's impl does with them)
    if let Value::Object(obj) = &v {
        t.evals += 1;
        let text = v.compact_print().to_string();
        let r = explore::guard(|| {
            let mut bad: Vec<String> = Vec::new();
            let as_value = from_value::<Value>(v.clone()).ok();
            let as_object = from_value::<json_syntax::Object>(v.clone()).ok().map(Value::Object);
            if as_value != as_object {
                bad.push(format!("from_value::<Object> gives {}, from_value::<Value> gives {}", show_opt(&as_object), show_opt(&as_value)));
            }
            let ser_value = to_value(&v).ok();
            let ser_object = to_value(obj).ok();
            if ser_value != ser_object {
                bad.push(format!("to_value(&object) gives {}, to_value(&Value::Object(object)) gives {}", show_opt(&ser_object), show_opt(&ser_value)));
            }
            let text_value = serde_json::from_str::<Value>(&text).ok();
            let text_object = serde_json::from_str::<json_syntax::Object>(&text).ok().map(Value::Object);
            if text_value != text_object {
                bad.push(format!("serde_json::from_str::<Object>({text}) gives {}, ::<Value> gives {}", show_opt(&text_object), show_opt(&text_value)));
            }
            bad
        });
        match r {
            Ok(bad) if bad.is_empty() => t.outcome("Object's impls agree with Value's"),
            Ok(bad) => {
                for b in bad {
                    // (with the reserved token as a first key it is Value's impl that misreads: D11)
                    t.violation(if d11 { "D11" } else { "" }, format!("Object's serde impl disagrees with Value's on {}: {b}", rv.show()), case());
                }
            }
            Err(p) => t.violation("", format!("Object's serde impls panicked on {}: {p}", rv.show()), case()),
        }
    }
    if has_dup {
        return;
    }
    // (b) Deserialize from another Value
    t.evals += 1;
    let std_ref = |s: &str| s.parse::<f64>().ok();
    match explore::guard(|| from_value::<Value>(v.clone())) {
        Ok(Ok(w)) => {
            let got = bridge::from_value(&w);
            let mut worst = NumCmp::Same;
            let class = if token_first(rv) { "D11" } else { "" };
            if !same_structure(rv, &got, &std_ref, &mut worst) {
                t.violation(class, format!("from_value::<Value>({}) = {}: structure differs", rv.show(), got.show()), case());
            } else {
                match worst {
                    NumCmp::Same => t.outcome("deserialize from Value: same"),
                    NumCmp::OutsideDomain => t.outcome("deserialize from Value: number outside double range (outside the domain)"),
                    NumCmp::KnownUlp => t.violation("D9b", format!("from_value::<Value>({}) = {}: a >19-digit decimal is one ulp off", rv.show(), got.show()), case()),
                    NumCmp::Differs(why) => t.violation(class, format!("from_value::<Value>({}) = {}: {why}", rv.show(), got.show()), case()),
                }
            }
        }
        Ok(Err(e)) => {
            let class = if token_first(rv) { "D11" } else { "" };
            t.violation(class, format!("from_value::<Value>({}) failed: {e}", rv.show()), case())
        }
        Err(p) => t.violation("", format!("from_value::<Value>({}) panicked: {p}", rv.show()), case()),
    }
    // (c) Deserialize from JSON text through serde_json's (self-describing) deserializer
    t.evals += 1;
    let text = v.compact_print().to_string();
    // serde_json itself must accept the text (it rejects numbers outside double range)
    if serde_json::from_str::<serde_json::Value>(&text).is_err() {
        t.outcome("deserialize from text: serde_json rejects the text (outside the domain)");
        return;
    }
    let sj_ref = |s: &str| serde_json::from_str::<f64>(s).ok();
    match explore::guard(|| serde_json::from_str::<Value>(&text)) {
        Ok(Ok(w)) => {
            let got = bridge::from_value(&w);
            let mut worst = NumCmp::Same;
            let class = if token_first(rv) { "D11" } else { "" };
            if !same_structure(rv, &got, &sj_ref, &mut worst) {
                t.violation(class, format!("serde_json::from_str::<Value>({text}) = {}: structure differs", got.show()), case());
            } else {
                match worst {
                    NumCmp::Same | NumCmp::KnownUlp => t.outcome("deserialize from text: same"),
                    NumCmp::OutsideDomain => t.outcome("deserialize from text: outside the domain"),
                    NumCmp::Differs(why) => t.violation(class, format!("serde_json::from_str::<Value>({text}) = {}: {why}", got.show()), case()),
                }
            }
            // (c') the other ways serde_json hands the same text to Value's visitor (borrowed
            // strings, copied strings, owned strings, a reader, insignificant whitespace): all
            // must give what from_str gave
            t.evals += 1;
            let pretty = v.pretty_print().to_string();
            let routes = explore::guard(|| {
                use serde::Deserialize;
                let mut out: Vec<(&str, Option<Value>, Option<Value>)> = Vec::new();
                let base = Some(w.clone());
                let mut sj_bad: Vec<String> = Vec::new();
                out.push(("serde_json::from_slice", serde_json::from_slice::<Value>(text.as_bytes()).ok(), base.clone()));
                out.push(("serde_json::from_reader", serde_json::from_reader::<_, Value>(std::io::Cursor::new(text.as_bytes())).ok(), base.clone()));
                out.push(("serde_json::from_str on the pretty-printed text", serde_json::from_str::<Value>(&pretty).ok(), base.clone()));
                out.push(("serde_json::from_reader on the pretty-printed text", serde_json::from_reader::<_, Value>(std::io::Cursor::new(pretty.as_bytes())).ok(), base.clone()));
                if let Ok(sj) = serde_json::from_str::<serde_json::Value>(&text) {
                    // (serde_json's own value sorts the keys and has already rounded the numbers
                    // its own way: the reference is that value itself, node by node)
                    for (name, r) in [("Value::deserialize(&serde_json::Value)", Value::deserialize(&sj)), ("serde_json::from_value::<Value>", serde_json::from_value::<Value>(sj.clone()))] {
                        match r {
                            Ok(x) if sj_matches(&sj, &x) => {}
                            Ok(x) => sj_bad.push(format!("{name} on {sj} gives {x}")),
                            Err(e) => sj_bad.push(format!("{name} on {sj} fails: {e}")),
                        }
                    }
                }
                let mut de = serde_json::Deserializer::from_str(&text);
                out.push(("Value::deserialize(&mut serde_json::Deserializer)", Value::deserialize(&mut de).ok(), base.clone()));
                (out, sj_bad)
            });
            match routes {
                Ok((list, sj_bad)) => {
                    let mut all = sj_bad.is_empty();
                    // (serde_json's map is sorted: the reserved token may become a first key there)
                    let sj_class = if class == "D11" || any_key(rv, &|k| k == TOKEN) { "D11" } else { "" };
                    for b in sj_bad {
                        t.violation(sj_class, b, case());
                    }
                    for (name, r, want) in list {
                        if r != want {
                            all = false;
                            t.violation(class, format!("{name} on {text} gives {}, serde_json::from_str on the same text gives {}", show_opt(&r), show_opt(&want)), case());
                        }
                    }
                    if all {
                        t.outcome("deserialize from text: every serde_json route agrees");
                    }
                }
                Err(p) => t.violation("", format!("a serde_json route into Value panicked on {text}: {p}"), case()),
            }
        }
        Ok(Err(e)) => {
            let class = if token_first(rv) { "D11" } else { "" };
            t.violation(class, format!("serde_json::from_str::<Value>({text}) failed: {e}"), case())
        }
        Err(p) => t.violation("", format!("serde_json::from_str::<Value>({text}) panicked: {p}"), case()),
    }
}

pub fn spellings(alphabet: &str, max: usize) -> Vec<String> {
    let mut out = Vec::new();
    fn rec(alphabet: &[char], max: usize, cur: &mut String, m: &Machine, out: &mut Vec<String>) {
        if !cur.is_empty() && m.pda.is_accepting() {
            out.push(cur.clone());
        }
        if cur.len() == max {
            return;
        }
        for &c in alphabet {
            if cur.is_empty() && !(c == '-' || c.is_ascii_digit()) {
                continue;
            }
            let mut m2 = m.clone();
            if m2.step(c).is_ok() {
                cur.push(c);
                rec(alphabet, max, cur, &m2, out);
                cur.pop();
            }
        }
    }
    let a: Vec<char> = alphabet.chars().collect();
    rec(&a, max, &mut String::new(), &Machine::new(), &mut out);
    out
}

pub fn boundary_numbers() -> Vec<String> {
    [
        "9223372036854775807",
        "9223372036854775808",
        "18446744073709551615",
        "18446744073709551616",
        "-9223372036854775808",
        "-9223372036854775809",
        "12345678901234567890",
        "1234567890123456789012345",
        "0.12345678901234567",
        "0.1234567890123456789",
        "0.12345678901234567890",
        "0.1234567890123456789012345",
        "123456789012.3456789012345",
        "5.6920387482221225742e-164",
        "9007199254740993",
        "-9007199254740993",
        "1.7976931348623157e308",
        "4.9e-324",
        "100e90",
        "9.999999999999999e91",
        // integral doubles at the edges of the integer types, in float spellings
        "9223372036854775808.0",
        "9.223372036854775808e18",
        "-9223372036854775808.0",
        "-9223372036854775809.0",
        "9223372036854775807.0",
        "18446744073709551616.0",
        "18446744073709551615.0",
        "1.8446744073709552e19",
        "9007199254740992.0",
        "9007199254740993.0",
        "4294967296.0",
        "2147483648.0",
        "-2147483649.0",
        "1e10",
        "1.0",
        "-1.0",
        "0.0",
    ]
    .iter()
    .map(|s| s.to_string())
    .chain(
        // the decimal point moved up to 25 places either way, exponent adjusted (the written
        // exponent leaves the range of doubles while the value stays inside, and conversely)
        [f64::MAX, 1e308, 1.7976931348623157e308, f64::MIN_POSITIVE, 5e-324, 1e-323, 2.5e-320, 1.0, 123.456, 9.007199254740993e15, 1e22, 1e23]
            .into_iter()
            .flat_map(refmodel::canon::shifted_spellings),
    )
    .collect()
}

pub fn run(rep: &mut Report, tier: Tier) {
    // numbers: every spelling up to the bound, bare / array item / object member
    let l = tier.pick(7, 8);
    let mut sp = spellings("019-.eE+", l);
    let nsp = sp.len();
    sp.extend(boundary_numbers());
    let t = explore::par_tally(sp.chunks(128).map(|c| c.to_vec()).collect(), |chunk, t| {
        for s in chunk {
            let n = RV::Num(s.clone());
            check_value(&n, t);
            check_value(&RV::Arr(vec![RV::Null, n.clone()]), t);
            check_value(&RV::Obj(vec![("k".into(), n.clone()), ("l".into(), RV::str("x"))]), t);
            t.nontrivial(&s);
        }
    });
    rep.absorb(t);
    // structure: duplicate keys in every pattern, the token as an ordinary key
    let leaves = [RV::Null, RV::num("0"), RV::num("1.5"), RV::str("a")];
    let keys = ["a", "b", TOKEN];
    let n = tier.pick(5, 6);
    let g = Gen::new(&leaves, &keys, n);
    let vals = g.up_to(n);
    let want: u128 = (1..=n).map(|i| Gen::expected_count(4, 3, i)).sum();
    if vals.len() as u128 != want {
        rep.machinery.push("generator count differs from the recurrence".into());
    }
    let nv = vals.len();
    let t = explore::par_tally(vals.chunks(64).map(|c| c.to_vec()).collect(), |chunk, t| {
        for v in chunk {
            check_value(&v, t);
            t.nontrivial(&v);
        }
    });
    rep.absorb(t);
    // deserializing *into an existing value*: `Deserialize::deserialize_in_place` (a provided,
    // hidden method of the trait that an impl may override to reuse allocations; std's impls for
    // Vec, arrays and tuples call it for their elements) must leave exactly what `deserialize`
    // returns, whatever the place held before - every ordered pair of duplicate-free values of
    // at most 3 nodes, bare and inside a Vec
    {
        use serde::Deserialize;
        let small: Vec<RV> = Gen::new(&[RV::Null, RV::Bool(true), RV::Bool(false), RV::num("0"), RV::num("1.5"), RV::str("a"), RV::str("a-string-longer-than-sixteen-bytes")], &["a", "b"], 3).up_to(3).into_iter().filter(|v| !v.has_duplicate_keys()).collect();
        let ns = small.len();
        let idx: Vec<usize> = (0..ns).collect();
        let t = explore::par_tally(idx, |i, t| {
            let old = bridge::to_value(&small[i]);
            for new_rv in &small {
                t.evals += 1;
                let new = bridge::to_value(new_rv);
                let r = explore::guard(|| {
                    let want = from_value::<Value>(new.clone()).ok();
                    let mut place = old.clone();
                    let ok = Value::deserialize_in_place(new.clone(), &mut place).is_ok();
                    let mut places = vec![old.clone(), old.clone(), Value::Null];
                    let news = Value::Array(vec![new.clone(), new.clone()]);
                    let ok2 = Vec::<Value>::deserialize_in_place(news, &mut places).is_ok();
                    (want, ok, place, ok2, places)
                });
                match r {
                    Ok((want, ok, place, ok2, places)) => {
                        if want.is_some() != ok || (ok && Some(&place) != want.as_ref()) {
                            t.violation("", format!("deserialize_in_place of {} into a place holding {} leaves {}, deserialize gives {:?}", new_rv.show(), small[i].show(), place, want.as_ref().map(|w| w.to_string())), json!({"kind": "in-place", "old": small[i].show(), "new": new_rv.show()}));
                        }
                        if let Some(w) = &want {
                            if !ok2 || places != vec![w.clone(), w.clone()] {
                                t.violation("", format!("Vec::<Value>::deserialize_in_place of two copies of {} into places holding {} leaves {:?}", new_rv.show(), small[i].show(), places.iter().map(|p| p.to_string()).collect::<Vec<_>>()), json!({"kind": "in-place", "old": small[i].show(), "new": new_rv.show()}));
                            }
                        }
                    }
                    Err(p) => t.violation("", format!("deserialize_in_place panicked: {p}"), json!({"kind": "in-place", "old": small[i].show(), "new": new_rv.show()})),
                }
            }
            t.nontrivial(&("in-place", i));
            t.outcome("deserialize_in_place over every pair");
        });
        rep.bounds["in_place"] = json!({"values": ns, "ordered_pairs": ns * ns});
        rep.absorb(t);
    }
    // duplicate-key layouts over keys beyond the inline capacity of a key (16 bytes): every
    // sequence of up to 5 members over three long keys and a short one (the collapse of duplicates
    // - first position, last value - must not depend on the length or the order of the keys)
    {
        let ks = ["a-key-longer-than-sixteen-bytes-a", "a-key-longer-than-sixteen-bytes-c", "a-key-longer-than-sixteen-bytes-b", "s"];
        let mut seqs: Vec<Vec<usize>> = vec![vec![]];
        let mut frontier = seqs.clone();
        for _ in 0..5 {
            let mut next = Vec::new();
            for q in &frontier {
                for k in 0..ks.len() {
                    let mut q2 = q.clone();
                    q2.push(k);
                    next.push(q2);
                }
            }
            seqs.extend(next.iter().cloned());
            frontier = next;
        }
        let count = seqs.len();
        let t = explore::par_tally(seqs.chunks(64).map(|c| c.to_vec()).collect(), |chunk, t| {
            for q in chunk {
                let v = RV::Obj(q.iter().enumerate().map(|(i, &k)| (ks[k].to_string(), RV::num(&i.to_string()))).collect());
                check_value(&v, t);
                check_value(&RV::Arr(vec![v.clone(), RV::Obj(vec![("o".into(), v)])]), t);
            }
        });
        rep.bounds["long_key_layouts"] = json!({"keys": ks, "max_members": 5, "objects": count});
        rep.absorb(t);
    }
    // keys that look reserved: the private tokens of the serde ecosystem (serde_json's raw-value
    // and number tokens, toml's datetime, serde_spanned's fields), near misses of the one token
    // the crate does reserve, and other sigil keys - as first, middle and last key, at the root
    // and nested, with every kind of payload. All of them are ordinary keys (D11 apart).
    {
        let looks_reserved = [
            // (the one token the crate does reserve: as a *first* key it is the known finding
            // D11 - classified by check_value -, anywhere else it is an ordinary key)
            TOKEN,
            "$serde_json::private::RawValue",
            "$serde_json::private::Numbe",
            "$serde_json::private::Numberx",
            "$serde_json::private::number",
            "$serde_json::private::Number ",
            "$__toml_private_datetime",
            "$__serde_spanned_private_start",
            "$__serde_spanned_private_value",
            "$serde_json::private",
            "$",
            "$ref",
            "@type",
            "",
        ];
        let payloads = [RV::Null, RV::Bool(true), RV::num("1"), RV::num("1.5"), RV::str("1"), RV::str("12.50"), RV::str("-3e2"), RV::str("[1,2]"), RV::str("{\"a\":1}"), RV::str("x"), RV::Arr(vec![]), RV::Arr(vec![RV::num("1")]), RV::Obj(vec![]), RV::Obj(vec![("a".into(), RV::num("1"))])];
        let mut t = Tally::new();
        for k in looks_reserved {
            for p in &payloads {
                let solo = RV::Obj(vec![(k.to_string(), p.clone())]);
                for v in [
                    solo.clone(),
                    RV::Obj(vec![(k.to_string(), p.clone()), ("z".into(), RV::Null)]),
                    RV::Obj(vec![("a".into(), RV::Null), (k.to_string(), p.clone())]),
                    RV::Obj(vec![("a".into(), RV::Null), (k.to_string(), p.clone()), ("z".into(), RV::num("2"))]),
                    RV::Arr(vec![solo.clone(), solo.clone()]),
                    RV::Obj(vec![("o".into(), solo.clone())]),
                ] {
                    check_value(&v, &mut t);
                }
            }
            t.nontrivial(&k);
        }
        rep.bounds["reserved_looking_keys"] = json!({"keys": looks_reserved, "payloads": payloads.len(), "placements": 6});
        rep.absorb(t);
    }
    // pumped linear families
    let all = refmodel::pump::all(tier == Tier::Thorough);
    let np = all.len();
    let t = explore::par_tally(all, |(fam, n, v), t| {
        check_value(&v, t);
        t.nontrivial(&(format!("{fam:?}"), n));
    });
    rep.absorb(t);
    rep.bounds["pumped_values"] = json!(np);
    // strings
    let mut t = Tally::new();
    for s in ["", "a", "\"\\/\u{8}\u{c}\n\r\t\u{1}\u{1f}\u{7f}\u{e9}\u{2028}\u{1f600}\u{ffff}", "a-string-longer-than-sixteen-bytes"] {
        check_value(&RV::str(s), &mut t);
        check_value(&RV::Obj(vec![(s.to_string(), RV::Arr(vec![RV::str(s)]))]), &mut t);
    }
    rep.absorb(t);
    rep.tally.sample(json!({"value": "{\"a\":0,\"b\":1.5,\"a\":null}", "serialized_expected": expected_serialized(&RV::Obj(vec![("a".into(), RV::num("0")), ("b".into(), RV::num("1.5")), ("a".into(), RV::Null)])).show()}));
    for (k, v) in [("number_spellings", json!(nsp)), ("spelling_alphabet", json!("019-.eE+")), ("max_spelling_length", json!(l)), ("boundary_numbers", json!(boundary_numbers().len())), ("structure_values", json!(nv)), ("structure_max_nodes", json!(n)), ("keys", json!(keys))] {
        rep.bounds[k] = v;
    }
}

pub fn replay(case: &explore::serde_json::Value) -> Result<(), String> {
    use json_syntax::Parse;
    let (v, _) = Value::parse_str(case["value"].as_str().unwrap_or("null")).map_err(|e| e.to_string())?;
    let mut t = Tally::new();
    check_value(&bridge::from_value(&v), &mut t);
    match t.violations.first() {
        None => Ok(()),
        Some(v) => Err(format!("[{}] {}", v.class, v.what)),
    }
}
