//! chk-canon: C09 (RFC 8785 conformance) and C10 (idempotence / invariance of the canonical
//! form) — bounded-exhaustive enumeration against R-canon.

#[global_allocator]
static ALLOC: explore::ThreadCache = explore::ThreadCache;

use explore::serde_json::{json, Value as J};
use explore::{Args, Budget, Report, Tally, Tier};
use json_syntax::{Parse, Print, Value};
use refmodel::canon;
use refmodel::pda::Machine;
use refmodel::RV;

const KEYS: [&str; 18] = [
    "", "a", "b", "aa", "\u{7f}", "\u{e9}", "\u{d7ff}", "\u{e000}", "\u{ffff}", "\u{10000}", "\u{10ffff}", "a\u{10000}", "a\u{e000}", "\r", "\u{20ac}",
    // two supplementary characters that share their high surrogate, and a longer key with the same prefix
    "\u{10001}", "\u{10000}b", "\u{10001}a",
];

fn case_value(v: &RV) -> J {
    json!({"kind": "canon", "value": v.show()})
}

thread_local! {
    /// a number buffer shared by every `canonicalize_with` call of the thread: whatever an
    /// earlier (longer or shorter) number left in it must not matter
    static SHARED: std::cell::RefCell<ryu_js::Buffer> = std::cell::RefCell::new(ryu_js::Buffer::new());
}

/// Canonicalizes through every route (`Value::canonicalize`, `Value::canonicalize_with` with a
/// buffer reused across calls, and for an object `Object::canonicalize` / `canonicalize_with`);
/// the routes must agree.
fn canon_print(v: &RV) -> Result<(String, Value), String> {
    let mut real = bridge::to_value(v);
    let (text, value) = explore::guard(|| {
        real.canonicalize();
        (real.compact_print().to_string(), real.clone())
    })
    .map_err(|p| format!("canonicalize panicked: {p}"))?;
    let other = explore::guard(|| {
        let mut routes: Vec<(&str, Value)> = Vec::new();
        let mut a = bridge::to_value(v);
        SHARED.with(|b| a.canonicalize_with(&mut b.borrow_mut()));
        routes.push(("Value::canonicalize_with(shared buffer)", a));
        if let Value::Object(o) = bridge::to_value(v) {
            let mut o1 = o.clone();
            o1.canonicalize();
            routes.push(("Object::canonicalize", Value::Object(o1)));
            let mut o2 = o;
            SHARED.with(|b| o2.canonicalize_with(&mut b.borrow_mut()));
            routes.push(("Object::canonicalize_with(shared buffer)", Value::Object(o2)));
        }
        routes
    })
    .map_err(|p| format!("canonicalize (another route) panicked: {p}"))?;
    for (name, r) in other {
        if r != value {
            return Err(format!("{name} gives {}, Value::canonicalize gives {text}", r.compact_print()));
        }
    }
    Ok((text, value))
}

/// C09 oracle on one I-JSON value.
fn c09_value(v: &RV, t: &mut Tally) {
    t.evals += 1;
    let want = match canon::canonical(v) {
        Some(w) => w,
        None => {
            t.outcome("outside the domain (number beyond double range)");
            return;
        }
    };
    match canon_print(v) {
        Ok((got, _)) => {
            if got != want {
                t.violation("", format!("canonical form is {got:?}, RFC 8785 gives {want:?}"), case_value(v));
            }
        }
        Err(e) => t.violation("", e, case_value(v)),
    }
}

/// All ordered selections of k distinct keys out of KEYS.
fn for_each_key_sequence(k: usize, f: &mut dyn FnMut(&[usize])) {
    fn rec(k: usize, cur: &mut Vec<usize>, f: &mut dyn FnMut(&[usize])) {
        if cur.len() == k {
            f(cur);
            return;
        }
        for i in 0..KEYS.len() {
            if !cur.contains(&i) {
                cur.push(i);
                rec(k, cur, f);
                cur.pop();
            }
        }
    }
    rec(k, &mut Vec::new(), f);
}

/// A member value of a given kind (the kind of a sibling value must not influence the order of
/// the keys: number, string, null, boolean, array, object).
const VALUE_KINDS: usize = 6;
fn kinded(i: usize, kind: usize) -> RV {
    match kind {
        0 => RV::Num(i.to_string()),
        1 => RV::Str(format!("s{i}")),
        2 => RV::Null,
        3 => RV::Bool(i % 2 == 0),
        4 => RV::Arr(vec![]),
        _ => RV::Obj(vec![("k".into(), RV::Null)]),
    }
}

fn obj_of(seq: &[usize]) -> RV {
    RV::Obj(seq.iter().enumerate().map(|(j, &i)| (KEYS[i].to_string(), RV::Num(j.to_string()))).collect())
}

fn keys_family(rep: &mut Report, tier: Tier, mode: &str) {
    let maxk = tier.pick(5, 6);
    for k in 0..=maxk {
        // split the work by the first key
        let firsts: Vec<usize> = if k == 0 { vec![usize::MAX] } else { (0..KEYS.len()).collect() };
        let t = explore::par_tally(firsts, |first, t| {
            let mut run = |seq: &[usize]| {
                let flat = obj_of(seq);
                let variants = [
                    flat.clone(),
                    RV::Obj(vec![("z".into(), flat.clone()), ("\u{e000}".into(), RV::Null), ("\u{10000}".into(), flat.clone())]),
                    RV::Arr(vec![flat.clone(), RV::Obj(vec![("b".into(), RV::Null), ("a".into(), flat.clone())])]),
                ];
                for v in &variants {
                    if mode == "C09" {
                        c09_value(v, t);
                    } else {
                        c10_value(v, t);
                    }
                }
                // C10: every permutation of the same key set must give byte-identical output;
                // the sorted selection is the class representative
                if mode == "C10" {
                    let mut sorted: Vec<usize> = seq.to_vec();
                    sorted.sort();
                    // values follow their keys
                    let with_vals = |s: &[usize]| RV::Obj(s.iter().map(|&i| (KEYS[i].to_string(), RV::Num(i.to_string()))).collect());
                    let a = canon_print(&with_vals(seq)).map(|x| x.0);
                    let b = canon_print(&with_vals(&sorted)).map(|x| x.0);
                    t.evals += 1;
                    if a != b {
                        t.violation("", format!("member order changes the canonical output: {a:?} vs {b:?}"), case_value(&with_vals(seq)));
                    }
                }
                // every assignment of value kinds to the members of a short selection
                if (1..=3).contains(&seq.len()) {
                    let n = seq.len();
                    for code in 1..VALUE_KINDS.pow(n as u32) {
                        let kinds: Vec<usize> = (0..n).map(|j| code / VALUE_KINDS.pow(j as u32) % VALUE_KINDS).collect();
                        let v = RV::Obj(seq.iter().enumerate().map(|(j, &i)| (KEYS[i].to_string(), kinded(i, kinds[j]))).collect());
                        if mode == "C09" {
                            c09_value(&v, t);
                        } else {
                            c10_value(&v, t);
                        }
                    }
                }
                t.nontrivial(&seq);
                let utf16_vs_cp = seq.iter().any(|&i| (7..=8).contains(&i) || i == 12) && seq.iter().any(|&i| (9..=11).contains(&i));
                t.outcome(if utf16_vs_cp { "keys:utf16-order-differs-from-code-point-order" } else if seq.len() < 2 { "keys:trivial" } else { "keys:orders-coincide" });
            };
            if first == usize::MAX {
                run(&[]);
            } else {
                let mut cur = vec![first];
                fn rec(k: usize, cur: &mut Vec<usize>, f: &mut dyn FnMut(&[usize])) {
                    if cur.len() == k {
                        f(cur);
                        return;
                    }
                    for i in 0..KEYS.len() {
                        if !cur.contains(&i) {
                            cur.push(i);
                            rec(k, cur, f);
                            cur.pop();
                        }
                    }
                }
                rec(k, &mut cur, &mut run);
            }
        });
        rep.absorb(t);
    }
    let _ = for_each_key_sequence;
    rep.bounds["keys"] = json!({"key_set": KEYS.iter().map(|k| RV::Str(k.to_string()).show()).collect::<Vec<_>>(), "max_members": maxk, "orders": "every ordered selection (all subsets in every permutation)", "shapes": ["flat", "object in object", "object in array"], "value_kinds": "every assignment of the 6 value kinds (number, string, null, boolean, array, object) to the members of every selection of 1..=3 keys"});
}

/// Keys that share a long common prefix and differ late (C09, C10): every ordered pair of the
/// deciding tails below, behind a common prefix of every length 0..=17 and around 24, 32, 64 (in
/// bytes *and*, with a two-byte-per-unit prefix, in UTF-16 units: every residue modulo 8 and 16
/// occurs), bare and followed by a common or a differing suffix. The tails contain the
/// U+E000..U+FFFF / supplementary-plane pairs on which UTF-16 order and code-point order differ,
/// and pairs that share their UTF-8 lead byte (two-, three- and four-byte forms).
fn prefixed_keys_family(rep: &mut Report, tier: Tier, mode: &str) {
    // (the empty tail and tails made of U+0000: a key against the same key followed by NULs - the
    // smallest possible continuation, which a zero-padded packed comparison cannot tell apart)
    let tails = ["a", "b", "\u{e8}", "\u{e9}", "\u{20ac}", "\u{20ad}", "\u{d7ff}", "\u{e000}", "\u{ffff}", "\u{10000}", "\u{10001}", "\u{1d11e}", "\u{10ffff}", "", "\u{0}", "\u{0}\u{0}", "\u{0}\u{0}\u{0}", "\u{1}"];
    let mut lens: Vec<usize> = (0..=17).collect();
    lens.extend([23, 24, 25, 31, 32, 33, 63, 64, 65]);
    if tier == Tier::Thorough {
        lens.extend([127, 128, 129, 255, 256, 257, 1023, 1024, 1025]);
    }
    let units = ["p", "\u{e9}", "\u{20ac}", "\u{10400}"];
    let mut items = Vec::new();
    for (ui, _) in units.iter().enumerate() {
        for &l in &lens {
            items.push((ui, l));
        }
    }
    let count = items.len();
    let t = explore::par_tally(items, |(ui, l), t| {
        let prefix = units[ui].repeat(l);
        for (i, a) in tails.iter().enumerate() {
            for (j, b) in tails.iter().enumerate() {
                if i == j {
                    continue;
                }
                for (sa, sb) in [("", ""), ("z", "z"), ("zy", "a")] {
                    let ka = format!("{prefix}{a}{sa}");
                    let kb = format!("{prefix}{b}{sb}");
                    if ka == kb {
                        continue;
                    }
                    let v = RV::Obj(vec![(ka.clone(), RV::Num("1".into())), (kb.clone(), RV::Num("2".into()))]);
                    // (value kinds other than numbers, at a few prefix lengths)
                    if matches!(l, 0 | 1 | 2 | 7 | 8 | 15 | 16 | 17) && sa.is_empty() {
                        for code in 1..VALUE_KINDS * VALUE_KINDS {
                            let w = RV::Obj(vec![(ka.clone(), kinded(1, code % VALUE_KINDS)), (kb.clone(), kinded(2, code / VALUE_KINDS))]);
                            if mode == "C09" {
                                c09_value(&w, t);
                            } else {
                                c10_value(&w, t);
                            }
                        }
                    }
                    if mode == "C09" {
                        c09_value(&v, t);
                        c09_value(&RV::Arr(vec![RV::Null, v.clone()]), t);
                    } else {
                        c10_value(&v, t);
                        // both member orders, with different and with equal values (a comparator
                        // that wrongly reports a tie falls back on the values or the input order)
                        for (va, vb) in [("1", "2"), ("1", "1")] {
                            let v = RV::Obj(vec![(ka.clone(), RV::Num(va.into())), (kb.clone(), RV::Num(vb.into()))]);
                            let w = RV::Obj(vec![(kb.clone(), RV::Num(vb.into())), (ka.clone(), RV::Num(va.into()))]);
                            let x = canon_print(&v).map(|x| x.0);
                            let y = canon_print(&w).map(|x| x.0);
                            t.evals += 1;
                            if x != y {
                                t.violation("", format!("member order changes the canonical output: {x:?} vs {y:?}"), case_value(&v));
                            }
                        }
                    }
                }
            }
        }
        // the same deciding pairs among many other members: a sort that switches algorithm (or
        // compares a bounded prefix first) above some number of entries sees the pair only there
        if matches!(l, 0 | 1 | 7 | 8 | 15 | 16 | 17 | 31 | 32 | 33) {
            let special = ["\u{e000}", "\u{ffff}", "\u{10000}", "\u{10ffff}", "a", "\u{e9}"];
            for fill in [15usize, 16, 17, 31, 32, 33, 63, 64, 65, 129, 257] {
                for a in special {
                    for b in special {
                        if a == b {
                            continue;
                        }
                        let ka = format!("{prefix}{a}");
                        let kb = format!("{prefix}{b}z");
                        let mut members: Vec<(String, RV)> = Vec::with_capacity(fill + 2);
                        for f in 0..fill {
                            if f == fill / 3 {
                                members.push((ka.clone(), RV::Num("1".into())));
                            }
                            if f == 2 * fill / 3 {
                                members.push((kb.clone(), RV::Str("s".into())));
                            }
                            // fillers on both sides of the pair in every order: ASCII, BMP, supplementary
                            let filler = match f % 3 {
                                0 => format!("f{f:03}"),
                                1 => format!("{}{f:03}", '\u{f000}'),
                                _ => format!("{}{f:03}", '\u{10400}'),
                            };
                            members.push((filler, RV::Num(f.to_string())));
                        }
                        let v = RV::Obj(members);
                        if mode == "C09" {
                            c09_value(&v, t);
                        } else {
                            c10_value(&v, t);
                        }
                    }
                }
            }
            t.outcome("keys:long common prefix among many members");
        }
        t.nontrivial(&(ui, l));
        t.outcome("keys:long common prefix");
    });
    rep.bounds["prefixed_keys"] = json!({"prefix_units": units.iter().map(|u| RV::Str(u.to_string()).show()).collect::<Vec<_>>(), "prefix_lengths": lens, "deciding_tails": tails.len(), "suffix_patterns": 3, "prefix_cases": count});
    rep.absorb(t);
}

/// Every JSON number spelling of length <= max over the alphabet (walk of the number DFA).
fn spellings(alphabet: &str, max: usize) -> Vec<String> {
    let mut out = Vec::new();
    fn rec(alphabet: &[char], max: usize, cur: &mut String, m: &Machine, out: &mut Vec<String>) {
        if !cur.is_empty() && m.pda.is_accepting() {
            out.push(cur.clone());
        }
        if cur.len() == max {
            return;
        }
        for &c in alphabet {
            if cur.is_empty() && !(c == '-' || c.is_ascii_digit()) {
                continue;
            }
            let mut m2 = m.clone();
            if m2.step(c).is_ok() {
                cur.push(c);
                rec(alphabet, max, cur, &m2, out);
                cur.pop();
            }
        }
    }
    let a: Vec<char> = alphabet.chars().collect();
    rec(&a, max, &mut String::new(), &Machine::new(), &mut out);
    out
}

const MANTISSAS: [u64; 16] = [
    0,
    1,
    2,
    4,
    (1 << 52) - 1,
    (1 << 52) - 2,
    1 << 51,
    (1 << 51) + 1,
    (1 << 51) - 1,
    0x5555555555555,
    0xAAAAAAAAAAAAA,
    0x999999999999A,
    0x3333333333333,
    0x0000000100000,
    0xFFFFF00000000,
    0x8000000000001,
];

/// Family 2: for the double x = m * 2^e: its exact decimal expansion, the midpoint to its
/// successor, and the midpoint +- 1 unit in the last place.
fn long_spellings(x: f64) -> Vec<String> {
    let (m, e) = canon::decompose(x);
    let mut out = Vec::new();
    let render = |n: &str, s: u32| if s == 0 { n.to_string() } else { format!("{n}e-{s}") };
    let (n, s) = canon::exact_scaled(m as u128, e);
    out.push(render(&n, s));
    let (nm, sm) = canon::exact_scaled(2 * m as u128 + 1, e - 1);
    out.push(render(&nm, sm));
    // +- 1 in the last place of the midpoint
    let mut big = {
        let mut b = canon::Big::from_u128(0);
        for ch in nm.chars() {
            b.mul_small(10);
            b.add_small(ch as u32 - '0' as u32);
        }
        b
    };
    big.add_small(1);
    out.push(render(&big.to_decimal(), sm));
    big.sub_small(2);
    out.push(render(&big.to_decimal(), sm));
    out
}

/// Spellings of about the precision of a double: x rounded to 14..=18 significant digits, with
/// the last digit as it is, one lower and one higher, each in exponent notation and (where the
/// magnitude allows) written out positionally, both signs. These are the spellings on which
/// "looks canonical already" shortcuts go wrong: 16 or 17 digits that are *not* the shortest
/// digits of the double they round to.
fn medium_spellings(x: f64) -> Vec<String> {
    let mut out = Vec::new();
    if x == 0.0 || !x.is_finite() {
        return out;
    }
    for p in 14..=18usize {
        let sci = format!("{:.*e}", p - 1, x.abs());
        let (mant, exp) = sci.split_once('e').unwrap();
        let exp: i32 = exp.parse().unwrap();
        let digits: String = mant.chars().filter(|c| c.is_ascii_digit()).collect();
        let n: u128 = digits.parse().unwrap();
        for delta in [-1i128, 0, 1] {
            let m = n as i128 + delta;
            if m <= 0 {
                continue;
            }
            let d = m.to_string();
            // value = 0.d x 10^(exp + 1 + (d.len() - p)): a carry lengthens d, a borrow shortens it
            let e10 = exp + (d.len() as i32 - p as i32);
            let exp_form = if d.len() > 1 { format!("{}.{}e{}", &d[..1], &d[1..], e10) } else { format!("{d}e{e10}") };
            out.push(exp_form);
            if (-7..=21).contains(&e10) {
                let point = e10 + 1; // number of digits before the point
                let pos = if point <= 0 {
                    format!("0.{}{}", "0".repeat((-point) as usize), d)
                } else if (point as usize) >= d.len() {
                    format!("{}{}", d, "0".repeat(point as usize - d.len()))
                } else {
                    format!("{}.{}", &d[..point as usize], &d[point as usize..])
                };
                out.push(format!("-{pos}"));
                out.push(pos);
            }
        }
    }
    out
}

fn structured_doubles(tier: Tier) -> Vec<f64> {
    let mut v = Vec::new();
    let step = 1;
    let mut mant: Vec<u64> = MANTISSAS.to_vec();
    if tier == Tier::Thorough {
        // 48 more patterns: every 4th single bit, runs of ones from the top and from the bottom
        for k in (0..52).step_by(4) {
            mant.push(1u64 << k);
            mant.push(((1u64 << 52) - 1) >> k);
            mant.push((((1u64 << 52) - 1) >> k) << k);
        }
        mant.extend([0x1999999999999, 0x6666666666666, 0xCCCCCCCCCCCCD, 0x7FFFFFFFFFFFF, 0x8000000000000 - 1, 0xFFFFFFFFFFFFE, 0x0000000000003, 0x4000000000001, 0xC000000000000]);
        mant.sort();
        mant.dedup();
    }
    let mut e = 0u64;
    while e <= 2046 {
        for &m in &mant {
            let x = f64::from_bits((e << 52) | m);
            if x != 0.0 {
                v.push(x);
            }
        }
        e += step;
    }
    // always include the extremes
    for bits in [1u64, 0x000f_ffff_ffff_ffff, 0x0010_0000_0000_0000, 0x7fef_ffff_ffff_ffff, 0x7fe0_0000_0000_0000] {
        v.push(f64::from_bits(bits));
    }
    v
}

/// Pumped linear families (I-JSON members only: no duplicate keys).
fn pumped(rep: &mut Report, tier: Tier, mode: &str) {
    use refmodel::pump::Family;
    let all: Vec<_> = refmodel::pump::all(tier == Tier::Thorough)
        .into_iter()
        .filter(|(f, n, _)| !matches!(f, Family::DuplicateKey | Family::InterleavedDuplicates | Family::KeyGridDup) && *n <= tier.pick(1025, 4097))
        .collect();
    let count = all.len();
    let t = explore::par_tally(all, |(fam, n, v), t| {
        // reversed member order so that sorting has work to do
        let v = match v {
            RV::Obj(mut m) => {
                m.reverse();
                RV::Obj(m)
            }
            other => other,
        };
        if mode == "C09" {
            c09_value(&v, t);
            c09_value(&RV::Arr(vec![v.clone(), RV::Obj(vec![("z".into(), v.clone()), ("a".into(), RV::Null)])]), t);
        } else {
            c10_value(&v, t);
        }
        t.nontrivial(&(format!("{fam:?}"), n));
        t.outcome(&format!("pumped:{fam:?}"));
    });
    rep.bounds["pumped-families"] = json!({"values": count, "cap": tier.pick(1025, 4097)});
    rep.absorb(t);
}

fn number_case(s: &str, t: &mut Tally) {
    c09_value(&RV::Num(s.to_string()), t);
    c09_value(&RV::Arr(vec![RV::Num(s.to_string()), RV::Obj(vec![("n".into(), RV::Num(format!("-{}", s.trim_start_matches('-'))))])]), t);
}

fn numbers_family(rep: &mut Report, tier: Tier) {
    // reference self-check: Appendix B and ryu-js on the structured doubles
    for (bits, want) in canon::RFC8785_APPENDIX_B {
        if canon::es_number(f64::from_bits(*bits)) != *want {
            rep.machinery.push(format!("R-canon fails RFC 8785 Appendix B vector {bits:016x}"));
        }
    }
    let mut buf = ryu_js::Buffer::new();
    let doubles = structured_doubles(tier);
    for &x in &doubles {
        if canon::es_number(x) != buf.format_finite(x) {
            rep.machinery.push(format!("R-canon number formatter disagrees with ryu-js on {:016x}: {} vs {}", x.to_bits(), canon::es_number(x), buf.format_finite(x)));
            break;
        }
    }
    // 1. every spelling of length <= L
    let l = tier.pick(7, 8);
    let sp = spellings("01259-.eE+", l);
    let nsp = sp.len();
    let t = explore::par_tally(sp.chunks(512).map(|c| c.to_vec()).collect(), |chunk, t| {
        for s in chunk {
            number_case(&s, t);
            t.nontrivial(&s);
            t.outcome(if s.contains(['e', 'E']) { "number:exponent form" } else if s.contains('.') { "number:fraction" } else { "number:integer" });
        }
    });
    rep.absorb(t);
    // 2. structured long decimals
    let nd = doubles.len();
    let t = explore::par_tally(doubles.chunks(64).map(|c| c.to_vec()).collect(), |chunk, t| {
        for x in chunk {
            for s in long_spellings(x) {
                number_case(&s, t);
                t.nontrivial(&s);
                t.outcome("number:long decimal (exact / midpoint / midpoint+-1)");
            }
            // and the shortest spelling with an upper-case exponent and a plus sign
            let short = format!("{:E}", x);
            number_case(&short, t);
            for s in medium_spellings(x) {
                number_case(&s, t);
                t.nontrivial(&s);
                t.outcome("number:14..18 significant digits, last digit -1/0/+1");
            }
            if x.to_bits() % 8 == 0 {
                for s in canon::sticky_spellings(x) {
                    number_case(&s, t);
                    t.outcome("number:midpoint + zeros + 1 (sticky digit far beyond every precision)");
                }
            }
            if x.to_bits() % 8 == 0 || x > 1e300 || x < 1e-300 {
                for s in canon::shifted_spellings(x) {
                    number_case(&s, t);
                    t.outcome("number:decimal point moved 1..25 places, exponent adjusted");
                }
            }
        }
    });
    rep.absorb(t);
    // 3. thresholds and vectors
    let mut t = Tally::new();
    let mut specials: Vec<String> = vec![
        "0", "-0", "0.0", "-0.0e5", "1e21", "999999999999999900000", "1e-6", "0.000001", "9.999999999999999e-7", "1e-7", "123456789012345680000", "1.7976931348623157e308", "5e-324", "4.9e-324",
        "2.2250738585072014e-308", "2.225073858507201e-308", "9007199254740993", "9007199254740992", "0.1", "0.30000000000000004", "100", "1E2", "1e+2", "1.0", "4.50", "2e-3", "333333333.33333329",
        "5.6920387482221225742e-164", "1e400", "-1e400", "1e-400",
    ]
    .into_iter()
    .map(String::from)
    .collect();
    for (bits, _) in canon::RFC8785_APPENDIX_B {
        let x = f64::from_bits(*bits);
        specials.push(format!("{:e}", x));
        for s in long_spellings(x.abs()) {
            if x != 0.0 {
                specials.push(s);
            }
        }
        // neighbours of the notation thresholds
        for d in [-1i64, 1] {
            let y = f64::from_bits(bits.wrapping_add(d as u64));
            if y.is_finite() {
                specials.push(format!("{:e}", y));
            }
        }
    }
    // positional family: short digit strings at every decimal magnitude from 1e-15 to 1e25,
    // written without an exponent (the notation thresholds 1e-6 and 1e21 from the positional side)
    let mut heads: Vec<String> = Vec::new();
    for a in ["1", "2", "5", "9"] {
        heads.push(a.to_string());
        for b in ["0", "1", "5", "9"] {
            heads.push(format!("{a}{b}"));
            for c in ["1", "3", "9"] {
                heads.push(format!("{a}{b}{c}"));
            }
        }
    }
    for d in &heads {
        for shift in -15i32..=25 {
            // value = d * 10^shift, positional
            let text = if shift >= 0 {
                format!("{d}{}", "0".repeat(shift as usize))
            } else {
                let k = (-shift) as usize;
                if d.len() > k {
                    let (x, y) = d.split_at(d.len() - k);
                    format!("{x}.{y}")
                } else {
                    format!("0.{}{d}", "0".repeat(k - d.len()))
                }
            };
            specials.push(text.clone());
            specials.push(format!("-{text}"));
            if !text.contains('.') {
                specials.push(format!("{text}.0"));
            } else {
                specials.push(format!("{text}0"));
            }
        }
    }
    for s in &specials {
        number_case(s, &mut t);
        t.nontrivial(s);
        t.outcome("number:threshold / vector");
    }
    rep.absorb(t);
    rep.bounds["numbers"] = json!({"spellings_alphabet": "01259-.eE+", "max_spelling_length": l, "spellings": nsp, "structured_doubles": nd, "mantissa_patterns": nd / 2047, "long_spellings_per_double": 4, "specials": specials.len()});
}

// ---------------------------------------------------------------------------------------------
// C10

fn f64_key(v: &RV) -> RV {
    match v {
        RV::Num(n) => RV::Num(format!("{:016x}", n.parse::<f64>().map(|x| if x == 0.0 { 0 } else { x.to_bits() }).unwrap_or(u64::MAX))),
        RV::Arr(a) => RV::Arr(a.iter().map(f64_key).collect()),
        RV::Obj(o) => {
            let mut e: Vec<(String, RV)> = o.iter().map(|(k, x)| (k.clone(), f64_key(x))).collect();
            e.sort();
            RV::Obj(e)
        }
        other => other.clone(),
    }
}

/// After canonicalisation every object must still be fully queryable by key and its index
/// well-formed (hook H1).
fn check_queryable(v: &Value) -> Result<(), String> {
    match v {
        Value::Array(a) => a.iter().try_for_each(check_queryable),
        Value::Object(o) => {
            let ents = o.entries();
            for (i, e) in ents.iter().enumerate() {
                let k = e.key.as_str();
                let pos: Vec<usize> = ents.iter().enumerate().filter(|(_, x)| x.key.as_str() == k).map(|(j, _)| j).collect();
                if o.indexes_of(k).collect::<Vec<_>>() != pos || o.index_of(k) != pos.first().copied() || !o.contains_key(k) {
                    return Err(format!("after canonicalize, key {k:?} (entry {i}) is not found where a linear scan finds it"));
                }
                if !o.get(k).any(|x| std::ptr::eq(x, &e.value)) {
                    return Err(format!("after canonicalize, get({k:?}) does not return the entry's value"));
                }
            }
            if o.contains_key("\u{3}absent") {
                return Err("after canonicalize, an absent key is reported present".into());
            }
            let (_, _, buckets) = o.verif_index_dump();
            let mut seen = vec![0; ents.len()];
            for (_, rep, other) in &buckets {
                for &i in std::iter::once(rep).chain(other.iter()) {
                    if i >= ents.len() || ents[i].key != ents[*rep].key {
                        return Err(format!("after canonicalize, the key index is stale: {buckets:?}"));
                    }
                    seen[i] += 1;
                }
                if other.windows(2).any(|w| w[0] >= w[1]) || other.first().map(|&f| f <= *rep).unwrap_or(false) {
                    return Err(format!("after canonicalize, an index bucket is not sorted: {buckets:?}"));
                }
            }
            if seen.iter().any(|&c| c != 1) {
                return Err(format!("after canonicalize, the key index does not cover every entry exactly once: {buckets:?}"));
            }
            ents.iter().try_for_each(|e| check_queryable(&e.value))
        }
        _ => Ok(()),
    }
}

/// C10 clauses that concern one value: idempotence, nothing else changes, still queryable.
fn c10_value(v: &RV, t: &mut Tally) {
    t.evals += 1;
    if canon::canonical(v).is_none() {
        return;
    }
    let (once_txt, once) = match canon_print(v) {
        Ok(x) => x,
        Err(e) => {
            t.violation("", e, case_value(v));
            return;
        }
    };
    let mut twice = once.clone();
    twice.canonicalize();
    if twice != once || twice.compact_print().to_string() != once_txt {
        t.violation("", format!("canonicalize is not idempotent: second application gives {}", twice.compact_print()), case_value(v));
    }
    let after = bridge::from_value(&once);
    if f64_key(&after) != f64_key(v) {
        t.violation("", format!("canonicalize changed more than order and number spelling: {} became {}", v.show(), after.show()), case_value(v));
    }
    if let Err(e) = check_queryable(&once) {
        t.violation("", e, case_value(v));
    }
}

/// Exact respellings of a JSON number (value-preserving rewriting, DESIGN 4/C10).
fn respellings(s: &str) -> Vec<String> {
    // parse into sign, digit string D and exponent x with value = D * 10^x
    let (neg, body) = match s.strip_prefix('-') {
        Some(b) => (true, b),
        None => (false, s),
    };
    let (mant, exp) = match body.find(['e', 'E']) {
        Some(i) => (&body[..i], body[i + 1..].parse::<i64>().unwrap_or(0)),
        None => (body, 0),
    };
    let (ip, fp) = match mant.split_once('.') {
        Some((a, b)) => (a, b),
        None => (mant, ""),
    };
    let mut d = format!("{ip}{fp}");
    let mut x = exp - fp.len() as i64;
    // normalise: strip leading zeros, move trailing zeros into the exponent
    let stripped = d.trim_start_matches('0');
    d = if stripped.is_empty() { "0".to_string() } else { stripped.to_string() };
    while d.len() > 1 && d.ends_with('0') {
        d.pop();
        x += 1;
    }
    let sign = if neg { "-" } else { "" };
    let mut out = Vec::new();
    for zeros in 0..=2usize {
        // integer mantissa with `zeros` extra zeros
        let dz = format!("{d}{}", "0".repeat(zeros));
        let xz = x - zeros as i64;
        for (e_char, plus) in [('e', ""), ('E', ""), ('e', "+")] {
            if xz >= 0 {
                out.push(format!("{sign}{dz}{e_char}{plus}{xz}"));
            } else if plus.is_empty() {
                out.push(format!("{sign}{dz}{e_char}{xz}"));
            }
        }
        if xz == 0 {
            out.push(format!("{sign}{dz}"));
        }
        // point inserted k digits from the right
        for k in 1..=3usize {
            let padded = if dz.len() <= k { format!("{}{dz}", "0".repeat(k + 1 - dz.len())) } else { dz.clone() };
            let (a, b) = padded.split_at(padded.len() - k);
            let xe = xz + k as i64;
            if xe == 0 {
                out.push(format!("{sign}{a}.{b}"));
            }
            out.push(format!("{sign}{a}.{b}e{xe}"));
            out.push(format!("{sign}{a}.{b}E{}{xe}", if xe >= 0 { "+" } else { "" }));
        }
    }
    // fully positional spellings when the exponent is small
    if (0..=6).contains(&x) {
        out.push(format!("{sign}{d}{}", "0".repeat(x as usize)));
        out.push(format!("{sign}{d}{}.0", "0".repeat(x as usize)));
    }
    if (-8..0).contains(&x) {
        let k = (-x) as usize;
        let padded = if d.len() <= k { format!("{}{d}", "0".repeat(k + 1 - d.len())) } else { d.clone() };
        let (a, b) = padded.split_at(padded.len() - k);
        out.push(format!("{sign}{a}.{b}"));
        out.push(format!("{sign}{a}.{b}00"));
    }
    // exponents written with leading zeros (what C's %e and many other printers emit: 1e-07,
    // 1E+007) and with an explicit sign: the same numbers, in an otherwise unchanged spelling
    let mut padded_exponents = Vec::new();
    for r in &out {
        if let Some(i) = r.find(['e', 'E']) {
            let (m, e) = r.split_at(i);
            let digits = e[1..].trim_start_matches(['+', '-']);
            let esign = if e[1..].starts_with('-') { "-" } else { "" };
            for pad in ["0", "00", "000"] {
                padded_exponents.push(format!("{m}{}{esign}{pad}{digits}", &e[..1]));
                if esign.is_empty() {
                    padded_exponents.push(format!("{m}{}+{pad}{digits}", &e[..1]));
                }
            }
        }
    }
    out.extend(padded_exponents);
    // the canonical (ECMAScript) rendering itself with a padded exponent
    {
        if let Some(js) = canon::canonical_number(s) {
            if let Some(i) = js.find('e') {
                let (m, e) = js.split_at(i);
                let (esign, digits) = if let Some(d) = e[1..].strip_prefix('-') { ("-", d) } else { ("+", e[1..].trim_start_matches('+')) };
                out.push(format!("{m}e{esign}0{digits}"));
                out.push(format!("{m}E{esign}00{digits}"));
            }
        }
    }
    out.retain(|r| {
        // only valid JSON numbers (no leading zeros such as 00.5)
        let m = refmodel::pda::scan(r);
        m.accepted
    });
    out.sort();
    out.dedup();
    out
}

/// Operation sequences (C10, C09): canonicalization must not depend on what was done to the
/// object before - every sequence of up to 3 (4) operations out of {canonicalize, sort, push of a
/// key, removal of the first / last entry, clone, clone_from into a fresh object} on start objects
/// whose keys include the pairs on which sort's code-point order and the canonical UTF-16 order
/// differ; after the sequence the object is canonicalized and must print as the canonical form of
/// its current entries, stay queryable, and be idempotent.
fn canon_sequences(rep: &mut Report, tier: Tier) {
    use json_syntax::object::{Entry, Key};
    use json_syntax::Object;
    #[derive(Clone, Copy, Debug, PartialEq)]
    enum Op {
        Canon,
        Sort,
        Push(usize),
        RemoveFirst,
        RemoveLast,
        Clone,
        CloneFrom,
        /// a non-canonical value (the number 1.50, or an object whose members are in the wrong
        /// order) written into the first entry through one of the accessors that hand out
        /// `&mut Value`: get_mut, get_unique_mut, iter_mut, get_mut_or_insert_with on a key that
        /// is present, `&mut object` into_iter
        Write(u8, bool),
    }
    let keys = ["\u{e000}", "\u{10000}", "a", "\u{ffff}b", "\u{1d11e}"];
    let mut ops = vec![Op::Canon, Op::Sort, Op::RemoveFirst, Op::RemoveLast, Op::Clone, Op::CloneFrom];
    for route in 0..5u8 {
        ops.push(Op::Write(route, false));
        ops.push(Op::Write(route, true));
    }
    for k in 0..keys.len() {
        ops.push(Op::Push(k));
    }
    let starts: Vec<Vec<usize>> = vec![vec![], vec![0, 1], vec![1, 0], vec![2, 1, 0], vec![3, 4, 0, 1]];
    let max_len = tier.pick(3, 4);
    let mut seqs: Vec<Vec<Op>> = vec![vec![]];
    let mut frontier: Vec<Vec<Op>> = vec![vec![]];
    for _ in 0..max_len {
        let mut next = Vec::new();
        for s in &frontier {
            for &o in &ops {
                let mut s2 = s.clone();
                s2.push(o);
                next.push(s2);
            }
        }
        seqs.extend(next.iter().cloned());
        frontier = next;
    }
    let count = seqs.len() * starts.len();
    let t = explore::par_tally(seqs.chunks(256).map(|c| c.to_vec()).collect(), |chunk, t| {
        for seq in chunk {
            for start in &starts {
                t.evals += 1;
                let case = || json!({"kind": "canon-sequence", "start": start.iter().map(|&k| keys[k]).collect::<Vec<_>>(), "ops": seq.iter().map(|o| format!("{o:?}")).collect::<Vec<_>>()});
                let r = explore::guard(|| {
                    let mut o = Object::from_vec(start.iter().enumerate().map(|(i, &k)| Entry::new(Key::from(keys[k]), Value::from(i as u32))).collect());
                    let mut n = start.len() as u32;
                    for op in &seq {
                        match op {
                            Op::Canon => o.canonicalize(),
                            Op::Sort => o.sort(),
                            Op::Push(k) => {
                                if !o.contains_key(keys[*k]) {
                                    o.push(Key::from(keys[*k]), Value::from(n));
                                    n += 1;
                                }
                            }
                            Op::RemoveFirst => {
                                if !o.is_empty() {
                                    o.remove_at(0);
                                }
                            }
                            Op::RemoveLast => {
                                if !o.is_empty() {
                                    o.remove_at(o.len() - 1);
                                }
                            }
                            Op::Write(route, nested) => {
                                if let Some(first) = o.entries().first().map(|e| e.key.clone()) {
                                    let new = if *nested {
                                        Value::Object(Object::from_vec(vec![Entry::new(Key::from("\u{e000}"), Value::from(1u32)), Entry::new(Key::from("\u{10000}"), Value::Number(json_syntax::NumberBuf::new(b"2.0".to_vec().into()).unwrap()))]))
                                    } else {
                                        Value::Number(json_syntax::NumberBuf::new(b"1.50".to_vec().into()).unwrap())
                                    };
                                    match route {
                                        0 => {
                                            if let Some(slot) = o.get_mut(first.as_str()).next() {
                                                *slot = new;
                                            }
                                        }
                                        1 => {
                                            if let Ok(Some(slot)) = o.get_unique_mut(first.as_str()) {
                                                *slot = new;
                                            }
                                        }
                                        2 => {
                                            if let Some((_, slot)) = o.iter_mut().next() {
                                                *slot = new;
                                            }
                                        }
                                        3 => *o.get_mut_or_insert_with(first.as_str(), || Value::Null) = new,
                                        _ => {
                                            if let Some((_, slot)) = (&mut o).into_iter().next() {
                                                *slot = new;
                                            }
                                        }
                                    }
                                }
                            }
                            Op::Clone => o = o.clone(),
                            Op::CloneFrom => {
                                let mut d = Object::new();
                                d.push(Key::from("zz"), Value::Null);
                                d.clone_from(&o);
                                o = d;
                            }
                        }
                    }
                    let before = bridge::from_value(&Value::Object(o.clone()));
                    let mut v = Value::Object(o);
                    v.canonicalize();
                    let printed = v.compact_print().to_string();
                    let mut twice = v.clone();
                    twice.canonicalize();
                    (before, printed, check_queryable(&v), twice == v)
                });
                match r {
                    Ok((before, printed, queryable, idempotent)) => {
                        let want = canon::canonical(&before);
                        if Some(&printed) != want.as_ref() {
                            t.violation("", format!("after the operations {seq:?} canonicalization gives {printed}, the canonical form of the entries is {want:?}"), case());
                        }
                        if let Err(e) = queryable {
                            t.violation("", format!("after the operations {seq:?}: {e}"), case());
                        }
                        if !idempotent {
                            t.violation("", format!("after the operations {seq:?} canonicalization is not idempotent"), case());
                        }
                    }
                    Err(p) => t.violation("", format!("operations {seq:?} panicked: {p}"), case()),
                }
            }
        }
        t.outcome("operation sequences before canonicalization");
    });
    rep.bounds["sequences"] = json!({"operations": ops.len(), "max_length": max_len, "start_objects": starts.len(), "sequences_x_starts": count, "keys": keys.iter().map(|k| RV::Str(k.to_string()).show()).collect::<Vec<_>>()});
    rep.absorb(t);
}

/// Free-running concurrency pass (sampled schedules): eight threads canonicalize at the same time.
fn canon_concurrent(rep: &mut Report) {
    let mut docs: Vec<String> = ["1e21", "0.000001", "123456789012345680000", "5e-324", "-0", "1.50", "9007199254740993", "8.000000000000001"].iter().map(|n| format!("[{n},{{\"b\":{n},\"a\":[{n}]}}]")).collect();
    docs.push("{\"\u{e000}\":1,\"\u{10000}\":2,\"a\":{\"z\":0,\"\u{ffff}\":[1.0,2e0]}}".to_string());
    docs.push("{\"k-longer-than-sixteen-bytes-1\":1,\"k-longer-than-sixteen-bytes-0\":2}".to_string());
    let mut t = Tally::new();
    match explore::concurrent_agreement(8, 40, docs.len(), |i| canon_doc(&docs[i])) {
        Ok(k) => {
            t.evals += k;
            t.outcome("concurrent canonicalizations agree with sequential ones (sampled schedules)");
        }
        Err(e) => t.violation("", format!("canonical output differs when 8 threads canonicalize at the same time: {e}"), json!({"kind": "concurrent"})),
    }
    rep.bounds["concurrent"] = json!({"threads": 8, "rounds": 40, "documents": docs.len(), "schedules": "free-running (sampled, not enumerated)"});
    rep.absorb(t);
}

fn c10_documents(rep: &mut Report, tier: Tier) {
    // spellings of about the precision of a double: all of those that denote the same double
    // (std's correctly rounded parser decides) must canonicalise identically
    {
        let doubles = structured_doubles(tier);
        let nd = doubles.len();
        let t = explore::par_tally(doubles.chunks(64).map(|c| c.to_vec()).collect(), |chunk, t| {
            for x in chunk {
                let mut classes: std::collections::HashMap<u64, (String, String)> = std::collections::HashMap::new();
                let mut all_spellings = medium_spellings(x);
                if x.to_bits() % 8 == 0 && x > 0.0 {
                    // just above the midpoint below x: the same double as x's own spellings
                    all_spellings.extend(canon::sticky_spellings(f64::from_bits(x.to_bits() - 1)));
                    all_spellings.extend(long_spellings(x).into_iter().take(1));
                }
                if x.to_bits() % 8 == 0 || x > 1e300 || (x > 0.0 && x < 1e-300) {
                    all_spellings.extend(canon::shifted_spellings(x));
                }
                for sp in all_spellings {
                    let y: f64 = match sp.parse() {
                        Ok(y) => y,
                        Err(_) => continue,
                    };
                    if !y.is_finite() {
                        continue;
                    }
                    let doc = format!("[{sp}]");
                    t.evals += 1;
                    match canon_doc(&doc) {
                        Ok(c) => match classes.get(&y.to_bits()) {
                            None => {
                                classes.insert(y.to_bits(), (sp.clone(), c));
                            }
                            Some((first, cf)) => {
                                if *cf != c {
                                    t.violation("", format!("numerically equal spellings {first} and {sp} canonicalise differently: {cf} vs {c}"), json!({"kind": "canon-doc", "doc": doc, "other": format!("[{first}]")}));
                                }
                            }
                        },
                        Err(e) => t.violation("", e, json!({"kind": "canon-doc", "doc": doc, "other": doc})),
                    }
                }
                t.nontrivial(&x.to_bits());
            }
            t.outcome("number:medium-precision spellings of one double");
        });
        rep.bounds["medium_spellings"] = json!({"doubles": nd, "significant_digits": [14, 18], "last_digit": [-1, 0, 1], "notations": ["exponent", "positional", "negative positional"]});
        rep.absorb(t);
    }
    // number respellings: all spellings of the class must canonicalise identically
    let l = tier.pick(6, 7);
    let mut bases = spellings("01259-.eE+", l);
    bases.extend(["1e21", "999999999999999900000", "1e-7", "0.000001", "5e-324", "1.7976931348623157e308", "0.1", "9007199254740993", "5.6920387482221225742e-164"].map(String::from));
    let nb = bases.len();
    let t = explore::par_tally(bases.chunks(256).map(|c| c.to_vec()).collect(), |chunk, t| {
        for s in chunk {
            let base = match canon::canonical_number(&s) {
                Some(b) => b,
                None => continue,
            };
            let x: f64 = s.parse().unwrap();
            let rs = respellings(&s);
            t.outcome_n("number respellings", rs.len() as u64);
            for r in rs {
                // the rewriting must be exact (machinery self-check, with the reference's parser)
                match r.parse::<f64>() {
                    Ok(y) if y == x || (x == 0.0 && y == 0.0) => {}
                    _ => {
                        t.violation("MACHINERY-respell", format!("respelling {r} of {s} does not denote the same double"), json!({"s": s, "r": r}));
                        continue;
                    }
                }
                t.evals += 1;
                let doc = format!("{{\"k\":[{r}]}}");
                match canon_doc(&doc) {
                    Ok(out) => {
                        let want = format!("{{\"k\":[{base}]}}");
                        if out != want {
                            t.violation("", format!("numerically equal spellings {s} and {r} canonicalise differently: {want} vs {out}"), json!({"kind": "canon-doc", "doc": doc, "other": format!("{{\"k\":[{s}]}}")}));
                        }
                    }
                    Err(e) => t.violation("", e, json!({"kind": "canon-doc", "doc": doc})),
                }
            }
            c10_value(&RV::Num(s.clone()), t);
            t.nontrivial(&s);
        }
    });
    rep.absorb(t);

    // escapes and whitespace: documents that differ only in how characters are escaped / spaced
    let chars: Vec<(String, Vec<String>)> = vec![
        ("a".into(), vec!["a".into(), "\\u0061".into()]),
        ("/".into(), vec!["/".into(), "\\/".into(), "\\u002f".into(), "\\u002F".into()]),
        ("\n".into(), vec!["\\n".into(), "\\u000a".into(), "\\u000A".into()]),
        ("\"".into(), vec!["\\\"".into(), "\\u0022".into()]),
        ("\\".into(), vec!["\\\\".into(), "\\u005c".into(), "\\u005C".into()]),
        ("\u{8}".into(), vec!["\\b".into(), "\\u0008".into()]),
        ("\u{1f}".into(), vec!["\\u001f".into(), "\\u001F".into()]),
        ("\u{7f}".into(), vec!["\u{7f}".into(), "\\u007f".into()]),
        ("\u{e9}".into(), vec!["\u{e9}".into(), "\\u00e9".into(), "\\u00E9".into()]),
        ("\u{2028}".into(), vec!["\u{2028}".into(), "\\u2028".into()]),
        ("\u{1f600}".into(), vec!["\u{1f600}".into(), "\\ud83d\\ude00".into(), "\\uD83D\\uDE00".into()]),
        ("\u{ffff}".into(), vec!["\u{ffff}".into(), "\\uffff".into()]),
    ];
    let ws = ["", " ", "\n", "\t\r\n "];
    let mut t = Tally::new();
    for (c1, sp1) in &chars {
        for (c2, sp2) in &chars {
            let want = canon::canonical(&RV::Obj(vec![(format!("{c1}{c2}"), RV::Arr(vec![RV::Str(format!("{c2}{c1}")), RV::Null]))])).unwrap();
            for a in sp1 {
                for b in sp2 {
                    for w in ws {
                        let doc = format!("{w}{{{w}\"{a}{b}\"{w}:{w}[{w}\"{b}{a}\"{w},{w}null{w}]{w}}}{w}");
                        t.evals += 1;
                        match canon_doc(&doc) {
                            Ok(out) => {
                                if out != want {
                                    t.violation("", format!("escape / whitespace variant canonicalises to {out}, expected {want}"), json!({"kind": "canon-doc", "doc": doc}));
                                }
                            }
                            Err(e) => t.violation("", e, json!({"kind": "canon-doc", "doc": doc})),
                        }
                        t.nontrivial(&doc);
                    }
                }
            }
        }
    }
    t.outcome_n("escape/whitespace variants", t.evals);
    rep.absorb(t);
    rep.bounds["respellings"] = json!({"base_spellings": nb, "max_base_length": l, "rewrites": "exponent shift by 1..3 digits, 0..2 extra zeros, e/E, +/no sign, positional forms"});
    rep.bounds["escapes"] = json!({"characters": chars.len(), "pairs": chars.len() * chars.len(), "whitespace_variants": ws.len()});
}

fn canon_doc(doc: &str) -> Result<String, String> {
    let (mut v, _) = Value::parse_str(doc).map_err(|e| format!("document {doc:?} does not parse: {e}"))?;
    // the byte-slice route to the same document
    let (mut w, _) = Value::parse_slice(doc.as_bytes()).map_err(|e| format!("document {doc:?} does not parse as bytes: {e}"))?;
    explore::guard(|| {
        v.canonicalize();
        w.canonicalize();
        (v.compact_print().to_string(), w.compact_print().to_string())
    })
    .map_err(|p| format!("canonicalize panicked: {p}"))
    .and_then(|(a, b)| if a == b { Ok(a) } else { Err(format!("document {doc:?} canonicalizes to {a} when read as a string and to {b} when read as bytes")) })
}

fn replay(args: &Args, path: &std::path::Path) -> i32 {
    let j: J = explore::serde_json::from_str(&std::fs::read_to_string(path).expect("read")).expect("json");
    let c = &j["case"];
    let mut t = Tally::new();
    match c["kind"].as_str() {
        Some("canon") => {
            let rv = match Value::parse_str(c["value"].as_str().unwrap_or("null")) {
                Ok((v, _)) => bridge::from_value(&v),
                Err(e) => {
                    println!("cannot parse the recorded value: {e}");
                    return 2;
                }
            };
            if args.property == "C09" {
                c09_value(&rv, &mut t)
            } else {
                c10_value(&rv, &mut t)
            }
        }
        Some("canon-doc") => {
            let doc = c["doc"].as_str().unwrap_or("");
            let (v, _) = Value::parse_str(doc).expect("recorded document parses");
            let rv = bridge::from_value(&v);
            let want = canon::canonical(&rv);
            let got = canon_doc(doc).ok();
            if got != want {
                t.violation("", format!("document canonicalises to {got:?}, reference {want:?}"), c.clone());
            }
        }
        other => {
            println!("unsupported case kind {other:?}");
            return 2;
        }
    }
    if t.violation_count == 0 {
        println!("replay: the case passes on the current tree");
        0
    } else {
        for v in &t.violations {
            println!("replay: {}", v.what);
        }
        println!("VIOLATION property={} replay={}", args.property, path.display());
        1
    }
}

fn main() {
    let args = Args::parse();
    explore::quiet_panics();
    explore::init_threads();
    if let Some(p) = &args.replay {
        std::process::exit(replay(&args, p));
    }
    let _budget = Budget::for_tier(args.tier, 50, 900);
    let code = match args.property.as_str() {
        "C09" => {
            let mut rep = Report::new(&args, "exploration", "E-ENUM: key sets in every permutation + three exhaustive number families against R-canon");
            keys_family(&mut rep, args.tier, "C09");
            prefixed_keys_family(&mut rep, args.tier, "C09");
            canon_sequences(&mut rep, args.tier);
            canon_concurrent(&mut rep);
            numbers_family(&mut rep, args.tier);
            pumped(&mut rep, args.tier, "C09");
            rep.tally.sample(json!({"value": "{\"\\ud800\\udc00\":1,\"\\ue000\":2}", "canonical": canon::canonical(&RV::Obj(vec![("\u{10000}".into(), RV::num("1")), ("\u{e000}".into(), RV::num("2"))]))}));
            rep.tally.sample(json!({"number": "5.6920387482221225742e-164", "canonical": canon::canonical_number("5.6920387482221225742e-164")}));
            rep.rule = "keys: every ordered selection of up to 4 (5) distinct keys out of 15 (the set contains the U+E000..U+FFFF vs supplementary-plane region), flat, object-in-object and object-in-array; numbers: every spelling up to the length bound over 0 1 2 5 9 - . e E +, for every structured double (16 mantissa patterns x binary exponents) its exact expansion, the midpoint to its successor and the midpoint +-1 in the last place (up to ~770 digits), thresholds and the RFC vectors; canonicalize + compact_print must equal R-canon byte for byte; distinct = distinct key sequences / spellings".into();
            rep.assumptions.push("R-canon: std's correctly rounded str::parse::<f64>, std's shortest digits + the ECMAScript round-half-even tie rule; self-checked against RFC 8785 Appendix B and against ryu-js on every structured double".into());
            rep.finish()
        }
        "C10" => {
            let mut rep = Report::new(&args, "exploration", "E-ENUM: equivalence classes of documents (member order, number spelling, escapes, whitespace)");
            keys_family(&mut rep, args.tier, "C10");
            prefixed_keys_family(&mut rep, args.tier, "C10");
            canon_sequences(&mut rep, args.tier);
            canon_concurrent(&mut rep);
            c10_documents(&mut rep, args.tier);
            pumped(&mut rep, args.tier, "C10");
            rep.tally.sample(json!({"number": "1.5e2", "respellings_all_canonicalising_to": canon::canonical_number("1.5e2"), "respellings": respellings("1.5e2")}));
            rep.tally.sample(json!({"documents_with_equal_canonical_form": ["{\"a/\":[\"/a\",null]}", " {\n\"\\u0061\\/\" : [ \"\\u002fa\" , null ] } "], "canonical": canon_doc("{\"\\u0061\\/\":[\"\\u002fa\",null]}").ok()}));
            rep.rule = "every permutation of every key set of up to 4 (5) keys must canonicalise to the same bytes as the sorted selection; every exact respelling (exponent shifts, trailing zeros, e/E, +) of every number spelling up to the length bound must canonicalise identically; every pair of escapable characters in every escape spelling under four whitespace variants; on every value: second application is the identity, nothing but order and number spelling changes (numbers compared as doubles), every object stays queryable and its index well-formed (hook H1); distinct = distinct documents / key sequences".into();
            rep.finish()
        }
        other => {
            eprintln!("chk-canon does not serve {other}");
            2
        }
    };
    std::process::exit(code);
}
