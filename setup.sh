#!/bin/bash
# Offline build of every check binary against /repo (MANIFEST.setup_cmd).
set -eu
ROOT="$(cd "$(dirname "$0")" && pwd)"
export CARGO_NET_OFFLINE=true
mkdir -p /verif/.target "$ROOT/evidence" "$ROOT/replays"
cd "$ROOT/harness"
cargo build --release --offline --workspace 2>&1 | tail -3
# dependencies of the generated json! programs (C19), built once so that the check only compiles the programs
/verif/.target/release/chk-macro --prebuild || true
