#!/bin/bash
# Offline build of every check binary against /repo (MANIFEST.setup_cmd).
set -eu
ROOT="$(cd "$(dirname "$0")" && pwd)"
export CARGO_NET_OFFLINE=true
export CARGO_TARGET_DIR="$ROOT/.target"
export VERIF_TARGET="$ROOT/.target"
mkdir -p "$ROOT/.target" "$ROOT/evidence" "$ROOT/replays"
cd "$ROOT/harness"
cargo build --release --offline --workspace 2>&1 | tail -3
# the same binaries with debug assertions enabled (second pass of ./run, build-profile dimension)
cargo build --profile verif-da --offline --workspace 2>&1 | tail -3
# dependencies of the generated json! programs (C19), built once so that the check only compiles the programs
"$ROOT/.target/release/chk-macro" --prebuild || true
